//! C01 — supply: no over-mint, no re-mint, exact remaining count (vending family).
//! Histories interleave Mint / MintTo / MintFor / Shuffle / Purge / BurnRemaining by
//! several senders until (and past) sell-out on all six vending minters; the monitors
//! evaluate the property text on the real contracts' answers; every minter step is
//! also printed for the Coq model (corr/SaleCorr.v).
use crate::oe_world::*;
use crate::util::*;
use crate::w_sale::*;
use crate::Args;
use serde::{Deserialize, Serialize};
use std::collections::{BTreeMap, BTreeSet};

#[derive(Clone, Debug, Serialize, Deserialize)]
pub struct Case {
    pub variant: usize,
    pub updatable: bool,
    pub num_tokens: u32,
    pub pal: u32,
    pub price: u128,
    pub ops: Vec<Op>,
}

fn cfg_of(c: &Case) -> SaleCfg {
    let mut cfg = SaleCfg::basic(c.variant);
    cfg.updatable_collection = c.updatable;
    cfg.num_tokens = c.num_tokens;
    cfg.pal = c.pal;
    cfg.price = c.price;
    cfg.start_in_secs = 100;
    cfg
}

pub struct CaseResult {
    pub coq: Option<String>,
    pub steps: u64,
    pub ok_steps: u64,
    pub violations: Vec<(String, String)>, // (key, what)
    pub hist: BTreeMap<String, u64>,
}

fn op_kind(op: &Op) -> &'static str {
    match op {
        Op::At { .. } => "at",
        Op::Mint { .. } => "mint",
        Op::MintM { .. } => "mint_merkle",
        Op::MintTo { .. } => "mint_to",
        Op::MintFor { .. } => "mint_for",
        Op::Purge { .. } => "purge",
        Op::Shuffle { .. } => "shuffle",
        Op::BurnRemaining { .. } => "burn_remaining",
        Op::UpdateMintPrice { .. } => "update_mint_price",
        Op::UpdateStartTime { .. } => "update_start_time",
        Op::UpdateStartTradingTime { .. } => "update_start_trading_time",
        Op::UpdatePerAddressLimit { .. } => "update_per_address_limit",
        Op::SetWhitelist { .. } => "set_whitelist",
        Op::UpdateDiscountPrice { .. } => "update_discount_price",
        Op::RemoveDiscountPrice { .. } => "remove_discount_price",
        Op::SudoParams { .. } => "sudo_params",
        Op::WlAddMember { .. } => "wl_add_member",
        Op::Migrate { .. } => "migrate",
        Op::Burn { .. } => "holder_burn",
        Op::TransferNft { .. } => "holder_transfer",
    }
}

/// The harness's own ledger of the collection side: every id EVER issued by the minter, with its
/// current holder (None = its holder burned it; a burned id stays issued).  The monitors judge
/// freshness and sequence of ids against this ledger, never against what the collection holds now.
#[derive(Default)]
pub struct HolderLedger {
    pub holder: BTreeMap<u64, Option<String>>,
}
impl HolderLedger {
    /// records a freshly issued id; false if the id had been issued before (even if burned since)
    pub fn issue(&mut self, id: u64, owner: &str) -> bool {
        self.holder.insert(id, Some(owner.to_string())).is_none()
    }
    pub fn issued(&self) -> usize {
        self.holder.len()
    }
    pub fn live(&self) -> BTreeSet<u64> {
        self.holder.iter().filter(|(_, h)| h.is_some()).map(|(k, _)| *k).collect()
    }
    /// a cw721 Burn / TransferNft `who` sent to the collection; returns what the property text forbids
    pub fn holder_op(&mut self, vname: &str, what: &str, who: &str, to: Option<&str>, id: u64, ok: bool, err: &Option<String>) -> Vec<(String, String)> {
        let mut v = vec![];
        // "@owner" = whoever holds the token by THIS ledger (the stranger if nobody does)
        let resolved = if who == "@owner" { self.holder.get(&id).cloned().flatten().unwrap_or_else(|| STRANGER.to_string()) } else { who.to_string() };
        let who = resolved.as_str();
        if let Some(e) = err {
            if e.starts_with("MINTER-CHANGED-BY-HOLDER-OP") {
                v.push(("C01:holder-op-changed-minter".to_string(), format!("{}: {} of token {} by {} changed the minter's storage", vname, what, id, who)));
            }
        }
        if ok {
            let owner = self.holder.get(&id).cloned().flatten();
            if owner.as_deref() != Some(who) {
                v.push(("C01:holder-op-by-non-owner".to_string(), format!("{}: {} of token {} by {} succeeded, ledger holder {:?}", vname, what, id, who, owner)));
            }
            self.holder.insert(id, to.map(|t| t.to_string()));
        }
        v
    }
}
/// (what, who, to, id) of a holder-side op of the vending world
fn holder_args(op: &Op) -> Option<(&'static str, &str, Option<&str>, u64)> {
    match op {
        Op::Burn { who, token_id } => Some(("burn", who.as_str(), None, *token_id as u64)),
        Op::TransferNft { who, to, token_id } => Some(("transfer", who.as_str(), Some(to.as_str()), *token_id as u64)),
        _ => None,
    }
}
fn oe_holder_args(op: &OeOp) -> Option<(&'static str, &str, Option<&str>, u64)> {
    match op {
        OeOp::Burn { who, token_id } => Some(("burn", who.as_str(), None, *token_id as u64)),
        OeOp::TransferNft { who, to, token_id } => Some(("transfer", who.as_str(), Some(to.as_str()), *token_id as u64)),
        _ => None,
    }
}

pub fn run_case(c: &Case) -> CaseResult {
    let mut res = CaseResult { coq: None, steps: 0, ok_steps: 0, violations: vec![], hist: BTreeMap::new() };
    let mut w = match SaleWorld::new(cfg_of(c)) {
        Ok(w) => w,
        Err(e) => {
            *res.hist.entry(format!("{}:create:err", VARIANTS[c.variant].name)).or_insert(0) += 1;
            let _ = e;
            return res;
        }
    };
    let vname = w.v.name;
    let n = c.num_tokens as u64;
    let init = w.init_state_coq();
    let init_bal = w.balances_coq();
    let mut steps = vec![];
    // ---- monitor state (property text, independent of the model) ----
    let mut minted: BTreeSet<u64> = BTreeSet::new(); // ids EVER issued (a token its holder burned stays here)
    let mut ledger = HolderLedger::default();
    let mut burned: u64 = 0;
    let mut burn_done = false;
    let init_ids: BTreeSet<u32> = w.positions().iter().map(|p| p.1).collect();
    if init_ids != (1..=c.num_tokens).collect::<BTreeSet<u32>>() || w.mintable() != n {
        res.violations.push(("C01:initial-table".into(), format!("{}: initial ids/count are not 1..={}", vname, n)));
    }
    for op in &c.ops {
        let before_pos = w.positions();
        let before_mintable = w.mintable();
        let out = w.run(op);
        if let Some((what, who, to, id)) = holder_args(op) {
            // holder side: the collection changes, the minter's books must not
            *res.hist.entry(format!("{}:{}:{}", vname, op_kind(op), if out.ok { "ok" } else { "err" })).or_insert(0) += 1;
            res.violations.extend(ledger.holder_op(vname, what, who, to, id, out.ok, &out.err));
            if w.mintable() != before_mintable || w.positions() != before_pos {
                res.violations.push(("C01:holder-op-changed-supply".into(), format!("{}: {:?} changed the remaining ids or their count", vname, op)));
            }
            continue;
        }
        if !out.is_minter_step {
            continue;
        }
        res.steps += 1;
        if out.ok {
            res.ok_steps += 1;
        }
        *res.hist.entry(format!("{}:{}:{}", vname, op_kind(op), if out.ok { "ok" } else { "err" })).or_insert(0) += 1;
        if let Some(s) = out.coq {
            steps.push(s);
        }
        if let Some(e) = &out.err {
            if e.starts_with("STATE-CHANGED-ON-FAILURE") {
                res.violations.push(("C01:failed-call-changed-state".into(), format!("{}: {:?}: {}", vname, op, e)));
            }
        }
        let after_pos = w.positions();
        let after_mintable = w.mintable();
        let is_mint = matches!(op, Op::Mint { .. } | Op::MintTo { .. } | Op::MintFor { .. });
        if is_mint && out.ok {
            if before_mintable == 0 {
                res.violations.push(("C01:mint-at-zero".into(), format!("{}: {:?} succeeded with mintable count 0", vname, op)));
            }
            if burn_done {
                res.violations.push(("C01:mint-after-burn".into(), format!("{}: {:?} succeeded after burn-remaining", vname, op)));
            }
            match &out.minted {
                Some((id, owner)) => {
                    if *id < 1 || *id > n {
                        res.violations.push(("C01:id-out-of-range".into(), format!("{}: minted id {} outside 1..={}", vname, id, n)));
                    }
                    if !minted.insert(*id) {
                        res.violations.push(("C01:id-minted-twice".into(), format!("{}: id {} minted twice (ids ever issued: {:?})", vname, id, minted)));
                    }
                    ledger.issue(*id, owner.as_deref().unwrap_or(""));
                    if let Op::MintFor { token_id, .. } = op {
                        if *id != *token_id as u64 {
                            res.violations.push(("C01:mint-for-wrong-id".into(), format!("{}: MintFor({}) delivered {}", vname, token_id, id)));
                        }
                    }
                    let want_owner = match op {
                        Op::Mint { who, .. } => who.clone(),
                        Op::MintTo { recipient, .. } | Op::MintFor { recipient, .. } => recipient.clone(),
                        _ => unreachable!(),
                    };
                    if owner.as_deref() != Some(want_owner.as_str()) {
                        res.violations.push(("C01:wrong-owner".into(), format!("{}: token {} owned by {:?}, expected {}", vname, id, owner, want_owner)));
                    }
                }
                None => res.violations.push(("C01:mint-without-token".into(), format!("{}: {:?} succeeded but no token id reported", vname, op))),
            }
        }
        if matches!(op, Op::Shuffle { .. }) && out.ok {
            let mut a: Vec<u32> = before_pos.iter().map(|p| p.1).collect();
            let mut b: Vec<u32> = after_pos.iter().map(|p| p.1).collect();
            let ka: Vec<u32> = before_pos.iter().map(|p| p.0).collect();
            let kb: Vec<u32> = after_pos.iter().map(|p| p.0).collect();
            a.sort();
            b.sort();
            if a != b || ka != kb || before_mintable != after_mintable {
                res.violations.push(("C01:shuffle-changed-set".into(), format!("{}: shuffle changed the remaining ids or their number", vname)));
            }
        }
        if matches!(op, Op::BurnRemaining { .. }) && out.ok {
            burned += before_pos.len() as u64;
            burn_done = true;
        }
        // counter identity after every step
        if after_mintable + minted.len() as u64 + burned != n {
            res.violations.push((
                "C01:count-identity".into(),
                format!("{}: after {:?}: mintable {} + minted {} + burned {} != num_tokens {}", vname, op, after_mintable, minted.len(), burned, n),
            ));
        }
        if after_pos.len() as u64 != after_mintable {
            res.violations.push(("C01:table-size".into(), format!("{}: {} positions stored but mintable count {}", vname, after_pos.len(), after_mintable)));
        }
        if res.violations.len() > 5 {
            break;
        }
    }
    // collection agrees with the trace
    // (what it holds now = ids ever issued minus those their holders burned, by the ledger)
    let toks: BTreeSet<u64> = w.all_tokens().iter().map(|t| t.parse().unwrap_or(0)).collect();
    let live = ledger.live();
    if toks != live || w.num_tokens_collection() != live.len() as u64 {
        res.violations.push(("C01:collection-mismatch".into(), format!("{}: collection holds {:?}, ledger: issued {:?}, still held {:?}", vname, toks, minted, live)));
    }
    res.coq = Some(case_coq(&mut w, &init, &init_bal, &steps));
    res
}

fn gen_case(rng: &mut Rng, variant: usize, thorough: bool) -> Case {
    let sizes: &[u32] = if thorough { &[1, 2, 3, 7, 49, 50, 51, 52, 99, 100, 101, 130] } else { &[1, 2, 5, 12, 50, 51, 60] };
    let num_tokens = *rng.pick(sizes);
    let pal = if num_tokens < 100 { rng.range(1, 3) as u32 } else { rng.range(1, 4) as u32 };
    let price = *rng.pick(&[50u128, 100, 101, 1000]);
    let mut ops = vec![];
    let native = |a: u128| vec![(NATIVE.to_string(), a)];
    // before start: a public mint must fail, airdrops work
    if rng.chance(1, 2) {
        ops.push(Op::Mint { who: BUYERS[0].into(), funds: native(price) });
        ops.push(Op::MintTo { who: CREATOR.into(), recipient: BUYERS[1].into(), funds: vec![] });
    }
    ops.push(Op::At { secs: 200, nanos: 0 });
    let len = if thorough { rng.range(30, 90) } else { rng.range(20, 50) } as usize + num_tokens.min(60) as usize;
    let mut burn_budget = if rng.chance(1, 3) { 1 } else { 0 };
    for i in 0..len {
        // time moves on (the pick depends on the block height)
        if rng.chance(1, 3) {
            ops.push(Op::At { secs: 201 + i as u64, nanos: rng.below(1000) as i64 });
        }
        let who_any = *rng.pick(&[BUYERS[0], BUYERS[1], BUYERS[2], STRANGER, CREATOR]);
        let op = match rng.below(100) {
            0..=34 => Op::Mint { who: (*rng.pick(&[BUYERS[0], BUYERS[1], BUYERS[2], STRANGER])).into(), funds: native(price) },
            35..=59 => Op::MintTo {
                who: if rng.chance(9, 10) { CREATOR.into() } else { who_any.into() },
                recipient: (*rng.pick(&[BUYERS[0], BUYERS[1], STRANGER])).into(),
                funds: vec![],
            },
            60..=77 => {
                let id = match rng.below(10) {
                    0 => 0,
                    1 => num_tokens + 1,
                    _ => rng.range(1, num_tokens as u64) as u32,
                };
                Op::MintFor {
                    who: if rng.chance(9, 10) { CREATOR.into() } else { who_any.into() },
                    token_id: id,
                    recipient: (*rng.pick(&[BUYERS[0], BUYERS[2]])).into(),
                    funds: vec![],
                }
            }
            78..=89 => Op::Shuffle { who: who_any.into(), funds: if rng.chance(5, 6) { native(500) } else { native(499) } },
            90..=94 => Op::Purge { who: who_any.into() },
            _ => {
                if burn_budget > 0 && i > len / 2 {
                    burn_budget -= 1;
                    Op::BurnRemaining { who: CREATOR.into() }
                } else {
                    Op::BurnRemaining { who: STRANGER.into() }
                }
            }
        };
        ops.push(op);
    }
    // after the end: everything that could create a token must fail at 0 / after burn
    ops.push(Op::MintTo { who: CREATOR.into(), recipient: BUYERS[0].into(), funds: vec![] });
    ops.push(Op::Mint { who: STRANGER.into(), funds: native(price) });
    ops.push(Op::MintFor { who: CREATOR.into(), token_id: 1, recipient: BUYERS[0].into(), funds: vec![] });
    ops.push(Op::Shuffle { who: STRANGER.into(), funds: native(500) });
    ops.push(Op::Purge { who: STRANGER.into() });
    // migrations of the minter at random places of the history (~2.5 % of the operations)
    sprinkle_migrates(rng, &mut ops, 25);
    // holder-side Burn / TransferNft on the collection (~3 % of the operations)
    let mut i = 0;
    while i < ops.len() {
        if rng.below(1000) < 30 {
            let (who, to, id) = gen_holder_args(rng, num_tokens.min(60));
            ops.insert(i, if rng.chance(2, 3) { Op::Burn { who, token_id: id } } else { Op::TransferNft { who, to, token_id: id } });
            i += 1;
        }
        i += 1;
    }
    Case { variant, updatable: rng.chance(1, 4), num_tokens, pal, price, ops }
}

/// greedy shrinking of a vending history: drop every op whose removal keeps a violation with the same key
fn shrink_v(c: &Case, key: &str) -> Case {
    let has = |c: &Case| run_case(c).violations.iter().any(|(k, _)| k == key);
    let mut cur = c.clone();
    let mut i = cur.ops.len();
    while i > 0 {
        i -= 1;
        let mut t = cur.clone();
        t.ops.remove(i);
        if has(&t) {
            cur = t;
        }
    }
    cur
}

/// (who, to, token id) of a random holder op: mostly sent by the token's current holder
fn gen_holder_args(rng: &mut Rng, max_id: u32) -> (String, String, u32) {
    let who = if rng.chance(3, 4) { "@owner".to_string() } else { (*rng.pick(&[BUYERS[0], BUYERS[1], STRANGER, CREATOR])).to_string() };
    let to = (*rng.pick(&[BUYERS[0], BUYERS[1], BUYERS[2], STRANGER])).to_string();
    (who, to, rng.range(1, max_id.max(1) as u64) as u32)
}

/// curated minimal histories (always run first)
fn corpus() -> Vec<Case> {
    let native = |a: u128| vec![(NATIVE.to_string(), a)];
    let mut v = vec![];
    for variant in 0..6 {
        // holders burn and transfer tokens on the collection between mints: the newest, an older one,
        // all of them; a burned id is sold for good (MintFor it fails), fresh ids keep coming, the
        // counts do not move, burn-remaining closes the sale
        let mf = |id: u32, to: &str| Op::MintFor { who: CREATOR.into(), token_id: id, recipient: to.into(), funds: vec![] };
        let burn = |who: &str, id: u32| Op::Burn { who: who.into(), token_id: id };
        v.push(Case {
            variant,
            updatable: variant % 2 == 1,
            num_tokens: 7,
            pal: 3,
            price: 100,
            ops: vec![
                Op::At { secs: 200, nanos: 0 },
                mf(1, BUYERS[0]),
                mf(2, BUYERS[0]),
                mf(3, BUYERS[1]),
                burn(STRANGER, 3),
                burn(BUYERS[1], 3),
                Op::Mint { who: BUYERS[2].into(), funds: native(100) },
                mf(3, BUYERS[1]),
                burn(BUYERS[0], 1),
                mf(1, BUYERS[0]),
                Op::MintTo { who: CREATOR.into(), recipient: BUYERS[1].into(), funds: vec![] },
                Op::TransferNft { who: BUYERS[0].into(), to: STRANGER.into(), token_id: 2 },
                burn(BUYERS[0], 2),
                burn(STRANGER, 2),
                mf(2, BUYERS[0]),
                Op::Shuffle { who: STRANGER.into(), funds: native(500) },
                burn("@owner", 4),
                burn("@owner", 5),
                burn("@owner", 6),
                burn("@owner", 7),
                Op::Mint { who: BUYERS[2].into(), funds: native(100) },
                burn("@owner", 4),
                burn("@owner", 5),
                burn("@owner", 6),
                burn("@owner", 7),
                mf(4, BUYERS[0]),
                mf(5, BUYERS[0]),
                Op::BurnRemaining { who: CREATOR.into() },
                mf(6, BUYERS[0]),
                mf(7, BUYERS[0]),
                mf(3, BUYERS[0]),
                Op::Mint { who: BUYERS[2].into(), funds: native(100) },
                Op::MintTo { who: CREATOR.into(), recipient: BUYERS[1].into(), funds: vec![] },
            ],
        });
        // sell out 2 tokens by mint-for in reverse order, then every creator of tokens must fail
        v.push(Case {
            variant,
            updatable: false,
            num_tokens: 2,
            pal: 2,
            price: 100,
            ops: vec![
                Op::At { secs: 200, nanos: 0 },
                Op::MintFor { who: CREATOR.into(), token_id: 2, recipient: BUYERS[0].into(), funds: vec![] },
                Op::MintFor { who: CREATOR.into(), token_id: 2, recipient: BUYERS[0].into(), funds: vec![] },
                Op::Shuffle { who: STRANGER.into(), funds: native(500) },
                Op::Mint { who: BUYERS[1].into(), funds: native(100) },
                Op::Mint { who: BUYERS[1].into(), funds: native(100) },
                Op::MintTo { who: CREATOR.into(), recipient: BUYERS[2].into(), funds: vec![] },
                Op::Purge { who: STRANGER.into() },
                Op::BurnRemaining { who: CREATOR.into() },
            ],
        });
        // burn with tokens left, then nothing mints
        v.push(Case {
            variant,
            updatable: false,
            num_tokens: 5,
            pal: 3,
            price: 100,
            ops: vec![
                Op::At { secs: 200, nanos: 0 },
                Op::Mint { who: BUYERS[0].into(), funds: native(100) },
                Op::BurnRemaining { who: STRANGER.into() },
                Op::BurnRemaining { who: CREATOR.into() },
                Op::Mint { who: BUYERS[0].into(), funds: native(100) },
                Op::MintTo { who: CREATOR.into(), recipient: BUYERS[2].into(), funds: vec![] },
                Op::MintFor { who: CREATOR.into(), token_id: 3, recipient: BUYERS[0].into(), funds: vec![] },
                Op::BurnRemaining { who: CREATOR.into() },
            ],
        });
        // burn-remaining with 1, 2, 3 tokens left (both parities), then a mint-for and a shuffle must fail
        for left in 1..=3u32 {
            v.push(Case {
                variant,
                updatable: false,
                num_tokens: left + 1,
                pal: 2,
                price: 100,
                ops: vec![
                    Op::At { secs: 200, nanos: 0 },
                    Op::MintTo { who: CREATOR.into(), recipient: BUYERS[0].into(), funds: vec![] },
                    Op::BurnRemaining { who: CREATOR.into() },
                    Op::MintFor { who: CREATOR.into(), token_id: 1, recipient: BUYERS[0].into(), funds: vec![] },
                    Op::MintFor { who: CREATOR.into(), token_id: 2, recipient: BUYERS[0].into(), funds: vec![] },
                    Op::Shuffle { who: STRANGER.into(), funds: native(500) },
                    Op::Purge { who: STRANGER.into() },
                ],
            });
        }
        // shuffle with 1..=9 tokens left keeps the id set (each table size once)
        v.push(Case {
            variant,
            updatable: false,
            num_tokens: 9,
            pal: 3,
            price: 100,
            ops: {
                let mut o = vec![Op::At { secs: 200, nanos: 0 }];
                for k in 0..9u64 {
                    o.push(Op::Shuffle { who: BUYERS[(k % 3) as usize].into(), funds: native(500) });
                    o.push(Op::At { secs: 201 + k, nanos: 7 });
                    o.push(Op::MintTo { who: CREATOR.into(), recipient: BUYERS[1].into(), funds: vec![] });
                }
                o
            },
        });
        // migrations inside the sale: after mints, after a shuffle, at sell-out, after the purge,
        // by the admin (old / current / newer / unparsable stored version, foreign name) and by a stranger
        let mig = |who: &str, stored: Option<(&str, &str)>| Op::Migrate { who: who.into(), stored: stored.map(|(n, v)| (n.to_string(), v.to_string())) };
        v.push(Case {
            variant,
            updatable: false,
            num_tokens: 4,
            pal: 2,
            price: 100,
            ops: vec![
                mig(CREATOR, Some(("@own", "3.8.9"))),
                Op::At { secs: 200, nanos: 0 },
                Op::Mint { who: BUYERS[0].into(), funds: native(100) },
                Op::MintFor { who: CREATOR.into(), token_id: 3, recipient: BUYERS[1].into(), funds: vec![] },
                mig(CREATOR, Some(("@own", "3.8.9"))),
                mig(CREATOR, None),
                Op::Mint { who: BUYERS[0].into(), funds: native(100) },
                Op::Mint { who: BUYERS[0].into(), funds: native(100) },           // at the per-address limit
                mig(STRANGER, Some(("@own", "3.9.0"))),
                mig(CREATOR, Some(("@own", "3.9.0"))),
                Op::Mint { who: BUYERS[0].into(), funds: native(100) },           // still at the limit
                Op::Shuffle { who: STRANGER.into(), funds: native(500) },
                mig(CREATOR, Some(("@own", "99.0.0"))),
                mig(CREATOR, Some(("crates.io:something-else", "1.0.0"))),
                mig(CREATOR, Some(("@own", "abc"))),
                Op::MintTo { who: CREATOR.into(), recipient: BUYERS[2].into(), funds: vec![] },
                mig(CREATOR, Some(("@own", "3.15.0"))),
                Op::MintTo { who: CREATOR.into(), recipient: BUYERS[2].into(), funds: vec![] },   // nothing left
                Op::Mint { who: BUYERS[1].into(), funds: native(100) },
                Op::Purge { who: STRANGER.into() },
                mig(CREATOR, Some(("@own", "2.0.0"))),
                Op::Mint { who: BUYERS[1].into(), funds: native(100) },
                Op::MintFor { who: CREATOR.into(), token_id: 1, recipient: BUYERS[0].into(), funds: vec![] },
                Op::BurnRemaining { who: CREATOR.into() },
            ],
        });
        // burn-remaining, then a migration, then nothing mints
        v.push(Case {
            variant,
            updatable: false,
            num_tokens: 5,
            pal: 3,
            price: 100,
            ops: vec![
                Op::At { secs: 200, nanos: 0 },
                Op::Mint { who: BUYERS[0].into(), funds: native(100) },
                Op::BurnRemaining { who: CREATOR.into() },
                mig(CREATOR, Some(("@own", "3.8.0"))),
                Op::Mint { who: BUYERS[0].into(), funds: native(100) },
                Op::MintTo { who: CREATOR.into(), recipient: BUYERS[2].into(), funds: vec![] },
                Op::MintFor { who: CREATOR.into(), token_id: 3, recipient: BUYERS[0].into(), funds: vec![] },
                Op::Shuffle { who: STRANGER.into(), funds: native(500) },
            ],
        });
    }
    v
}

pub fn run(a: &Args) {
    let out = OutDir::new(&a.out);
    let mut rep = Report { property: "C01".into(), tier: a.tier.clone(), seed: a.seed, ..Default::default() };
    // replay files of part 2 (open editions / base minter) carry "part": "oe"
    let mut oe_replay: Option<OeCase> = None;
    // replay files of part 3 (token-merge minter) carry "part": "tm"
    let mut tm_replay: Option<tmw::Case> = None;
    if let Some(p) = &a.replay {
        let raw: serde_json::Value = serde_json::from_str(&std::fs::read_to_string(p).expect("replay file")).expect("replay json");
        if raw.get("part").and_then(|x| x.as_str()) == Some("oe") {
            oe_replay = Some(serde_json::from_value(raw["case"].clone()).expect("oe replay case"));
        }
        if raw.get("part").and_then(|x| x.as_str()) == Some("tm") {
            tm_replay = Some(serde_json::from_value(raw["case"].clone()).expect("tm replay case"));
        }
    }
    let cases: Vec<Case> = if oe_replay.is_some() || tm_replay.is_some() {
        vec![]
    } else if let Some(p) = &a.replay {
        #[derive(Deserialize)]
        struct ReplayFile {
            case: Case,
        }
        let rf: ReplayFile = serde_json::from_str(&std::fs::read_to_string(p).expect("replay file")).expect("replay json");
        vec![rf.case]
    } else {
        let mut rng = Rng::new(a.seed);
        let mut v = corpus();
        let per_variant = if a.thorough() { 40 } else { 5 };
        for variant in 0..6 {
            for _ in 0..per_variant {
                v.push(gen_case(&mut rng, variant, a.thorough()));
            }
        }
        v
    };
    let mut coq_cases = vec![];
    let mut nviol = 0;
    let mut distinct = BTreeSet::new();
    for (i, c) in cases.iter().enumerate() {
        let r = run_case(c);
        rep.evaluations += r.steps;
        for (k, v) in &r.hist {
            *rep.histogram.entry(k.clone()).or_insert(0) += v;
        }
        if r.ok_steps > 0 {
            distinct.insert(format!("{:?}", c));
            rep.distinct_nontrivial += r.ok_steps;
        }
        for (key, what) in r.violations.iter().take(3) {
            nviol += 1;
            if nviol <= 20 {
                // the first few failing histories are shrunk (ops removed while the same violation persists)
                let shrunk = if nviol <= 3 && a.replay.is_none() { shrink_v(c, key) } else { c.clone() };
                let body = format!(
                    "{{\n \"property\": \"C01\",\n \"case\": {},\n \"violation\": {}\n}}\n",
                    serde_json::to_string(&shrunk).unwrap(),
                    serde_json::to_string(what).unwrap()
                );
                let path = out.write_replay(&format!("C01-{}.json", nviol), &body);
                rep.violations.push(Violation { key: key.clone(), what: what.clone(), replay: path });
            }
        }
        if rep.samples.len() < 3 && i % 7 == 0 {
            rep.samples.push(serde_json::json!({"variant": VARIANTS[c.variant].name, "num_tokens": c.num_tokens,
                "first_ops": c.ops.iter().take(8).map(|o| format!("{:?}", o)).collect::<Vec<_>>(), "steps": r.steps, "ok_steps": r.ok_steps}));
        }
        if let Some(cq) = r.coq {
            coq_cases.push(cq);
        }
    }
    rep.rule = "histories of Mint/MintTo/MintFor/Shuffle/Purge/BurnRemaining by buyers, stranger and admin on each of the six vending minters (num_tokens around the 50-position window and the sell-out), corpus first; evaluations = minter steps executed on the real contracts; distinct_nontrivial = steps that succeeded (state-changing) in distinct histories".into();
    out.write_cases("C01", "From LP Require Import Num Pay Sg1 Bank MinterVending SaleCorr.", "scase", "sale_check", &coq_cases, 6, &mut rep);
    // ---- part 2: open-edition minters and the base minter ----
    let (oe_n, oe_viol) = if a.replay.is_some() && oe_replay.is_none() { (0, 0) } else { run_oe_part(a, &out, &mut rep, oe_replay, nviol) };
    // ---- part 3: token-merge minter ----
    let (tm_n, tm_viol) = if a.replay.is_some() && tm_replay.is_none() { (0, 0) } else { run_tm_part(a, &out, &mut rep, tm_replay, nviol + oe_viol) };
    out.finish(&rep);
    println!(
        "C01 harness: {} vending cases + {} open-edition/base cases + {} token-merge cases, {} steps, {} monitor violations",
        cases.len(),
        oe_n,
        tm_n,
        rep.evaluations,
        nviol + oe_viol + tm_viol
    );
}

// =====================================================================================
// Part 2 — open-edition minters and the base minter: "token ids are issued as 1,2,3,...
// with no gap or repeat, the total-mint count equals the number of mints that succeeded,
// the supply never exceeds the configured token cap (or the factory-wide cap captured at
// creation where the variant applies one), and nothing can be minted after a successful
// burn-remaining."
// =====================================================================================
#[derive(Clone, Debug, Serialize, Deserialize)]
pub enum OeCase {
    Oe { cfg: OeCfg, ops: Vec<OeOp> },
    Base { cfg: BaseCfg, ops: Vec<OeOp> },
}

fn is_oe_mint(op: &OeOp) -> bool {
    matches!(op, OeOp::Mint { .. } | OeOp::MintM { .. } | OeOp::MintTo { .. } | OeOp::BaseMint { .. })
}

pub fn run_oe_case(c: &OeCase) -> CaseResult {
    let mut res = CaseResult { coq: None, steps: 0, ok_steps: 0, violations: vec![], hist: BTreeMap::new() };
    match c {
        OeCase::Oe { cfg, ops } => {
            let vname = OE_VARIANTS[cfg.variant].name;
            let mut w = match OeWorld::new(cfg.clone()) {
                Ok(w) => w,
                Err(e) => {
                    if std::env::var("OE_DEBUG").is_ok() {
                        eprintln!("create failed: {} {:?}: {}", vname, cfg.wl, e);
                    }
                    *res.hist.entry(format!("{}:create:err", vname)).or_insert(0) += 1;
                    return res;
                }
            };
            let init = w.init_state_coq();
            let init_bal = w.balances_coq();
            let mut steps = vec![];
            // ---- monitor state, from the property text and the documented configuration ----
            // cap: the configured num_tokens, else the factory-wide max_token_limit as it was at
            // creation for the variants that capture it (plain, merkle), else none (wl-flex)
            let cap: Option<u64> = match cfg.num_tokens {
                Some(n) => Some(n as u64),
                None => {
                    if OE_VARIANTS[cfg.variant].flex {
                        None
                    } else {
                        Some(cfg.fp.max_token_limit as u64)
                    }
                }
            };
            let mut successes: u64 = 0;
            let mut ledger = HolderLedger::default();
            let mut burn_done = false;
            if w.total_mint_count() != 0 || w.num_tokens_collection() != 0 {
                res.violations.push(("C01:oe-initial-count".into(), format!("{}: counts are not 0 after creation", vname)));
            }
            if w.mintable() != cap {
                res.violations.push((
                    "C01:oe-initial-cap".into(),
                    format!("{}: MintableNumTokens {:?} after creation, documented cap {:?}", vname, w.mintable(), cap),
                ));
            }
            for op in ops {
                let end_before = w.end_time();
                let now_before = chain_now(&w);
                let books_before = (w.total_mint_count(), w.mintable(), w.token_index_raw());
                let out = w.run(op);
                if let Some((what, who, to, id)) = oe_holder_args(op) {
                    // holder side: the collection changes, the minter's books must not
                    *res.hist.entry(format!("{}:{}:{}", vname, oe_op_kind(op), if out.ok { "ok" } else { "err" })).or_insert(0) += 1;
                    res.violations.extend(ledger.holder_op(vname, what, who, to, id, out.ok, &out.err));
                    if (w.total_mint_count(), w.mintable(), w.token_index_raw()) != books_before {
                        res.violations.push(("C01:holder-op-changed-supply".into(), format!("{}: {:?} changed the minter's counts", vname, op)));
                    }
                    continue;
                }
                if !out.is_minter_step {
                    continue;
                }
                res.steps += 1;
                if out.ok {
                    res.ok_steps += 1;
                }
                *res.hist.entry(format!("{}:{}:{}", vname, oe_op_kind(op), if out.ok { "ok" } else { "err" })).or_insert(0) += 1;
                if let Some(s) = out.coq {
                    // coverage: mints attempted while the attached whitelist was active (kind of whitelist)
                    if matches!(op, OeOp::Mint { .. } | OeOp::MintM { .. }) && s.contains("(Some (mkWV true") {
                        *res.hist.entry(format!("{}:mint-while-{:?}-active:{}", vname, w.wl_kind, if out.ok { "ok" } else { "err" })).or_insert(0) += 1;
                    }
                    steps.push(s);
                }
                if let Some(e) = &out.err {
                    if e.starts_with("STATE-CHANGED-ON-FAILURE") {
                        res.violations.push(("C01:oe-failed-call-changed-state".into(), format!("{}: {:?}: {}", vname, op, e)));
                    }
                }
                if is_oe_mint(op) && out.ok {
                    successes += 1;
                    if burn_done {
                        res.violations.push(("C01:oe-mint-after-burn".into(), format!("{}: {:?} succeeded after burn-remaining", vname, op)));
                    }
                    if let Some(e) = end_before {
                        if now_before >= e {
                            res.violations.push((
                                "C01:oe-mint-after-end".into(),
                                format!("{}: {:?} succeeded at {} with end_time {}", vname, op, now_before, e),
                            ));
                        }
                    }
                    match &out.minted {
                        Some((id, owner)) => {
                            if *id != successes {
                                res.violations.push((
                                    "C01:oe-id-not-sequential".into(),
                                    format!("{}: successful mint number {} was given id {}", vname, successes, id),
                                ));
                            }
                            if !ledger.issue(*id, owner.as_deref().unwrap_or("")) {
                                res.violations.push(("C01:oe-id-reissued".into(), format!("{}: id {} was issued before (ledger of ids ever issued; a burned id stays issued)", vname, id)));
                            }
                            let want_owner = match op {
                                OeOp::Mint { who, .. } | OeOp::MintM { who, .. } => who.clone(),
                                OeOp::MintTo { recipient, .. } => recipient.clone(),
                                _ => unreachable!(),
                            };
                            if owner.as_deref() != Some(want_owner.as_str()) {
                                res.violations.push(("C01:oe-wrong-owner".into(), format!("{}: token {} owned by {:?}, expected {}", vname, id, owner, want_owner)));
                            }
                        }
                        None => res.violations.push(("C01:oe-mint-without-token".into(), format!("{}: {:?} succeeded but no token id reported", vname, op))),
                    }
                }
                if matches!(op, OeOp::BurnRemaining { .. }) && out.ok {
                    burn_done = true;
                }
                // after every step
                let total = w.total_mint_count();
                if total != successes {
                    res.violations.push((
                        "C01:oe-total-count".into(),
                        format!("{}: after {:?}: TotalMintCount {} but {} mints succeeded", vname, op, total, successes),
                    ));
                }
                let held = w.num_tokens_collection();
                if held != ledger.live().len() as u64 {
                    res.violations.push((
                        "C01:oe-collection-count".into(),
                        format!("{}: after {:?}: collection holds {} tokens but {} mints succeeded and {} are still held", vname, op, held, successes, ledger.live().len()),
                    ));
                }
                if let Some(cp) = cap {
                    if successes > cp {
                        res.violations.push(("C01:oe-over-cap".into(), format!("{}: {} tokens minted, cap {}", vname, successes, cp)));
                    }
                    let want = if burn_done { 0 } else { cp.saturating_sub(successes) };
                    if w.mintable() != Some(want) {
                        res.violations.push((
                            "C01:oe-remaining-count".into(),
                            format!("{}: after {:?}: MintableNumTokens {:?}, cap {} minus {} minted (burned: {}) is {}", vname, op, w.mintable(), cp, successes, burn_done, want),
                        ));
                    }
                }
                if res.violations.len() > 5 {
                    break;
                }
            }
            let mut toks: Vec<u64> = w.all_tokens().iter().map(|t| t.parse().unwrap_or(0)).collect();
            toks.sort();
            if toks != ledger.live().into_iter().collect::<Vec<u64>>() || ledger.issued() as u64 != successes {
                res.violations.push(("C01:oe-collection-ids".into(), format!("{}: collection holds {:?}, expected 1..={} minus the ids their holders burned ({:?} left)", vname, toks, successes, ledger.live())));
            }
            // every token exists in the collection of the configured kind with the configured metadata
            for what in w.metadata_violations() {
                res.violations.push(("C01:oe-token-metadata".into(), what));
            }
            res.coq = Some(w.case_coq(&init, &init_bal, &steps));
        }
        OeCase::Base { cfg, ops } => {
            let vname = "base-minter";
            let mut w = match BaseWorld::new(cfg.clone()) {
                Ok(w) => w,
                Err(_) => {
                    *res.hist.entry(format!("{}:create:err", vname)).or_insert(0) += 1;
                    return res;
                }
            };
            let init = w.init_state_coq();
            let init_bal = w.balances_coq();
            let mut steps = vec![];
            let mut successes: u64 = 0;
            let mut ledger = HolderLedger::default();
            for op in ops {
                let index_before = w.token_index_raw();
                let out = w.run(op);
                if let Some((what, who, to, id)) = oe_holder_args(op) {
                    *res.hist.entry(format!("{}:{}:{}", vname, oe_op_kind(op), if out.ok { "ok" } else { "err" })).or_insert(0) += 1;
                    res.violations.extend(ledger.holder_op(vname, what, who, to, id, out.ok, &out.err));
                    if w.token_index_raw() != index_before {
                        res.violations.push(("C01:holder-op-changed-supply".into(), format!("{}: {:?} changed the minter's token index", vname, op)));
                    }
                    continue;
                }
                if !out.is_minter_step {
                    continue;
                }
                res.steps += 1;
                if out.ok {
                    res.ok_steps += 1;
                }
                *res.hist.entry(format!("{}:{}:{}", vname, oe_op_kind(op), if out.ok { "ok" } else { "err" })).or_insert(0) += 1;
                if let Some(s) = out.coq {
                    steps.push(s);
                }
                if let Some(e) = &out.err {
                    if e.starts_with("STATE-CHANGED-ON-FAILURE") {
                        res.violations.push(("C01:base-failed-call-changed-state".into(), format!("{}: {:?}: {}", vname, op, e)));
                    }
                }
                if is_oe_mint(op) && out.ok {
                    successes += 1;
                    match &out.minted {
                        Some((id, owner)) => {
                            if *id != successes {
                                res.violations.push(("C01:base-id-not-sequential".into(), format!("{}: successful mint number {} was given id {}", vname, successes, id)));
                            }
                            if !ledger.issue(*id, owner.as_deref().unwrap_or("")) {
                                res.violations.push(("C01:base-id-reissued".into(), format!("{}: id {} was issued before (ledger of ids ever issued; a burned id stays issued)", vname, id)));
                            }
                            if let OeOp::BaseMint { who, .. } = op {
                                if owner.as_deref() != Some(who.as_str()) {
                                    res.violations.push(("C01:base-wrong-owner".into(), format!("{}: token {} owned by {:?}, expected {}", vname, id, owner, who)));
                                }
                            }
                        }
                        None => res.violations.push(("C01:base-mint-without-token".into(), format!("{}: {:?} succeeded but no token id reported", vname, op))),
                    }
                }
                if w.num_tokens_collection() != ledger.live().len() as u64 {
                    res.violations.push((
                        "C01:base-collection-count".into(),
                        format!("{}: after {:?}: collection holds {} tokens but {} mints succeeded and {} are still held", vname, op, w.num_tokens_collection(), successes, ledger.live().len()),
                    ));
                }
                if res.violations.len() > 5 {
                    break;
                }
            }
            let mut toks: Vec<u64> = w.all_tokens().iter().map(|t| t.parse().unwrap_or(0)).collect();
            toks.sort();
            if toks != ledger.live().into_iter().collect::<Vec<u64>>() || ledger.issued() as u64 != successes {
                res.violations.push(("C01:base-collection-ids".into(), format!("{}: collection holds {:?}, expected 1..={} minus the ids their holders burned ({:?} left)", vname, toks, successes, ledger.live())));
            }
            res.coq = Some(w.case_coq(&init, &init_bal, &steps));
        }
    }
    res
}

fn chain_now(w: &OeWorld) -> u64 {
    crate::chain::now(&w.app)
}

fn nat(a: u128) -> Vec<(String, u128)> {
    if a == 0 {
        vec![]
    } else {
        vec![(NATIVE.to_string(), a)]
    }
}

/// curated minimal histories for every open-edition variant, and for the base minter
fn oe_corpus() -> Vec<OeCase> {
    let mut v = vec![];
    for variant in 0..3 {
        let compat = OeWl::compatible(&OE_VARIANTS[variant]);
        // (a) num_tokens = 3, with end time: sell out by Mint + MintTo, the 4th of each kind fails; purge/burn after the end
        let mut cfg = OeCfg::basic(variant);
        cfg.num_tokens = Some(3);
        cfg.onchain = true;
        v.push(OeCase::Oe {
            cfg: cfg.clone(),
            ops: vec![
                OeOp::Mint { who: BUYERS[0].into(), funds: nat(100) }, // before start
                OeOp::MintTo { who: CREATOR.into(), recipient: BUYERS[1].into(), funds: nat(40) },
                OeOp::At { secs: 3000, nanos: -1 },
                OeOp::Mint { who: BUYERS[0].into(), funds: nat(100) },
                OeOp::At { secs: 3000, nanos: 0 },
                OeOp::Mint { who: BUYERS[0].into(), funds: nat(100) },
                OeOp::Mint { who: BUYERS[0].into(), funds: nat(99) },
                OeOp::Mint { who: BUYERS[0].into(), funds: vec![(NATIVE.to_string(), 100), (IBC.to_string(), 1)] },
                OeOp::Mint { who: BUYERS[0].into(), funds: vec![(IBC.to_string(), 100)] },
                OeOp::MintTo { who: STRANGER.into(), recipient: BUYERS[1].into(), funds: nat(40) },
                OeOp::Mint { who: BUYERS[2].into(), funds: nat(100) },
                OeOp::Mint { who: BUYERS[2].into(), funds: nat(100) },
                OeOp::MintTo { who: CREATOR.into(), recipient: BUYERS[1].into(), funds: nat(40) },
                OeOp::BurnRemaining { who: CREATOR.into() },
                OeOp::Purge { who: STRANGER.into() },
                OeOp::At { secs: 5000, nanos: 1 },
                OeOp::Purge { who: STRANGER.into() },
                OeOp::BurnRemaining { who: CREATOR.into() },
            ],
        });
        // (a') migrations inside the sale: after mints, at the cap, after the purge / burn
        {
            let omig = |who: &str, stored: Option<(&str, &str)>| OeOp::Migrate { who: who.into(), stored: stored.map(|(n, v)| (n.to_string(), v.to_string())) };
            let mut cfg = OeCfg::basic(variant);
            cfg.num_tokens = Some(3);
            v.push(OeCase::Oe {
                cfg,
                ops: vec![
                    omig(CREATOR, Some(("@own", "3.8.9"))),
                    OeOp::MintTo { who: CREATOR.into(), recipient: BUYERS[1].into(), funds: nat(40) },
                    OeOp::At { secs: 3000, nanos: 0 },
                    OeOp::Mint { who: BUYERS[0].into(), funds: nat(100) },
                    omig(CREATOR, Some(("@own", "3.9.0"))),
                    omig(STRANGER, Some(("@own", "3.0.0"))),
                    omig(CREATOR, None),
                    OeOp::Mint { who: BUYERS[0].into(), funds: nat(100) },
                    omig(CREATOR, Some(("@own", "99.0.0"))),
                    omig(CREATOR, Some(("crates.io:something-else", "1.0.0"))),
                    omig(CREATOR, Some(("@own", "abc"))),
                    omig(CREATOR, Some(("@own", "3.15.9"))),
                    OeOp::Mint { who: BUYERS[2].into(), funds: nat(100) },      // cap reached
                    OeOp::MintTo { who: CREATOR.into(), recipient: BUYERS[1].into(), funds: nat(40) },
                    OeOp::At { secs: 5000, nanos: 1 },
                    OeOp::Purge { who: STRANGER.into() },
                    omig(CREATOR, Some(("@own", "1.0.0"))),
                    OeOp::Mint { who: BUYERS[2].into(), funds: nat(100) },
                    OeOp::BurnRemaining { who: CREATOR.into() },
                ],
            });
        }
        // (b) end-time boundary on Mint, MintTo, UpdateMintPrice, UpdateEndTime, BurnRemaining, Purge
        let mut cfg = OeCfg::basic(variant);
        cfg.num_tokens = Some(6);
        let mut ops = vec![];
        // the price in force: 100, lowered to 90 one nanosecond before the end (later updates must fail)
        for (s, n, p) in [(5000u64, -1i64, 100u128), (5000, 0, 90), (5000, 1, 90)] {
            ops.push(OeOp::At { secs: s, nanos: n });
            ops.push(OeOp::BurnRemaining { who: STRANGER.into() });
            ops.push(OeOp::Purge { who: STRANGER.into() });
            ops.push(OeOp::Mint { who: BUYERS[0].into(), funds: nat(p) });
            ops.push(OeOp::MintTo { who: CREATOR.into(), recipient: BUYERS[1].into(), funds: nat(40) });
            ops.push(OeOp::UpdateMintPrice { who: CREATOR.into(), price: if n == -1 { 90 } else { 89 } });
            ops.push(OeOp::UpdateEndTime { who: CREATOR.into(), secs: 6000, nanos: 0 });
            if n == -1 {
                // put the end time back
                ops.push(OeOp::UpdateEndTime { who: CREATOR.into(), secs: 5000, nanos: 0 });
            }
        }
        ops.push(OeOp::BurnRemaining { who: CREATOR.into() });
        ops.push(OeOp::Mint { who: BUYERS[0].into(), funds: nat(90) });
        ops.push(OeOp::MintTo { who: CREATOR.into(), recipient: BUYERS[1].into(), funds: nat(40) });
        ops.push(OeOp::BurnRemaining { who: CREATOR.into() });
        v.push(OeCase::Oe { cfg, ops });
        // (c) no num_tokens: the factory-wide cap (12 at creation) applies on plain/merkle and not on wl-flex;
        //     raising the factory limit afterwards changes nothing; burn-remaining (after the end) panics on wl-flex
        let mut cfg = OeCfg::basic(variant);
        cfg.num_tokens = None;
        let mut ops = vec![OeOp::At { secs: 3000, nanos: 5 }];
        ops.push(OeOp::SudoParams { min_price: None, mint_fee_bps: None, airdrop_price: None, airdrop_fee_bps: None, offset: None, max_pal: None, max_token_limit: Some(100), dev: None });
        // governance makes airdrops free after creation: an edition without num_tokens then refuses to airdrop
        ops.push(OeOp::SudoParams { min_price: None, mint_fee_bps: None, airdrop_price: Some(0), airdrop_fee_bps: None, offset: None, max_pal: None, max_token_limit: None, dev: None });
        ops.push(OeOp::MintTo { who: CREATOR.into(), recipient: BUYERS[2].into(), funds: vec![] });
        ops.push(OeOp::MintTo { who: CREATOR.into(), recipient: BUYERS[2].into(), funds: nat(40) });
        ops.push(OeOp::SudoParams { min_price: None, mint_fee_bps: None, airdrop_price: Some(40), airdrop_fee_bps: None, offset: None, max_pal: None, max_token_limit: None, dev: None });
        for k in 0..14u64 {
            if k % 3 == 0 {
                ops.push(OeOp::Mint { who: BUYERS[(k % 2) as usize].into(), funds: nat(100) });
            } else {
                ops.push(OeOp::MintTo { who: CREATOR.into(), recipient: BUYERS[2].into(), funds: nat(40) });
            }
        }
        ops.push(OeOp::BurnRemaining { who: CREATOR.into() });
        ops.push(OeOp::At { secs: 5000, nanos: 1 });
        ops.push(OeOp::BurnRemaining { who: CREATOR.into() });
        ops.push(OeOp::Purge { who: BUYERS[0].into() });
        ops.push(OeOp::MintTo { who: CREATOR.into(), recipient: BUYERS[2].into(), funds: nat(40) });
        v.push(OeCase::Oe { cfg, ops });
        // (d) num_tokens, no end time: burn with tokens left, then nothing mints; purge needs sold out
        let mut cfg = OeCfg::basic(variant);
        cfg.num_tokens = Some(4);
        cfg.end_in_secs = None;
        cfg.payment_address = true;
        cfg.onchain = true;
        cfg.image = Some(format!("\t{}  ", OE_IMAGE));
        v.push(OeCase::Oe {
            cfg,
            ops: vec![
                OeOp::At { secs: 3000, nanos: 0 },
                OeOp::Mint { who: BUYERS[0].into(), funds: nat(100) },
                OeOp::Purge { who: BUYERS[0].into() },
                OeOp::UpdateEndTime { who: CREATOR.into(), secs: 9000, nanos: 0 },
                OeOp::BurnRemaining { who: STRANGER.into() },
                OeOp::BurnRemaining { who: CREATOR.into() },
                OeOp::Mint { who: BUYERS[0].into(), funds: nat(100) },
                OeOp::MintTo { who: CREATOR.into(), recipient: BUYERS[2].into(), funds: nat(40) },
                OeOp::Purge { who: BUYERS[0].into() },
                OeOp::BurnRemaining { who: CREATOR.into() },
                OeOp::Mint { who: BUYERS[1].into(), funds: nat(100) },
            ],
        });
        // (e) whitelist of each compatible kind: member mints in the window at the whitelist price up to its
        //     entitlement, non-member fails, then public mints; per-address limit; tiered stage limit
        for (i, kind) in compat.iter().enumerate() {
            let mut cfg = OeCfg::basic(variant);
            cfg.num_tokens = if i == 0 { Some(8) } else { None };
            cfg.wl = *kind;
            cfg.wl_windows = if i == 0 { vec![(1000, 2000)] } else { vec![(1000, 1500), (1500, 2000)] };
            cfg.wl_stage_limit = if i == 0 { None } else { Some(2) };
            cfg.pal = 2;
            let k = variant as u8 * 2;
            cfg.spares = vec![
                SpareWl { kind: k, start_in: 2100, end_in: 2200, price: 70, ibc: false },     // 0: fine
                SpareWl { kind: k + 1, start_in: 2100, end_in: 2200, price: 70, ibc: false }, // 1: fine, tiered
                SpareWl { kind: k, start_in: 2300, end_in: 2400, price: 70, ibc: false },     // 2: fine, later
                SpareWl { kind: k, start_in: 1900, end_in: 2400, price: 70, ibc: false },     // 3: active at 2000
                SpareWl { kind: k, start_in: 2100, end_in: 2200, price: 49, ibc: false },     // 4: below the factory minimum
                SpareWl { kind: k, start_in: 2100, end_in: 2200, price: 70, ibc: true },      // 5: wrong denom
                SpareWl { kind: (k + 2) % 6, start_in: 2100, end_in: 2200, price: 70, ibc: false }, // 6: another family
            ];
            let mut ops = vec![
                OeOp::Mint { who: BUYERS[0].into(), funds: nat(60) },
                OeOp::At { secs: 1000, nanos: 0 },
                OeOp::Mint { who: BUYERS[2].into(), funds: nat(60) },
                OeOp::Mint { who: BUYERS[0].into(), funds: nat(100) },
                OeOp::Mint { who: BUYERS[0].into(), funds: nat(60) },
                OeOp::Mint { who: BUYERS[1].into(), funds: nat(60) },
                OeOp::Mint { who: BUYERS[0].into(), funds: nat(60) },
                OeOp::Mint { who: BUYERS[0].into(), funds: nat(60) },
                OeOp::Mint { who: BUYERS[1].into(), funds: nat(60) },
                OeOp::At { secs: 1600, nanos: 0 },
                OeOp::Mint { who: BUYERS[0].into(), funds: nat(60) },
                OeOp::Mint { who: BUYERS[1].into(), funds: nat(60) },
                OeOp::Mint { who: BUYERS[1].into(), funds: nat(60) },
                OeOp::Mint { who: BUYERS[1].into(), funds: nat(60) },
                OeOp::SetWhitelist { who: CREATOR.into(), spare: 0 },
                OeOp::At { secs: 2000, nanos: 0 },
                OeOp::Mint { who: BUYERS[0].into(), funds: nat(60) },
                OeOp::SetWhitelist { who: CREATOR.into(), spare: 3 },
                OeOp::SetWhitelist { who: CREATOR.into(), spare: 4 },
                OeOp::SetWhitelist { who: CREATOR.into(), spare: 5 },
                OeOp::SetWhitelist { who: CREATOR.into(), spare: 6 },
                OeOp::SetWhitelist { who: STRANGER.into(), spare: 0 },
                OeOp::SetWhitelist { who: CREATOR.into(), spare: 0 },
                OeOp::SetWhitelist { who: CREATOR.into(), spare: 1 },
                OeOp::At { secs: 2100, nanos: -1 },
                OeOp::SetWhitelist { who: CREATOR.into(), spare: 2 },
                OeOp::SetWhitelist { who: CREATOR.into(), spare: 0 },
                OeOp::At { secs: 2100, nanos: 0 },
                OeOp::SetWhitelist { who: CREATOR.into(), spare: 2 },
                OeOp::Mint { who: BUYERS[0].into(), funds: nat(70) },
                OeOp::Mint { who: BUYERS[2].into(), funds: nat(70) },
                OeOp::At { secs: 2200, nanos: 0 },
                OeOp::SetWhitelist { who: CREATOR.into(), spare: 2 },
                OeOp::At { secs: 3000, nanos: 0 },
                OeOp::SetWhitelist { who: CREATOR.into(), spare: 2 },
                OeOp::Mint { who: BUYERS[0].into(), funds: nat(100) },
                OeOp::Mint { who: BUYERS[0].into(), funds: nat(100) },
                OeOp::Mint { who: BUYERS[0].into(), funds: nat(100) },
                OeOp::UpdatePerAddressLimit { who: CREATOR.into(), limit: 3 },
                OeOp::Mint { who: BUYERS[0].into(), funds: nat(100) },
                OeOp::UpdatePerAddressLimit { who: CREATOR.into(), limit: 11 },
                OeOp::UpdatePerAddressLimit { who: CREATOR.into(), limit: 0 },
                OeOp::UpdatePerAddressLimit { who: BUYERS[0].into(), limit: 4 },
            ];
            if OE_VARIANTS[variant].merkle {
                // adversarial Merkle arguments: someone else's proof, a self-declared allocation, no proof
                let w0 = vec!["00".repeat(if *kind == OeWl::Merkle { 32 } else { 16 })];
                ops.insert(3, OeOp::MintM { who: BUYERS[2].into(), funds: nat(60), stage: None, proof: Some(w0), allocation: None });
                ops.insert(4, OeOp::MintM { who: BUYERS[0].into(), funds: nat(60), stage: None, proof: Some(vec![]), allocation: Some(9) });
                ops.insert(5, OeOp::MintM { who: BUYERS[0].into(), funds: nat(60), stage: None, proof: None, allocation: None });
                ops.insert(6, OeOp::MintM { who: BUYERS[0].into(), funds: nat(60), stage: Some(1), proof: Some(vec!["zz".into()]), allocation: None });
            }
            v.push(OeCase::Oe { cfg, ops });
        }
        // (h) foreign whitelist contracts (anyone can name any contract as whitelist): one that claims to be
        //     tiered and reports active stage 4, one whose HasMember fails, one whose Stage query fails,
        //     one whose Member query fails; whitelist mints are refused, the public sale is unharmed
        let mut cfg = OeCfg::basic(variant);
        cfg.num_tokens = Some(4);
        cfg.spares = (0..4u8)
            .map(|k| SpareWl { kind: 6 + k, start_in: 1000 + 300 * k as u64, end_in: 1200 + 300 * k as u64, price: 60, ibc: false })
            .collect();
        let mut ops = vec![];
        for k in 0..4u64 {
            ops.push(OeOp::SetWhitelist { who: CREATOR.into(), spare: k as usize });
            ops.push(OeOp::At { secs: 1000 + 300 * k, nanos: 0 });
            ops.push(OeOp::MintM { who: BUYERS[0].into(), funds: nat(60), stage: None, proof: Some(vec![]), allocation: None });
            ops.push(OeOp::MintM { who: BUYERS[0].into(), funds: nat(100), stage: None, proof: Some(vec![]), allocation: None });
            ops.push(OeOp::MintTo { who: CREATOR.into(), recipient: BUYERS[1].into(), funds: nat(40) });
            ops.push(OeOp::At { secs: 1200 + 300 * k, nanos: 0 });
        }
        ops.push(OeOp::At { secs: 3000, nanos: 0 });
        ops.push(OeOp::MintM { who: BUYERS[0].into(), funds: nat(100), stage: None, proof: Some(vec![]), allocation: None });
        ops.push(OeOp::MintM { who: BUYERS[0].into(), funds: nat(100), stage: None, proof: None, allocation: None });
        v.push(OeCase::Oe { cfg, ops });
        // (i) holders burn and transfer tokens on the collection between mints: the newest, an older one, all of
        //     them; ids keep counting 1,2,3,... (a burned id is never issued again), the minter's counts do not
        //     move, burn-remaining after the end closes the edition
        let mut cfg = OeCfg::basic(variant);
        cfg.num_tokens = Some(8);
        cfg.onchain = variant == 1;
        let oburn = |who: &str, id: u32| OeOp::Burn { who: who.into(), token_id: id };
        let pmint = |who: &str| OeOp::MintM { who: who.into(), funds: nat(100), stage: None, proof: None, allocation: None };
        v.push(OeCase::Oe {
            cfg,
            ops: vec![
                OeOp::At { secs: 3000, nanos: 0 },
                pmint(BUYERS[0]),
                pmint(BUYERS[0]),
                OeOp::MintTo { who: CREATOR.into(), recipient: BUYERS[1].into(), funds: nat(40) },
                oburn(STRANGER, 3),
                oburn(BUYERS[1], 3),
                pmint(BUYERS[2]),
                oburn(BUYERS[0], 1),
                OeOp::MintTo { who: CREATOR.into(), recipient: BUYERS[1].into(), funds: nat(40) },
                OeOp::TransferNft { who: BUYERS[0].into(), to: STRANGER.into(), token_id: 2 },
                oburn(BUYERS[0], 2),
                oburn(STRANGER, 2),
                oburn("@owner", 4),
                oburn("@owner", 5),
                oburn("@owner", 5),
                pmint(BUYERS[2]),
                OeOp::Purge { who: STRANGER.into() },
                OeOp::At { secs: 5000, nanos: 1 },
                OeOp::BurnRemaining { who: CREATOR.into() },
                oburn("@owner", 6),
                pmint(BUYERS[2]),
                OeOp::MintTo { who: CREATOR.into(), recipient: BUYERS[1].into(), funds: nat(40) },
            ],
        });
        // (g) on-chain metadata without an image: the token is stored with the extension as configured
        let mut cfg = OeCfg::basic(variant);
        cfg.num_tokens = Some(2);
        cfg.onchain = true;
        cfg.image = Some(String::new());
        v.push(OeCase::Oe {
            cfg,
            ops: vec![
                OeOp::MintTo { who: CREATOR.into(), recipient: BUYERS[1].into(), funds: nat(40) },
                OeOp::At { secs: 3000, nanos: 0 },
                OeOp::Mint { who: BUYERS[0].into(), funds: nat(100) },
                OeOp::Mint { who: BUYERS[0].into(), funds: nat(100) },
            ],
        });
        // (f) schedule and price updates, trading time, governance changes between mints
        let mut cfg = OeCfg::basic(variant);
        cfg.num_tokens = Some(5);
        v.push(OeCase::Oe {
            cfg,
            ops: vec![
                OeOp::UpdateStartTime { who: CREATOR.into(), secs: 2500, nanos: 0 },
                OeOp::UpdateStartTime { who: CREATOR.into(), secs: 5001, nanos: 0 },
                OeOp::UpdateStartTime { who: STRANGER.into(), secs: 2600, nanos: 0 },
                OeOp::UpdateMintPrice { who: CREATOR.into(), price: 150 },
                OeOp::UpdateMintPrice { who: CREATOR.into(), price: 49 },
                OeOp::UpdateStartTradingTime { who: CREATOR.into(), t: Some((2500 + 7 * 24 * 3600, 0)) },
                OeOp::UpdateStartTradingTime { who: CREATOR.into(), t: Some((2500 + 7 * 24 * 3600, 1)) },
                OeOp::UpdateStartTradingTime { who: CREATOR.into(), t: None },
                OeOp::At { secs: 2500, nanos: 0 },
                OeOp::UpdateStartTime { who: CREATOR.into(), secs: 2600, nanos: 0 },
                OeOp::Mint { who: BUYERS[0].into(), funds: nat(150) },
                OeOp::UpdateMintPrice { who: CREATOR.into(), price: 150 },
                OeOp::UpdateMintPrice { who: CREATOR.into(), price: 149 },
                OeOp::SudoParams { min_price: Some(120), mint_fee_bps: Some(0), airdrop_price: Some(0), airdrop_fee_bps: Some(10000), offset: Some(10), max_pal: Some(2), max_token_limit: Some(1), dev: Some("XX".into()) },
                OeOp::Mint { who: BUYERS[1].into(), funds: nat(149) },
                OeOp::MintTo { who: CREATOR.into(), recipient: BUYERS[1].into(), funds: vec![] },
                OeOp::UpdateMintPrice { who: CREATOR.into(), price: 119 },
                OeOp::UpdateMintPrice { who: CREATOR.into(), price: 120 },
                OeOp::UpdatePerAddressLimit { who: CREATOR.into(), limit: 3 },
                OeOp::SudoParams { min_price: None, mint_fee_bps: Some(1000), airdrop_price: Some(40), airdrop_fee_bps: Some(5000), offset: None, max_pal: None, max_token_limit: None, dev: None },
                OeOp::Mint { who: BUYERS[1].into(), funds: nat(120) },
                OeOp::SudoParams { min_price: None, mint_fee_bps: Some(10001), airdrop_price: None, airdrop_fee_bps: None, offset: None, max_pal: None, max_token_limit: None, dev: Some(DEV.into()) },
                OeOp::Mint { who: BUYERS[1].into(), funds: nat(120) },
                OeOp::MintTo { who: CREATOR.into(), recipient: "XX".into(), funds: nat(40) },
                OeOp::MintTo { who: CREATOR.into(), recipient: BUYERS[2].into(), funds: nat(40) },
                OeOp::UpdateEndTime { who: CREATOR.into(), secs: 2400, nanos: 0 },
                OeOp::UpdateEndTime { who: CREATOR.into(), secs: 2500, nanos: 0 },
                OeOp::Mint { who: BUYERS[2].into(), funds: nat(120) },
            ],
        });
    }
    // base minter: the creator (and a later holder) burns the newest token, an older one, all of them; ids go on 1,2,3,...
    {
        let uri = "ipfs://bafybeigi3bwpvyvsmnbj46ra4hyffcxdeaj6ntfk5jpic5mx27x6ih2qvq/1.json";
        let bm = || OeOp::BaseMint { who: CREATOR.into(), uri: uri.into(), funds: nat(500) };
        let bb = |who: &str, id: u32| OeOp::Burn { who: who.into(), token_id: id };
        v.push(OeCase::Base {
            cfg: BaseCfg::default(),
            ops: vec![
                bm(),
                bm(),
                bm(),
                bb(STRANGER, 3),
                bb(CREATOR, 3),
                bm(),
                bb(CREATOR, 1),
                bm(),
                OeOp::TransferNft { who: CREATOR.into(), to: BUYERS[0].into(), token_id: 2 },
                bb(CREATOR, 2),
                bb(BUYERS[0], 2),
                bb("@owner", 4),
                bb("@owner", 5),
                bm(),
                bb("@owner", 6),
                bm(),
            ],
        });
    }
    // base minter
    let uri = "ipfs://bafybeigi3bwpvyvsmnbj46ra4hyffcxdeaj6ntfk5jpic5mx27x6ih2qvq/1.json";
    v.push(OeCase::Base {
        cfg: BaseCfg::default(),
        ops: vec![
            OeOp::BaseMint { who: STRANGER.into(), uri: uri.into(), funds: nat(500) },
            OeOp::BaseMint { who: CREATOR.into(), uri: uri.into(), funds: nat(500) },
            OeOp::BaseMint { who: CREATOR.into(), uri: uri.into(), funds: nat(499) },
            OeOp::BaseMint { who: CREATOR.into(), uri: uri.into(), funds: nat(501) },
            OeOp::BaseMint { who: CREATOR.into(), uri: "not a url".into(), funds: nat(500) },
            OeOp::BaseMint { who: CREATOR.into(), uri: uri.into(), funds: vec![] },
            OeOp::BaseMint { who: CREATOR.into(), uri: uri.into(), funds: vec![(IBC.to_string(), 500)] },
            OeOp::BaseMint { who: CREATOR.into(), uri: "https://example.com/2".into(), funds: nat(500) },
            OeOp::BaseSudoParams { min_price: Some(2000), mint_fee_bps: Some(10000) },
            OeOp::BaseMint { who: CREATOR.into(), uri: uri.into(), funds: nat(500) },
            OeOp::BaseMint { who: CREATOR.into(), uri: uri.into(), funds: nat(1000) },
            OeOp::BaseMint { who: CREATOR.into(), uri: uri.into(), funds: nat(2000) },
            OeOp::BaseUpdateStartTradingTime { who: STRANGER.into(), t: Some((100, 0)) },
            OeOp::BaseUpdateStartTradingTime { who: CREATOR.into(), t: Some((100, 0)) },
            OeOp::At { secs: 200, nanos: 0 },
            OeOp::BaseUpdateStartTradingTime { who: CREATOR.into(), t: Some((200, -1)) },
            OeOp::BaseUpdateStartTradingTime { who: CREATOR.into(), t: Some((200, 0)) },
            OeOp::BaseUpdateStartTradingTime { who: CREATOR.into(), t: None },
            OeOp::BaseSetCreator { who: CREATOR.into(), new: NEWCREATOR.into() },
            OeOp::BaseMint { who: CREATOR.into(), uri: uri.into(), funds: nat(1000) },
            OeOp::BaseMint { who: NEWCREATOR.into(), uri: uri.into(), funds: nat(1000) },
            OeOp::BaseSudoParams { min_price: None, mint_fee_bps: Some(0) },
            OeOp::BaseMint { who: NEWCREATOR.into(), uri: uri.into(), funds: vec![] },
            OeOp::BaseMint { who: NEWCREATOR.into(), uri: uri.into(), funds: nat(1) },
        ],
    });
    v
}

fn gen_oe_case(rng: &mut Rng, variant: usize, thorough: bool) -> OeCase {
    let v = OE_VARIANTS[variant];
    let mut cfg = OeCfg::basic(variant);
    cfg.fp.max_token_limit = *rng.pick(&[6u32, 12, 20]);
    cfg.num_tokens = match rng.below(4) {
        0 => None,
        1 => Some(cfg.fp.max_token_limit),
        _ => Some(rng.range(1, 7) as u32),
    };
    cfg.end_in_secs = if cfg.num_tokens.is_none() || rng.chance(2, 3) { Some(5000) } else { None };
    cfg.pal = rng.range(1, 4) as u32;
    cfg.price = *rng.pick(&[50u128, 100, 101, 1000]);
    cfg.payment_address = rng.chance(1, 3);
    cfg.fp.mint_fee_bps = *rng.pick(&[0u64, 1, 1000, 3333, 10000]);
    cfg.fp.airdrop_price = *rng.pick(&[40u128, 40, 7, if cfg.num_tokens.is_some() { 0 } else { 40 }]);
    cfg.fp.airdrop_fee_bps = *rng.pick(&[0u64, 5000, 10000]);
    if rng.chance(1, 6) {
        cfg.fp.denom = IBC.to_string();
    }
    // NFT metadata mode: on-chain metadata (sg721-metadata-onchain collection) in two of five
    // editions, now and then with a whitespace-padded or absent image URL
    cfg.onchain = rng.chance(2, 5);
    if cfg.onchain {
        cfg.image = match rng.below(6) {
            0 => Some(format!("  {} ", OE_IMAGE)),
            1 => Some(String::new()),
            _ => None,
        };
    }
    let dn = cfg.fp.denom.clone();
    let other = if dn == NATIVE { IBC.to_string() } else { NATIVE.to_string() };
    let fund = |a: u128| -> Vec<(String, u128)> {
        if a == 0 {
            vec![]
        } else {
            vec![(dn.clone(), a)]
        }
    };
    let compat = OeWl::compatible(&v);
    cfg.wl = match rng.below(3) {
        0 => OeWl::None,
        1 => compat[0],
        _ => compat[1],
    };
    if matches!(cfg.wl, OeWl::Tiered | OeWl::TieredFlex | OeWl::TieredMerkle) {
        cfg.wl_windows = vec![(1000, 1300), (1300, 1700), (1700, 2000)];
        cfg.wl_stage_limit = if rng.chance(1, 2) { Some(rng.range(1, 3) as u32) } else { None };
    }
    cfg.wl_limit = rng.range(1, 3) as u32;
    cfg.wl_flex_count = rng.range(1, 3) as u32;
    cfg.wl_price = *rng.pick(&[50u128, 60]);
    for _ in 0..3 {
        let st = *rng.pick(&[1200u64, 2100, 2500, 2900]);
        cfg.spares.push(SpareWl {
            kind: if rng.chance(3, 4) { variant as u8 * 2 + rng.below(2) as u8 } else { rng.below(6) as u8 },
            start_in: st,
            end_in: st + *rng.pick(&[50u64, 300]),
            price: *rng.pick(&[49u128, 50, 60]),
            ibc: (cfg.fp.denom == IBC) != rng.chance(1, 8),
        });
    }
    let air = cfg.fp.airdrop_price;
    let mut price = cfg.price;
    let mut ops = vec![];
    let buyers = [BUYERS[0], BUYERS[1], BUYERS[2], STRANGER];
    let has_wl = cfg.wl != OeWl::None;
    // phase 1: whitelist window (if any), phase 2: public sale, phase 3: around / after the end
    let len = if thorough { rng.range(40, 90) } else { rng.range(25, 55) } as usize;
    let mut t: u64 = if has_wl { 900 } else { 2900 };
    let mut burn_budget = 1;
    for i in 0..len {
        if rng.chance(1, 3) {
            t += *rng.pick(&[1u64, 50, 120, 400]);
            let nanos = *rng.pick(&[0i64, 0, -1, 1, 7]);
            // snap to the interesting instants now and then
            let tt = if rng.chance(1, 4) { *rng.pick(&[1000u64, 1300, 1700, 2000, 3000, 5000]) } else { t };
            if tt >= t {
                t = tt;
            }
            ops.push(OeOp::At { secs: t, nanos });
        }
        let in_wl = has_wl && (1000..2000).contains(&t);
        let cur = if in_wl { cfg.wl_price } else { price };
        let pay = |rng: &mut Rng, p: u128| -> Vec<(String, u128)> {
            match rng.below(20) {
                0 => fund(p + 1),
                1 => fund(p.saturating_sub(1)),
                2 => vec![(other.clone(), p.max(1))],
                3 => vec![(NATIVE.to_string(), p.max(1)), (IBC.to_string(), 1)],
                _ => fund(p),
            }
        };
        let who_any = *rng.pick(&[BUYERS[0], BUYERS[1], BUYERS[2], STRANGER, CREATOR]);
        let admin = if rng.chance(9, 10) { CREATOR } else { who_any };
        let op = match rng.below(100) {
            0..=39 => OeOp::Mint { who: (*rng.pick(&buyers)).into(), funds: pay(rng, cur) },
            40..=64 => OeOp::MintTo { who: admin.into(), recipient: (*rng.pick(&[BUYERS[0], BUYERS[1], STRANGER])).into(), funds: pay(rng, air) },
            65..=69 => OeOp::Purge { who: who_any.into() },
            70..=75 => {
                if burn_budget > 0 && i > len / 2 {
                    burn_budget -= 1;
                    if cfg.end_in_secs.is_some() && t <= 5000 {
                        t = 5000 + rng.range(0, 1);
                        ops.push(OeOp::At { secs: t, nanos: *rng.pick(&[0i64, 1]) });
                    }
                    OeOp::BurnRemaining { who: CREATOR.into() }
                } else {
                    OeOp::BurnRemaining { who: who_any.into() }
                }
            }
            76..=80 => {
                let p = match rng.below(4) {
                    0 => price + 10,
                    1 => price,
                    2 => 49,
                    _ => price.saturating_sub(rng.range(1, 10) as u128).max(50),
                };
                if admin == CREATOR && p >= 50 && (t < 3000 || p < price) {
                    price = p;
                }
                OeOp::UpdateMintPrice { who: admin.into(), price: p }
            }
            81..=83 => OeOp::UpdateStartTime { who: admin.into(), secs: *rng.pick(&[2500u64, 3000, 3200, 5000, 5001]), nanos: 0 },
            84..=87 => OeOp::UpdateEndTime { who: admin.into(), secs: *rng.pick(&[2999u64, 3000, 4000, 5000, 5000, 6000]), nanos: *rng.pick(&[0i64, 0, -1, 1]) },
            88..=90 => OeOp::UpdateStartTradingTime {
                who: admin.into(),
                t: if rng.chance(1, 4) { None } else { Some((*rng.pick(&[t, t + 10, 3000 + 7 * 24 * 3600]), *rng.pick(&[0i64, 1, -1]))) },
            },
            91..=93 => OeOp::UpdatePerAddressLimit { who: admin.into(), limit: *rng.pick(&[0u32, 1, 2, 5, 10, 11]) },
            94..=96 => OeOp::SetWhitelist { who: admin.into(), spare: rng.below(4) as usize },
            _ => OeOp::SudoParams {
                min_price: if rng.chance(1, 3) { Some(*rng.pick(&[10u128, 50, 90])) } else { None },
                mint_fee_bps: if rng.chance(1, 3) { Some(*rng.pick(&[0u64, 500, 10000])) } else { None },
                airdrop_price: None,
                airdrop_fee_bps: if rng.chance(1, 3) { Some(*rng.pick(&[0u64, 2500, 10000])) } else { None },
                offset: if rng.chance(1, 4) { Some(*rng.pick(&[0u64, 100, 7 * 24 * 3600])) } else { None },
                max_pal: if rng.chance(1, 3) { Some(*rng.pick(&[1u32, 5, 10])) } else { None },
                max_token_limit: if rng.chance(1, 3) { Some(*rng.pick(&[1u32, 100])) } else { None },
                dev: None,
            },
        };
        ops.push(op);
    }
    // the end-time instant itself (when the clock has not passed it yet)
    if cfg.end_in_secs.is_some() && t < 5000 && rng.chance(2, 3) {
        ops.push(OeOp::At { secs: 5000, nanos: *rng.pick(&[-1i64, 0, 0, 1]) });
        ops.push(OeOp::Mint { who: (*rng.pick(&buyers)).into(), funds: fund(price) });
        ops.push(OeOp::MintTo { who: CREATOR.into(), recipient: BUYERS[0].into(), funds: fund(air) });
    }
    // closing probes: everything that could create a token after the end / burn / sell-out
    if cfg.end_in_secs.is_some() {
        ops.push(OeOp::At { secs: 6001, nanos: 0 });
    }
    ops.push(OeOp::BurnRemaining { who: CREATOR.into() });
    ops.push(OeOp::Mint { who: STRANGER.into(), funds: fund(price) });
    ops.push(OeOp::MintTo { who: CREATOR.into(), recipient: BUYERS[0].into(), funds: fund(air) });
    ops.push(OeOp::Purge { who: STRANGER.into() });
    drop(fund);
    sprinkle_oe_migrates(rng, &mut ops, 25);
    sprinkle_oe_holder_ops(rng, &mut ops, 8, 30);
    OeCase::Oe { cfg, ops }
}

/// holder-side Burn / TransferNft on the collection (`permille` of the operations)
fn sprinkle_oe_holder_ops(rng: &mut Rng, ops: &mut Vec<OeOp>, max_id: u32, permille: u64) {
    let mut i = 0;
    while i < ops.len() {
        if rng.below(1000) < permille {
            let (who, to, id) = gen_holder_args(rng, max_id);
            ops.insert(i, if rng.chance(2, 3) { OeOp::Burn { who, token_id: id } } else { OeOp::TransferNft { who, to, token_id: id } });
            i += 1;
        }
        i += 1;
    }
}

fn gen_base_case(rng: &mut Rng) -> OeCase {
    let cfg = BaseCfg {
        min_price: *rng.pick(&[1000u128, 999, 50_000_000, 1]),
        mint_fee_bps: *rng.pick(&[10000u64, 5000, 3333, 1]),
        creation_fee: 5_000,
        offset_secs: 7 * 24 * 3600,
    };
    let fee = |price: u128, bps: u64| price * bps as u128 / 10000;
    let mut bps = cfg.mint_fee_bps;
    let mut creator = CREATOR;
    let uris = ["ipfs://abc/1.json", "https://example.com/x.json", "not a url", ""];
    let mut ops = vec![];
    let mut t = 0u64;
    for _ in 0..rng.range(15, 35) {
        if rng.chance(1, 4) {
            t += rng.range(1, 100);
            ops.push(OeOp::At { secs: t, nanos: *rng.pick(&[0i64, 1, -1]) });
        }
        let who = if rng.chance(4, 5) { creator } else { *rng.pick(&[CREATOR, NEWCREATOR, STRANGER, BUYERS[0]]) };
        let op = match rng.below(20) {
            0..=11 => {
                let f = fee(cfg.min_price, bps);
                let funds = match rng.below(12) {
                    0 => nat(f + 1),
                    1 => nat(f.saturating_sub(1)),
                    2 => vec![(IBC.to_string(), f.max(1))],
                    3 => vec![],
                    _ => nat(f),
                };
                OeOp::BaseMint { who: who.into(), uri: (*rng.pick(&[uris[0], uris[0], uris[1], uris[1], uris[2], uris[3]])).into(), funds }
            }
            12..=14 => OeOp::BaseUpdateStartTradingTime { who: who.into(), t: if rng.chance(1, 4) { None } else { Some((t + rng.range(0, 3), *rng.pick(&[0i64, -1, 1]))) } },
            15..=17 => {
                let nb = *rng.pick(&[10000u64, 5000, 0, 2]);
                bps = nb;
                OeOp::BaseSudoParams { min_price: if rng.chance(1, 2) { Some(777) } else { None }, mint_fee_bps: Some(nb) }
            }
            _ => {
                let new = if creator == CREATOR { NEWCREATOR } else { CREATOR };
                let by = if rng.chance(3, 4) { creator } else { STRANGER };
                if by == creator {
                    creator = new;
                }
                OeOp::BaseSetCreator { who: by.into(), new: new.into() }
            }
        };
        ops.push(op);
    }
    // the base minter has few operations of its own: holder operations are a tenth of the history
    sprinkle_oe_holder_ops(rng, &mut ops, 6, 100);
    OeCase::Base { cfg, ops }
}

fn oe_ops(c: &OeCase) -> &Vec<OeOp> {
    match c {
        OeCase::Oe { ops, .. } | OeCase::Base { ops, .. } => ops,
    }
}
fn oe_with_ops(c: &OeCase, ops: Vec<OeOp>) -> OeCase {
    match c {
        OeCase::Oe { cfg, .. } => OeCase::Oe { cfg: cfg.clone(), ops },
        OeCase::Base { cfg, .. } => OeCase::Base { cfg: cfg.clone(), ops },
    }
}
/// greedy shrinking: drop every op whose removal keeps a violation with the same key
fn shrink_oe(c: &OeCase, key: &str) -> OeCase {
    let has = |c: &OeCase| run_oe_case(c).violations.iter().any(|(k, _)| k == key);
    let mut cur = c.clone();
    let mut i = oe_ops(&cur).len();
    while i > 0 {
        i -= 1;
        let mut ops = oe_ops(&cur).clone();
        ops.remove(i);
        let t = oe_with_ops(&cur, ops);
        if has(&t) {
            cur = t;
        }
    }
    cur
}

/// runs part 2; returns (#cases, #violations)
fn run_oe_part(a: &Args, out: &OutDir, rep: &mut Report, replay: Option<OeCase>, nviol_before: usize) -> (usize, usize) {
    let cases: Vec<OeCase> = match replay {
        Some(c) => vec![c],
        None => {
            let mut rng = Rng::new(a.seed ^ 0x0E0E_0E0E);
            let mut v = oe_corpus();
            let per_variant = if a.thorough() { 60 } else { 8 };
            for variant in 0..3 {
                for _ in 0..per_variant {
                    v.push(gen_oe_case(&mut rng, variant, a.thorough()));
                }
            }
            for _ in 0..(if a.thorough() { 40 } else { 6 }) {
                v.push(gen_base_case(&mut rng));
            }
            v
        }
    };
    let mut coq_cases = vec![];
    let mut nviol = 0usize;
    let mut samples = 0;
    for (i, c) in cases.iter().enumerate() {
        let r = run_oe_case(c);
        rep.evaluations += r.steps;
        for (k, v) in &r.hist {
            *rep.histogram.entry(k.clone()).or_insert(0) += v;
        }
        if r.ok_steps > 0 {
            rep.distinct_nontrivial += r.ok_steps;
        }
        for (key, what) in r.violations.iter().take(3) {
            nviol += 1;
            if nviol_before + nviol <= 40 {
                // the first few failing histories are shrunk (ops removed while the same violation persists)
                let shrunk = if nviol <= 3 && a.replay.is_none() { shrink_oe(c, key) } else { c.clone() };
                let body = format!(
                    "{{\n \"property\": \"C01\",\n \"part\": \"oe\",\n \"case\": {},\n \"violation\": {}\n}}\n",
                    serde_json::to_string(&shrunk).unwrap(),
                    serde_json::to_string(what).unwrap()
                );
                let path = out.write_replay(&format!("C01-oe-{}.json", nviol), &body);
                rep.violations.push(Violation { key: key.clone(), what: what.clone(), replay: path });
            }
        }
        if samples < 2 && i % 11 == 3 {
            samples += 1;
            let (name, ops) = match c {
                OeCase::Oe { cfg, ops } => (OE_VARIANTS[cfg.variant].name, ops),
                OeCase::Base { ops, .. } => ("base-minter", ops),
            };
            rep.samples.push(serde_json::json!({"variant": name,
                "first_ops": ops.iter().take(8).map(|o| format!("{:?}", o)).collect::<Vec<_>>(), "steps": r.steps, "ok_steps": r.ok_steps}));
        }
        if let Some(cq) = r.coq {
            coq_cases.push(cq);
        }
    }
    rep.rule.push_str(" || part 2: histories of Mint/MintTo/Purge/BurnRemaining/Update*/SetWhitelist by buyers, stranger and admin with factory governance changes on each of the three open-edition minters created through the open-edition factory (with and without num_tokens / end time / whitelist of each compatible kind), and Mint/UpdateStartTradingTime/creator hand-over on the base minter created through the base factory; same counting rules");
    out.write_cases(
        "C01oe",
        "From LP Require Import Num Pay Sg1 Bank MinterVending MinterOpen SaleOeCorr.",
        "oecase",
        "sale_oe_check",
        &coq_cases,
        6,
        rep,
    );
    (cases.len(), nviol)
}


// =====================================================================================
// Part 3 — token-merge minter: "every minted token id lies in 1..=num_tokens and is minted
// at most once, mint-for delivers exactly the requested id or fails, shuffle changes
// neither the set of remaining ids nor their number, the reported mintable count always
// equals num_tokens minus minted minus burned, with no mint succeeding at zero."
// The world and the operation language are those of C17 (c17_world.rs); histories are
// focused on supply: deposit-triggered mints interleaved with MintTo / MintFor / Shuffle /
// Purge / BurnRemaining up to and past sell-out.  Cases are checked by the C17 model
// checker (corr/C17Corr.v).
// =====================================================================================
#[path = "c17_world.rs"]
mod tmw;

const TM_VARIANT: &str = "token-merge-minter";

fn tm_op_mints(op: &tmw::Op) -> bool {
    matches!(op, tmw::Op::MintTo { .. } | tmw::Op::MintFor { .. } | tmw::Op::Send { .. })
}

pub fn run_tm_case(c: &tmw::Case) -> CaseResult {
    let mut res = CaseResult { coq: None, steps: 0, ok_steps: 0, violations: vec![], hist: BTreeMap::new() };
    let mut w = match tmw::build(c) {
        Ok(w) => w,
        Err(_) => {
            *res.hist.entry(format!("{}:create:err", TM_VARIANT)).or_insert(0) += 1;
            return res;
        }
    };
    let n = c.num_tokens as u64;
    let init = tmw::observe(&w, c);
    let mut steps_coq = vec![];
    // ---- monitor state (property text, independent of the model) ----
    let mut minted: BTreeSet<u64> = BTreeSet::new();
    let mut burned: u64 = 0;
    let mut burn_done = false;
    {
        let mut ids: Vec<u64> = init.positions.iter().map(|p| p.1 as u64).collect();
        ids.sort();
        let keys: Vec<u64> = init.positions.iter().map(|p| p.0 as u64).collect();
        if ids != (1..=n).collect::<Vec<u64>>() || keys != (1..=n).collect::<Vec<u64>>() || init.mintable != n {
            res.violations.push(("C01:tm-initial-table".into(), format!("{}: initial ids/positions/count are not 1..={}", TM_VARIANT, n)));
        }
    }
    let mut pre = init.clone();
    for st in &c.steps {
        crate::chain::set_time(&mut w.app, st.at);
        tmw::prepare(&mut w, &st.op);
        pre.cw2 = crate::w_migrate::get_cw2(&w.app, &w.minter);
        let d0 = crate::chain::storage_digest(&w.app, &w.minter);
        let r = tmw::apply(&mut w, &st.op);
        let d1 = crate::chain::storage_digest(&w.app, &w.minter);
        let post = tmw::observe(&w, c);
        let (ok, pick, burned_evt) = match &r {
            Ok(resp) => (true, tmw::minted_pick(&w, resp), tmw::burned_attr(resp)),
            Err(_) => (false, 0, None),
        };
        res.steps += 1;
        if ok {
            res.ok_steps += 1;
        }
        *res.hist.entry(format!("{}:{}:{}", TM_VARIANT, st.op.kind(), if ok { "ok" } else { "err" })).or_insert(0) += 1;
        if pick != 0 {
            *res.hist.entry(format!("{}:{}:minted", TM_VARIANT, st.op.kind())).or_insert(0) += 1;
        }
        steps_coq.push(format!("({}, {}, {})", st.at, tmw::op_coq(&st.op, if ok { pick } else { pre.positions.first().map(|p| p.1 as u64).unwrap_or(0) }, &pre.cw2), tmw::obs_coq(ok, &post, tmw::cw2_after(&st.op, &post).as_ref())));
        let mut bad = |k: &str, what: String| res.violations.push((format!("C01:tm-{}", k), format!("{}: {:?}: {}", TM_VARIANT, st.op, what)));
        if !ok {
            if pre != post || d0 != d1 {
                bad("failed-call-changed-state", "a failed call changed queries or raw storage".into());
            }
        } else {
            let new_ids: Vec<String> = post.tgt_all.iter().filter(|t| !pre.tgt_all.contains(t)).cloned().collect();
            if !new_ids.is_empty() || pick != 0 || post.tgt_supply != pre.tgt_supply {
                // a token was created
                if !tm_op_mints(&st.op) {
                    bad("mint-by-non-mint-call", format!("created {:?}", new_ids));
                }
                if pre.mintable == 0 {
                    bad("mint-at-zero", "succeeded with mintable count 0".into());
                }
                if burn_done {
                    bad("mint-after-burn", "succeeded after burn-remaining".into());
                }
                if new_ids.len() != 1 || post.tgt_supply != pre.tgt_supply + 1 || new_ids[0] != pick.to_string() {
                    bad("mint-count", format!("one call created {:?} (reported id {}), NumTokens {} -> {}", new_ids, pick, pre.tgt_supply, post.tgt_supply));
                }
                for t in &new_ids {
                    let id: u64 = t.parse().unwrap_or(0);
                    if id < 1 || id > n {
                        bad("id-out-of-range", format!("minted id {} outside 1..={}", t, n));
                    }
                    if !minted.insert(id) {
                        bad("id-minted-twice", format!("id {} minted twice", id));
                    }
                    if !pre.positions.iter().any(|p| p.1 as u64 == id) {
                        bad("id-not-mintable", format!("id {} was not among the remaining ids", id));
                    }
                    if let tmw::Op::MintFor { tid, .. } = &st.op {
                        if id != *tid as u64 {
                            bad("mint-for-wrong-id", format!("MintFor({}) delivered {}", tid, id));
                        }
                    }
                    let want_owner = match &st.op {
                        tmw::Op::MintTo { recip: tmw::Recip::Addr(i), .. } | tmw::Op::MintFor { recip: tmw::Recip::Addr(i), .. } => Some(tmw::ACCOUNTS[*i].1),
                        tmw::Op::Send { user, recip, .. } => match recip {
                            tmw::Recip::None => Some(tmw::ACCOUNTS[*user].1),
                            tmw::Recip::Addr(i) => Some(tmw::ACCOUNTS[*i].1),
                            tmw::Recip::Invalid => None,
                        },
                        _ => None,
                    };
                    if id >= 1 && id <= n && Some(post.tgt[(id - 1) as usize]) != want_owner {
                        bad("wrong-owner", format!("token {} owned by {}, expected {:?}", id, post.tgt[(id - 1) as usize], want_owner));
                    }
                }
            } else if matches!(st.op, tmw::Op::MintTo { .. } | tmw::Op::MintFor { .. }) {
                bad("mint-without-token", "MintTo/MintFor succeeded but no token was created".into());
            }
            if let tmw::Op::Shuffle { .. } = &st.op {
                let mut a: Vec<u32> = pre.positions.iter().map(|p| p.1).collect();
                let mut b: Vec<u32> = post.positions.iter().map(|p| p.1).collect();
                a.sort();
                b.sort();
                let ka: Vec<u32> = pre.positions.iter().map(|p| p.0).collect();
                let kb: Vec<u32> = post.positions.iter().map(|p| p.0).collect();
                if a != b || ka != kb || pre.mintable != post.mintable {
                    bad("shuffle-changed-set", "shuffle changed the remaining ids, their positions or their number".into());
                }
                if pre.mintable == 0 {
                    bad("shuffle-at-zero", "shuffle succeeded with nothing left".into());
                }
            }
            if let tmw::Op::BurnRemaining { .. } = &st.op {
                let gone = pre.positions.len() as u64;
                if burned_evt != Some(gone) || !post.positions.is_empty() || post.mintable != 0 {
                    bad("burn-remaining", format!("reported {:?} burned, {} ids before, {} after, count {}", burned_evt, gone, post.positions.len(), post.mintable));
                }
                burned += gone;
                burn_done = true;
            }
        }
        // after every step
        if post.mintable + minted.len() as u64 + burned != n {
            bad("count-identity", format!("mintable {} + minted {} + burned {} != num_tokens {}", post.mintable, minted.len(), burned, n));
        }
        if post.positions.len() as u64 != post.mintable {
            bad("table-size", format!("{} ids stored but mintable count {}", post.positions.len(), post.mintable));
        }
        let mut left: Vec<u64> = post.positions.iter().map(|p| p.1 as u64).collect();
        left.sort();
        let want: Vec<u64> = if burn_done { vec![] } else { (1..=n).filter(|t| !minted.contains(t)).collect() };
        if left != want {
            bad("remaining-ids", format!("remaining ids {:?}, expected {:?}", left, want));
        }
        let mut toks: Vec<u64> = post.tgt_all.iter().map(|t| t.parse().unwrap_or(0)).collect();
        toks.sort();
        if toks != minted.iter().cloned().collect::<Vec<u64>>() || post.tgt_supply != minted.len() as u64 {
            bad("collection-mismatch", format!("collection holds {:?} (NumTokens {}), trace minted {:?}", toks, post.tgt_supply, minted));
        }
        pre = post;
        if res.violations.len() > 5 {
            break;
        }
    }
    if res.violations.is_empty() || steps_coq.len() == c.steps.len() {
        res.coq = Some(format!("C17Case {} {} [{}]", tmw::cfg_coq(c), tmw::obs_coq(true, &init, None), steps_coq.join("; ")));
    }
    res
}

struct TmB {
    case: tmw::Case,
    t: u64,
    next_tok: BTreeMap<(usize, usize), u64>,
}
impl TmB {
    fn new(name: &str, req: &[u32], n: u32, limit: u32, price: u128) -> TmB {
        TmB {
            case: tmw::Case {
                name: name.into(),
                req: req.iter().enumerate().map(|(i, a)| (i, *a)).collect(),
                ncolls: req.len() + 1,
                num_tokens: n,
                limit,
                airdrop_price: price,
                shuffle_fee: 500,
                src: vec![],
                steps: vec![],
            },
            t: tmw::START + 1,
            next_tok: BTreeMap::new(),
        }
    }
    fn push(&mut self, op: tmw::Op) {
        self.case.steps.push(tmw::Step { at: self.t, op });
        self.t += 1_000_000_007;
    }
    fn dep(&mut self, coll: usize, user: usize, recip: tmw::Recip) {
        let k = self.next_tok.entry((coll, user)).or_insert(0);
        *k += 1;
        let tok = user as u64 * 1000 + *k;
        self.case.src.push((coll, tok, user));
        self.push(tmw::Op::Send { coll, user, tok, garbage: false, recip });
    }
    /// a full set of deposits by `user` for `recip`: the last one triggers the mint (if anything is left)
    fn merge(&mut self, user: usize, recip: tmw::Recip) {
        let req = self.case.req.clone();
        for (c, a) in req {
            for _ in 0..a {
                self.dep(c, user, recip.clone());
            }
        }
    }
    fn pay(&self) -> Vec<(u8, u128)> {
        if self.case.airdrop_price == 0 {
            vec![]
        } else {
            vec![(0, self.case.airdrop_price)]
        }
    }
    fn mint_to(&mut self, recip: usize) {
        let f = self.pay();
        self.push(tmw::Op::MintTo { caller: tmw::CREATOR, recip: tmw::Recip::Addr(recip), funds: f });
    }
    fn mint_for(&mut self, tid: u32, recip: usize) {
        let f = self.pay();
        self.push(tmw::Op::MintFor { caller: tmw::CREATOR, tid, recip: tmw::Recip::Addr(recip), funds: f });
    }
    fn shuffle(&mut self, who: usize) {
        self.push(tmw::Op::Shuffle { caller: who, funds: vec![(0, 500)] });
    }
}

fn tm_corpus() -> Vec<tmw::Case> {
    let mut v = vec![];
    // sell out 2 tokens by mint-for in reverse order (the second request of the same id fails), then every creator of tokens must fail
    let mut b = TmB::new("tm-corpus-mintfor", &[1], 2, 2, 0);
    b.mint_for(2, 1);
    b.mint_for(2, 1);
    b.shuffle(5);
    b.merge(2, tmw::Recip::None);
    b.merge(2, tmw::Recip::None);
    b.mint_to(3);
    b.mint_for(1, 3);
    b.shuffle(5);
    b.push(tmw::Op::Purge { caller: 5, funds: vec![] });
    b.push(tmw::Op::BurnRemaining { caller: tmw::CREATOR, funds: vec![] });
    v.push(b.case);
    // burn with tokens left, then nothing mints
    let mut b = TmB::new("tm-corpus-burn", &[2], 5, 3, 1000);
    b.merge(1, tmw::Recip::None);
    b.push(tmw::Op::BurnRemaining { caller: 5, funds: vec![] });
    b.push(tmw::Op::BurnRemaining { caller: tmw::CREATOR, funds: vec![] });
    b.merge(1, tmw::Recip::None);
    b.mint_to(3);
    b.mint_for(3, 1);
    b.push(tmw::Op::BurnRemaining { caller: tmw::CREATOR, funds: vec![] });
    b.shuffle(5);
    v.push(b.case);
    // burn-remaining with 1, 2, 3 tokens left
    for left in 1..=3u32 {
        let mut b = TmB::new(&format!("tm-corpus-burn-left-{}", left), &[1], left + 1, 2, 0);
        b.mint_to(1);
        b.push(tmw::Op::BurnRemaining { caller: tmw::CREATOR, funds: vec![] });
        b.mint_for(1, 1);
        b.mint_for(2, 1);
        b.merge(2, tmw::Recip::None);
        b.shuffle(5);
        b.push(tmw::Op::Purge { caller: 5, funds: vec![] });
        v.push(b.case);
    }
    // shuffle with 9..1 tokens left keeps the id set; mints alternate between deposit, MintTo, MintFor
    let mut b = TmB::new("tm-corpus-shuffle", &[1, 1], 9, 3, 0);
    for k in 0..9u32 {
        b.shuffle(1 + (k as usize % 3));
        match k % 3 {
            0 => b.merge(1 + (k as usize / 3) % 3, tmw::Recip::Addr(1 + (k as usize % 4))),
            1 => b.mint_to(2),
            _ => b.mint_for(9 - k, 3),
        }
    }
    b.shuffle(1);
    b.mint_to(2);
    v.push(b.case);
    // migrations (older stored version, same version, refused, by a stranger) and factory governance around every
    // kind of supply event: the counts, the remaining ids and the minted ids must be what they were
    let older = || Some(("crates.io:sg-minter".to_string(), "0.0.1".to_string()));
    let mut b = TmB::new("tm-corpus-migrate", &[1], 6, 3, 0);
    b.push(tmw::Op::Migrate { who: tmw::CREATOR, stored: older() });
    b.merge(1, tmw::Recip::None);
    b.push(tmw::Op::Migrate { who: tmw::CREATOR, stored: older() });
    b.mint_to(2);
    b.push(tmw::Op::Migrate { who: tmw::CREATOR, stored: None });
    b.mint_for(6, 3);
    b.push(tmw::Op::Migrate { who: 5, stored: older() });
    b.push(tmw::Op::Migrate { who: tmw::CREATOR, stored: Some(("crates.io:sg-minter".to_string(), "99.0.0".to_string())) });
    b.shuffle(2);
    b.push(tmw::Op::Migrate { who: tmw::CREATOR, stored: older() });
    b.push(tmw::Op::SudoParams { max_limit: Some(2), airdrop_price: Some(5), shuffle_fee: Some(600), add_code_id: Some(9), offset: None, frozen: Some(true), code_id: None, rm_code_id: None, creation_fee: None, max_token_limit: Some(1), airdrop_fee_bps: None });
    b.mint_to(2);
    b.push(tmw::Op::MintTo { caller: tmw::CREATOR, recip: tmw::Recip::Addr(2), funds: vec![(0, 5)] });
    b.push(tmw::Op::SudoParams { max_limit: None, airdrop_price: Some(0), shuffle_fee: Some(500), add_code_id: None, offset: None, frozen: None, code_id: None, rm_code_id: None, creation_fee: None, max_token_limit: None, airdrop_fee_bps: None });
    b.merge(3, tmw::Recip::None);
    b.push(tmw::Op::BurnRemaining { caller: tmw::CREATOR, funds: vec![] });
    b.push(tmw::Op::Migrate { who: tmw::CREATOR, stored: older() });
    b.mint_to(2);
    b.merge(3, tmw::Recip::None);
    b.shuffle(2);
    v.push(b.case);
    // mint-for boundaries: 0, n+1, n, 1, and an id a deposit already took
    let mut b = TmB::new("tm-corpus-mintfor-bounds", &[1], 4, 3, 1000);
    b.mint_for(0, 1);
    b.mint_for(5, 1);
    b.mint_for(4, 1);
    b.mint_for(1, 1);
    b.merge(2, tmw::Recip::None);
    for t in 1..=4 {
        b.mint_for(t, 3);
    }
    b.mint_to(3);
    v.push(b.case);
    v
}

fn gen_tm_case(rng: &mut Rng, idx: usize, thorough: bool) -> tmw::Case {
    let sizes: &[u32] = if thorough { &[1, 2, 3, 5, 7, 12, 30, 49, 50, 51, 52, 60] } else { &[1, 2, 3, 5, 12, 49, 50, 51, 60] };
    let n = *rng.pick(sizes);
    let req: Vec<u32> = match rng.below(4) {
        0 => vec![2],
        1 => vec![1, 1],
        _ => vec![1],
    };
    let limit = rng.range(1, 3) as u32;
    let price = *rng.pick(&[0u128, 0, 1000]);
    let mut b = TmB::new(&format!("tm-random-{}", idx), &req, n, limit, price);
    let len = rng.range(25, 45) as usize + n as usize;
    let mut burn_budget = if rng.chance(1, 3) { 1 } else { 0 };
    for i in 0..len {
        if rng.chance(1, 4) {
            b.t += rng.range(1, 5) * 1_000_000_000;
        }
        if rng.chance(1, 10) {
            let stored = match rng.below(4) {
                0 => None,
                1 => Some(("crates.io:sg-minter".to_string(), "99.0.0".to_string())),
                _ => Some(("crates.io:sg-minter".to_string(), format!("{}.{}.{}", rng.below(4), rng.below(20), rng.below(3)))),
            };
            b.push(tmw::Op::Migrate { who: if rng.chance(4, 5) { tmw::CREATOR } else { rng.below(6) as usize }, stored });
        }
        let who_any = rng.below(6) as usize;
        match rng.below(100) {
            0..=29 => {
                let user = rng.range(1, 3) as usize;
                let recip = if rng.chance(1, 3) { tmw::Recip::Addr(rng.below(6) as usize) } else { tmw::Recip::None };
                if rng.chance(3, 4) {
                    b.merge(user, recip);
                } else {
                    b.dep(rng.below(req.len() as u64 + 1) as usize, user, recip);
                }
            }
            30..=57 => {
                let caller = if rng.chance(9, 10) { tmw::CREATOR } else { who_any };
                let f = if rng.chance(9, 10) { b.pay() } else { vec![(0, price + 1)] };
                b.push(tmw::Op::MintTo { caller, recip: tmw::Recip::Addr(rng.below(6) as usize), funds: f });
            }
            58..=75 => {
                let tid = match rng.below(10) {
                    0 => 0,
                    1 => n + 1,
                    _ => rng.range(1, n as u64) as u32,
                };
                let caller = if rng.chance(9, 10) { tmw::CREATOR } else { who_any };
                let f = b.pay();
                b.push(tmw::Op::MintFor { caller, tid, recip: tmw::Recip::Addr(rng.below(6) as usize), funds: f });
            }
            76..=87 => b.push(tmw::Op::Shuffle { caller: who_any, funds: if rng.chance(5, 6) { vec![(0, 500)] } else { vec![(0, 499)] } }),
            88..=93 => b.push(tmw::Op::Purge { caller: who_any, funds: vec![] }),
            _ => {
                if burn_budget > 0 && i > len / 2 {
                    burn_budget -= 1;
                    b.push(tmw::Op::BurnRemaining { caller: tmw::CREATOR, funds: vec![] });
                } else {
                    b.push(tmw::Op::BurnRemaining { caller: 5, funds: vec![] });
                }
            }
        }
    }
    // drive to sell-out with admin mints, then everything that could create a token must fail at 0
    if rng.chance(2, 3) {
        for _ in 0..n {
            b.mint_to(rng.below(6) as usize);
        }
    }
    b.mint_to(1);
    b.mint_for(1, 1);
    b.merge(3, tmw::Recip::Addr(4));
    b.shuffle(5);
    b.push(tmw::Op::Purge { caller: 5, funds: vec![] });
    b.merge(3, tmw::Recip::Addr(4));
    b.case
}

/// greedy shrinking: drop every step whose removal keeps a violation with the same key
fn shrink_tm(c: &tmw::Case, key: &str) -> tmw::Case {
    let has = |c: &tmw::Case| run_tm_case(c).violations.iter().any(|(k, _)| k == key);
    let mut cur = c.clone();
    let mut i = cur.steps.len();
    while i > 0 {
        i -= 1;
        let mut t = cur.clone();
        t.steps.remove(i);
        if has(&t) {
            cur = t;
        }
    }
    let used: BTreeSet<(usize, u64)> = cur
        .steps
        .iter()
        .filter_map(|s| match &s.op {
            tmw::Op::Send { coll, tok, .. } => Some((*coll, *tok)),
            _ => None,
        })
        .collect();
    let mut t = cur.clone();
    t.src.retain(|(c, k, _)| used.contains(&(*c, *k)));
    if has(&t) {
        cur = t;
    }
    cur
}

/// runs part 3; returns (#cases, #violations)
fn run_tm_part(a: &Args, out: &OutDir, rep: &mut Report, replay: Option<tmw::Case>, nviol_before: usize) -> (usize, usize) {
    let cases: Vec<tmw::Case> = match replay {
        Some(c) => vec![c],
        None => {
            let mut rng = Rng::new(a.seed ^ 0x7E7E_7E7E);
            let mut v = tm_corpus();
            for i in 0..(if a.thorough() { 300 } else { 30 }) {
                v.push(gen_tm_case(&mut rng, i, a.thorough()));
            }
            v
        }
    };
    let mut coq_cases = vec![];
    let mut nviol = 0usize;
    let mut samples = 0;
    for (i, c) in cases.iter().enumerate() {
        let r = run_tm_case(c);
        rep.evaluations += r.steps;
        for (k, v) in &r.hist {
            *rep.histogram.entry(k.clone()).or_insert(0) += v;
        }
        if r.ok_steps > 0 {
            rep.distinct_nontrivial += r.ok_steps;
        }
        for (key, what) in r.violations.iter().take(3) {
            nviol += 1;
            if nviol_before + nviol <= 60 {
                let shrunk = if nviol <= 3 && a.replay.is_none() { shrink_tm(c, key) } else { c.clone() };
                let body = format!(
                    "{{\n \"property\": \"C01\",\n \"part\": \"tm\",\n \"key\": {},\n \"violation\": {},\n \"case\": {}\n}}\n",
                    serde_json::to_string(key).unwrap(),
                    serde_json::to_string(what).unwrap(),
                    serde_json::to_string(&shrunk).unwrap()
                );
                let path = out.write_replay(&format!("C01-tm-{}.json", nviol), &body);
                rep.violations.push(Violation { key: key.clone(), what: what.clone(), replay: path });
            }
        }
        if samples < 1 && i % 11 == 3 {
            samples += 1;
            rep.samples.push(serde_json::json!({"variant": TM_VARIANT, "num_tokens": c.num_tokens, "requirements": format!("{:?}", c.req),
                "first_ops": c.steps.iter().take(8).map(|o| format!("{:?}", o.op)).collect::<Vec<_>>(), "steps": r.steps, "ok_steps": r.ok_steps}));
        }
        if let Some(cq) = r.coq {
            coq_cases.push(cq);
        }
    }
    rep.rule.push_str(" || part 3: histories of deposit-triggered mints (SendNft of the required source tokens, own or explicit recipient) interleaved with MintTo/MintFor/Shuffle/Purge/BurnRemaining by admin, users and stranger on the token-merge minter created through the token-merge factory, num_tokens 1..60, up to and past sell-out; same counting rules");
    out.write_cases("C01tm", "From Coq Require Import String. From LP Require Import Num Pay Sg1 TokenMerge TokenMergeMigrate C17Corr.", "c17_case", "c17_check", &coq_cases, 6, rep);
    (cases.len(), nviol)
}
