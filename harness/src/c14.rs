//! C14 — Merkle whitelist membership is complete and sound.
//! Real trees (rs_merkle, SHA-256 and BLAKE3/16) are built for generated member lists, the
//! two real whitelist contracts are instantiated with the roots on a simulated chain, and
//! HasMember / Execute / MerkleRoot(s) are driven with every member's own proof and with
//! adversarial (member, proof) pairs.  Every observation is printed as a Coq term for the
//! model comparison; the property text is evaluated directly on the answers as monitors.
use crate::chain::{self, App};
use crate::util::*;
use crate::w_merkle::*;
use crate::Args;
use cosmwasm_std::{coin, Addr, Timestamp};
use cw_multi_test::Executor;
use serde::{Deserialize, Serialize};
use serde_json::json;
use std::collections::{BTreeMap, BTreeSet};

const BASE: u64 = chain::GENESIS_NS + 1_000_000_000; // block time of a fresh chain
const SEC: u64 = 1_000_000_000;

// ---------------------------------------------------------------- member lists
#[derive(Clone, Debug, Serialize, Deserialize, PartialEq, Eq, PartialOrd, Ord)]
pub enum Members {
    /// n address-shaped strings (stars1 + 38 bech32 characters); (i, j) in dups: member j := member i
    Stars { n: usize, salt: u64, dups: Vec<(usize, usize)> },
    /// the repo tests' style: addr0001, addr0002, ...
    Short { n: usize },
    /// what the Merkle minters compose: [stage] ++ address ++ [allocation]
    Leaves { n: usize, salt: u64, stage: Option<u32>, alloc: bool },
    Explicit(Vec<String>),
}
impl Members {
    pub fn list(&self) -> Vec<String> {
        match self {
            Members::Stars { n, salt, dups } => {
                let mut v: Vec<String> = (0..*n as u64).map(|i| stars_addr(i, *salt)).collect();
                for (i, j) in dups {
                    if *i < v.len() && *j < v.len() {
                        v[*j] = v[*i].clone();
                    }
                }
                v
            }
            Members::Short { n } => (1..=*n).map(|i| format!("addr{:04}", i)).collect(),
            Members::Leaves { n, salt, stage, alloc } => (0..*n as u64)
                .map(|i| leaf_string(*stage, &stars_addr(i, *salt), if *alloc { Some(alloc_of(i)) } else { None }))
                .collect(),
            Members::Explicit(v) => v.clone(),
        }
    }
}
/// the same hex digits in another spelling: 0 as is, 1 upper case, 2 alternating case
fn spell(root: &str, mode: u8) -> String {
    match mode {
        0 => root.to_string(),
        1 => root.to_uppercase(),
        2 => root.chars().enumerate().map(|(i, c)| if i % 2 == 0 { c.to_ascii_uppercase() } else { c }).collect(),
        // 3.. : NOT the same root: one hex digit changed (last / first / middle), halves swapped
        3 => flip_hex_char(root, root.len() - 1),
        4 => flip_hex_char(root, 0),
        5 => flip_hex_char(root, root.len() / 2),
        _ => format!("{}{}", &root[root.len() / 2..], &root[..root.len() / 2]),
    }
}
fn alloc_of(i: u64) -> u32 {
    [1u32, 2, 5, 10, 49, 100, 4294967295, 0][(i % 8) as usize]
}
/// the member string the Merkle minters hand to HasMember (Rust's own formatting)
fn leaf_string(stage: Option<u32>, sender: &str, alloc: Option<u32>) -> String {
    match (stage, alloc) {
        (None, Some(a)) => format!("{}{}", sender, a),
        (Some(s), None) => format!("{}{}", s, sender),
        (Some(s), Some(a)) => format!("{}{}{}", s, sender, a),
        (None, None) => sender.to_string(),
    }
}

// ---------------------------------------------------------------- cases
#[derive(Clone, Debug, Serialize, Deserialize, PartialEq, Eq, PartialOrd, Ord)]
pub enum FlatOpKind {
    UpdateStart(u64),
    UpdateEnd(u64),
    UpdateAdmins(Vec<String>),
    Freeze,
    /// JSON that is not a variant of ExecuteMsg
    Raw(String),
    /// rewrite the stored cw2 record to (name or the contract's own, version), then migrate_contract
    Migrate { name: Option<String>, version: String },
}
#[derive(Clone, Debug, Serialize, Deserialize, PartialEq, Eq, PartialOrd, Ord)]
pub enum FlatOp {
    Exec { now: u64, sender: String, kind: FlatOpKind },
    Query { member: String, proof: Vec<String> },
}
#[derive(Clone, Debug, Serialize, Deserialize, PartialEq, Eq, PartialOrd, Ord)]
pub enum TieredOpKind {
    UpdateStage { id: u32, start: Option<u64>, end: Option<u64>, denom: Option<String>, limit: Option<u32> },
    UpdateAdmins(Vec<String>),
    Freeze,
    Raw(String),
    Migrate { name: Option<String>, version: String },
}
#[derive(Clone, Debug, Serialize, Deserialize, PartialEq, Eq, PartialOrd, Ord)]
pub enum TieredOp {
    Exec { now: u64, sender: String, kind: TieredOpKind },
    Query { now: u64, member: String, proof: Vec<String> },
}

#[derive(Clone, Debug, Serialize, Deserialize, PartialEq, Eq, PartialOrd, Ord)]
pub enum Case {
    /// tree shape: rs_merkle's root and proofs against the model's
    Tree { blake: bool, members: Members, positions: Option<Vec<usize>> },
    /// HasMember on whitelist-merkletree instantiated with the root of `members`
    FlatQuery { members: Members, label: String, member: String, proof: Vec<String> },
    /// HasMember on whitelist-merkletree instantiated with an arbitrary root string
    FlatRootQuery { root: String, label: String, member: String, proof: Vec<String> },
    /// HasMember on tiered-whitelist-merkletree: one list per stage, `nroots` of the roots stored
    TieredQuery { lists: Vec<Members>, stages: Vec<StageSpec>, nroots: usize, #[serde(default)] spelling: u8, at: u64, label: String, member: String, proof: Vec<String> },
    /// `members`: the list whose tree root `init.root` is; when given, after every Execute / Migrate
    /// step every entry's own proof must still be accepted and outsiders rejected
    FlatHist { now: u64, init: FlatInit, ops: Vec<FlatOp>, #[serde(default)] members: Option<Members> },
    /// `lists`: one list per stored root (same role as `members`)
    TieredHist { now: u64, init: TieredInit, ops: Vec<TieredOp>, #[serde(default)] lists: Vec<Members> },
    Leaf { stage: Option<u32>, sender: String, alloc: Option<u32> },
    /// a factory-created Merkle vending minter (variant 4 / 5 of w_sale) with a Merkle whitelist
    /// (flat or one-stage tiered) over `entries`; `sender` mints presenting entry `proof_of`'s proof
    /// `migrate_from`: before the mint, whitelist and minter are migrated by their wasm admin from this stored version
    Mint { variant: usize, tiered: bool, entries: Vec<(Option<u32>, String, Option<u32>)>, sender: String, stage: Option<u32>, alloc: Option<u32>, proof_of: usize, label: String, #[serde(default)] migrate_from: Option<String> },
}

fn kind(c: &Case) -> &'static str {
    match c {
        Case::Tree { blake: false, .. } => "tree-sha256",
        Case::Tree { blake: true, .. } => "tree-blake3_16",
        Case::FlatQuery { .. } => "flat-has_member",
        Case::FlatRootQuery { .. } => "flat-has_member-given-root",
        Case::TieredQuery { .. } => "tiered-has_member",
        Case::FlatHist { .. } => "flat-history",
        Case::TieredHist { .. } => "tiered-history",
        Case::Leaf { .. } => "leaf-format",
        Case::Mint { .. } => "minter-mint-with-proof",
    }
}

// ---------------------------------------------------------------- worlds (cached)
struct World {
    app: App,
    flat_code: u64,
    tiered_code: u64,
    flat: BTreeMap<String, (Addr, Option<std::rc::Rc<Built>>)>,
    tiered: BTreeMap<String, (Addr, Vec<std::rc::Rc<Built>>)>,
    trees: BTreeMap<String, std::rc::Rc<Built>>,
}
impl World {
    fn new() -> Self {
        let mut app = fresh_app();
        let flat_code = app.store_code(chain::whitelist_merkletree());
        let tiered_code = app.store_code(chain::tiered_whitelist_merkletree());
        World { app, flat_code, tiered_code, flat: BTreeMap::new(), tiered: BTreeMap::new(), trees: BTreeMap::new() }
    }
    fn tree(&mut self, blake: bool, m: &Members) -> std::rc::Rc<Built> {
        let key = format!("{}:{}", blake, serde_json::to_string(m).unwrap());
        if let Some(t) = self.trees.get(&key) {
            return t.clone();
        }
        let t = std::rc::Rc::new(build_tree(blake, &m.list(), None));
        self.trees.insert(key, t.clone());
        t
    }
    fn flat_for(&mut self, m: &Members) -> (Addr, std::rc::Rc<Built>) {
        let key = serde_json::to_string(m).unwrap();
        if let Some((a, Some(b))) = self.flat.get(&key) {
            return (a.clone(), b.clone());
        }
        let b = self.tree(false, m);
        chain::set_time(&mut self.app, BASE);
        let addr = instantiate_flat(&mut self.app, self.flat_code, &flat_default(&b.root_hex(), BASE)).expect("instantiate whitelist-merkletree");
        self.flat.insert(key, (addr.clone(), Some(b.clone())));
        (addr, b)
    }
    fn flat_root(&mut self, root: &str) -> Result<Addr, String> {
        let key = format!("root:{}", root);
        if let Some((a, _)) = self.flat.get(&key) {
            return Ok(a.clone());
        }
        chain::set_time(&mut self.app, BASE);
        let addr = instantiate_flat(&mut self.app, self.flat_code, &flat_default(root, BASE))?;
        self.flat.insert(key, (addr.clone(), None));
        Ok(addr)
    }
    fn tiered_for(&mut self, lists: &[Members], stages: &[StageSpec], nroots: usize, spelling: u8) -> (Addr, Vec<std::rc::Rc<Built>>) {
        let key = serde_json::to_string(&(lists, stages, nroots, spelling)).unwrap();
        if let Some((a, b)) = self.tiered.get(&key) {
            return (a.clone(), b.clone());
        }
        let built: Vec<_> = lists.iter().map(|m| self.tree(true, m)).collect();
        let roots: Vec<String> = built.iter().take(nroots).map(|b| spell(&b.root_hex(), spelling)).collect();
        chain::set_time(&mut self.app, BASE);
        let init = TieredInit {
            roots,
            uris: None,
            stages: stages.to_vec(),
            admins: vec![CREATOR.to_string()],
            mutable: true,
            funds: vec![(NATIVE.to_string(), FEE)],
        };
        let addr = instantiate_tiered(&mut self.app, self.tiered_code, &init).expect("instantiate tiered-whitelist-merkletree");
        self.tiered.insert(key, (addr.clone(), built.clone()));
        (addr, built)
    }
}

// ---------------------------------------------------------------- running one case
struct Outcome {
    coq: String,
    viol: Vec<(String, String)>, // (key, what)
    nontrivial: bool,
    hist: Vec<String>,
    observed: String,
    steps: u64,
}

fn coq_coins(fs: &[(String, u128)], denoms: &mut Ids) -> String {
    coq_list(&fs.iter().map(|(d, a)| format!("mkCoin {} {}", denoms.id(d), a)).collect::<Vec<_>>())
}
fn uri_ok(u: &Option<String>) -> bool {
    // the harness's fixed pool of uris: valid ones start with a scheme
    match u {
        None => true,
        Some(s) => s.starts_with("https://") || s.starts_with("ipfs://"),
    }
}
fn addr_ok(a: &str) -> bool {
    a.len() >= 3 && a.len() <= 90 && a.to_lowercase() == a
}
fn coq_stage(i: usize, s: &StageSpec, denoms: &mut Ids) -> String {
    format!("mkStage {} {} {} {} {}", i, s.start, s.end, denoms.id(&s.denom), s.limit)
}
fn coq_opt_u64(o: Option<u64>) -> String {
    coq_opt_n(o)
}

/// first stage whose window strictly contains t, None when t is in no window; Err when t
/// sits on some window's edge (the property text does not say who owns an edge instant)
fn active_by_text(stages: &[StageSpec], t: u64) -> Result<Option<usize>, ()> {
    if stages.iter().any(|s| s.start == t || s.end == t) {
        return Err(());
    }
    Ok(stages.iter().position(|s| s.start < t && t < s.end))
}

fn run_case(w: &mut World, c: &Case) -> Outcome {
    let mut viol = vec![];
    let mut hist = vec![];
    match c {
        Case::Tree { blake, members, positions } => {
            let ms = members.list();
            let b = match positions {
                Some(p) => std::rc::Rc::new(build_tree(*blake, &ms, Some(p))),
                None => w.tree(*blake, members),
            };
            let pos: Vec<usize> = positions.clone().unwrap_or_else(|| (0..ms.len()).collect());
            let proofs: Vec<String> = pos
                .iter()
                .map(|&i| format!("({}%nat, {})", i, coq_list(&b.proofs[i].iter().map(|h| coq_bytes(h)).collect::<Vec<_>>())))
                .collect();
            let coq = format!("CTree {} {} {} {}", coq_table(&b.table), coq_strs(&ms), coq_bytes(&b.root), coq_list(&proofs));
            hist.push(format!("{}:n={}:ok", kind(c), if ms.len() > 65 { "big".to_string() } else { ms.len().to_string() }));
            Outcome { coq, viol, nontrivial: true, hist, observed: format!("root {}", b.root_hex()), steps: 1 + pos.len() as u64 }
        }
        Case::FlatQuery { members, label, member, proof } => {
            let (addr, b) = w.flat_for(members);
            let r = has_member(&w.app, &addr, false, member, proof);
            let listed = b.members.iter().any(|m| m == member);
            let wf = proof.iter().all(|h| wellformed_hash(h, 32));
            if !wf && r.is_ok() {
                viol.push(("C14:flat-malformed-not-error".to_string(), format!("malformed proof element answered {:?}", r)));
            }
            if label == "own" && r != Ok(true) {
                viol.push(("C14:flat-member-rejected".to_string(), format!("listed entry with its own proof answered {:?}", r)));
            }
            if !listed && r == Ok(true) {
                viol.push(("C14:flat-nonmember-accepted".to_string(), format!("unlisted string accepted ({})", label)));
            }
            let t = fold_table(false, member, proof);
            let coq = format!("CQuery {} {} {} {} {}", coq_table(&t), coq_str(&b.root_hex()), coq_str(member), coq_strs(proof), coq_res_bool(&r));
            hist.push(format!("flat:{}:{}", label, res_tag(&r)));
            Outcome { coq, viol, nontrivial: wf, hist, observed: format!("{:?}", r), steps: 1 }
        }
        Case::FlatRootQuery { root, label, member, proof } => {
            let addr = w.flat_root(root).expect("instantiate with given root");
            let r = has_member(&w.app, &addr, false, member, proof);
            let wf = proof.iter().all(|h| wellformed_hash(h, 32));
            if !wf && r.is_ok() {
                viol.push(("C14:flat-malformed-not-error".to_string(), format!("malformed proof element answered {:?}", r)));
            }
            if label.starts_with("wrong-root") && r == Ok(true) {
                viol.push((
                    "C14:flat-wrong-root-accepted".to_string(),
                    format!("the stored root {} is not the root of the tree, yet an entry of that tree is accepted ({})", root, label),
                ));
            }
            if label == "own-uppercase-root" && r != Ok(true) {
                viol.push((
                    "C14:flat-uppercase-root-never-matches".to_string(),
                    format!("root given in upper/mixed-case hex passes instantiate, then the listed entry with its own proof answers {:?}", r),
                ));
            }
            let t = fold_table(false, member, proof);
            let coq = format!("CQuery {} {} {} {} {}", coq_table(&t), coq_str(root), coq_str(member), coq_strs(proof), coq_res_bool(&r));
            hist.push(format!("flat:{}:{}", label, res_tag(&r)));
            Outcome { coq, viol, nontrivial: wf, hist, observed: format!("{:?}", r), steps: 1 }
        }
        Case::TieredQuery { lists, stages, nroots, spelling, at, label, member, proof } => {
            let (addr, built) = w.tiered_for(lists, stages, *nroots, *spelling);
            chain::set_time(&mut w.app, *at);
            let r = has_member(&w.app, &addr, true, member, proof);
            let wf = proof.iter().all(|h| wellformed_hash(h, 16));
            if *spelling >= 3 && r == Ok(true) {
                viol.push((
                    "C14:tiered-wrong-root-accepted".to_string(),
                    "the stored roots are not the roots of the trees, yet an entry is accepted".to_string(),
                ));
            }
            match active_by_text(stages, *at) {
                Err(()) => {
                    // an edge instant: the text does not say who owns it, the contract's own
                    // ActiveStage query does; HasMember must use that stage's root
                    let act = catch(|| {
                        w.app.wrap().query_wasm_smart::<Option<tiered_whitelist_merkletree::state::Stage>>(
                            addr.clone(),
                            &tiered_whitelist_merkletree::msg::QueryMsg::ActiveStage {},
                        )
                    });
                    if let Ok(Ok(Some(st))) = act {
                        let own = label.split('@').next().unwrap_or("");
                        if *spelling == 0 && own == format!("own-{}", st.name) && r != Ok(true) {
                            viol.push((
                                "C14:tiered-active-stage-inconsistent".to_string(),
                                format!("ActiveStage reports {} at {} but its entry with its own proof answers {:?}", st.name, at, r),
                            ));
                        }
                    }
                }
                Ok(None) => {
                    if r.is_ok() {
                        viol.push(("C14:tiered-inactive-answer".to_string(), format!("no stage active at {} but HasMember answered {:?}", at, r)));
                    }
                }
                Ok(Some(i)) => {
                    if i < *nroots {
                        let listed = built[i].members.iter().any(|m| m == member);
                        if !wf && r.is_ok() {
                            viol.push(("C14:tiered-malformed-not-error".to_string(), format!("malformed proof element answered {:?}", r)));
                        }
                        if label == &format!("own-stage{}", i) && r != Ok(true) && *spelling < 3 {
                            if *spelling != 0 {
                                viol.push((
                                    "C14:tiered-uppercase-root-never-matches".to_string(),
                                    format!("roots given in upper/mixed-case hex pass instantiate, then an entry of the active stage {} with its own proof answers {:?}", i, r),
                                ));
                            } else {
                                viol.push(("C14:tiered-member-rejected".to_string(), format!("entry of the active stage {} with its own proof answered {:?}", i, r)));
                            }
                        }
                        if !listed && r == Ok(true) {
                            viol.push((
                                "C14:tiered-nonmember-accepted".to_string(),
                                format!("string not listed in the active stage {} accepted ({})", i, label),
                            ));
                        }
                    } else if r == Ok(true) {
                        viol.push(("C14:tiered-no-root-positive".to_string(), format!("active stage {} has no stored root but HasMember is true", i)));
                    }
                }
            }
            let mut denoms = denom_ids();
            let t = fold_table(true, member, proof);
            let roots: Vec<String> = built.iter().take(*nroots).map(|b| spell(&b.root_hex(), *spelling)).collect();
            let coq = format!(
                "CTwQuery {} {} {} {} {} {} {}",
                coq_table(&t),
                at,
                coq_list(&stages.iter().enumerate().map(|(i, s)| coq_stage(i, s, &mut denoms)).collect::<Vec<_>>()),
                coq_strs(&roots),
                coq_str(member),
                coq_strs(proof),
                coq_res_bool(&r)
            );
            hist.push(format!("tiered:{}:{}", label.split('@').next().unwrap_or(label), res_tag(&r)));
            Outcome { coq, viol, nontrivial: wf && r.is_ok(), hist, observed: format!("{:?}", r), steps: 1 }
        }
        Case::FlatHist { now, init, ops, members } => {
            let swept: Option<Built> = members.as_ref().map(|m| build_tree(false, &m.list(), None));
            let mut addrs = addr_ids();
            let mut denoms = denom_ids();
            let mut app = fresh_app();
            let code = app.store_code(chain::whitelist_merkletree());
            chain::set_time(&mut app, *now);
            let inst = instantiate_flat(&mut app, code, init);
            let mut table: Vec<(Vec<u8>, Vec<u8>)> = vec![];
            let mut coq_ops = vec![];
            let mut steps = 1;
            let mut any_ok = false;
            hist.push(format!("flat:instantiate:{}", if inst.is_ok() { "ok" } else { "err" }));
            if let Ok(addr) = &inst {
                let root0 = query_root_flat(&app, addr).unwrap_or_default();
                match denotes(&init.root, 32) {
                    None => viol.push((
                        "C14:flat-accepted-root-unusable".to_string(),
                        format!("instantiate accepted the root string {:?}, which does not denote 32 bytes: nothing can ever verify against it", init.root),
                    )),
                    Some(_) => {
                        if let Some(b) = &swept {
                            let mut v2 = vec![];
                            steps += sweep_flat(&app, addr, b, "instantiate", &mut v2);
                            if v2.iter().any(|(k, _)| k == "C14:flat-member-rejected") {
                                viol.push((
                                    "C14:flat-accepted-root-unusable".to_string(),
                                    format!("instantiate accepted the spelling {:?} of the tree's root, but its entries are rejected with their own proofs", init.root),
                                ));
                            }
                            viol.extend(v2);
                        }
                    }
                }
                if !same_root(&root0, &init.root, 32) {
                    viol.push(("C14:flat-root-not-stored".to_string(), format!("instantiated with root {} but MerkleRoot answers {}", init.root, root0)));
                }
                for op in ops {
                    steps += 1;
                    match op {
                        FlatOp::Exec { now, sender, kind: FlatOpKind::Migrate { name, version } } => {
                            chain::set_time(&mut app, *now);
                            crate::w_migrate::set_cw2(&mut app, addr, name.as_deref().unwrap_or(FLAT_CW2), version);
                            let before = chain::storage_digest(&app, addr);
                            let r = match catch(|| app.migrate_contract(Addr::unchecked(sender.as_str()), addr.clone(), &cosmwasm_std::Empty {}, code)) {
                                Ok(Ok(_)) => Ok(()),
                                Ok(Err(e)) => Err(format!("{:#}", e)),
                                Err(p) => Err(p),
                            };
                            any_ok |= r.is_ok();
                            let root = query_root_flat(&app, addr).unwrap_or_default();
                            let what = format!("migrate from ({}, {}) by {} ({})", name.as_deref().unwrap_or("own name"), version, sender, if r.is_ok() { "ok" } else { "err" });
                            if root != root0 {
                                viol.push(("C14:flat-root-changed".to_string(), format!("MerkleRoot was {} and is {} after {}", root0, root, what)));
                            }
                            if r.is_err() && chain::storage_digest(&app, addr) != before {
                                viol.push(("C14:flat-rejected-call-wrote".to_string(), format!("{} was rejected but storage changed", what)));
                            }
                            if let Some(b) = &swept {
                                steps += sweep_flat(&app, addr, b, &what, &mut viol);
                            }
                            hist.push(format!("flat:migrate:{}", if r.is_ok() { "ok" } else { "err" }));
                            coq_ops.push(format!(
                                "WMigrate {} {} {} {} {}",
                                coq_bool(sender == CREATOR),
                                coq_bool(name.is_none()),
                                coq_version(version),
                                coq_bool(r.is_ok()),
                                coq_str(&root)
                            ));
                        }
                        FlatOp::Exec { now, sender, kind } => {
                            chain::set_time(&mut app, *now);
                            let before = chain::storage_digest(&app, addr);
                            use whitelist_mtree::msg::ExecuteMsg as E;
                            let (r, tag, coqm) = match kind {
                                FlatOpKind::UpdateStart(t) => (
                                    chain::exec(&mut app, sender, addr, &E::UpdateStartTime(Timestamp::from_nanos(*t)), &[]),
                                    "update_start_time",
                                    Some(format!("(WUpdateStartTime {})", t)),
                                ),
                                FlatOpKind::UpdateEnd(t) => (
                                    chain::exec(&mut app, sender, addr, &E::UpdateEndTime(Timestamp::from_nanos(*t)), &[]),
                                    "update_end_time",
                                    Some(format!("(WUpdateEndTime {})", t)),
                                ),
                                FlatOpKind::UpdateAdmins(a) => (
                                    chain::exec(&mut app, sender, addr, &E::UpdateAdmins { admins: a.clone() }, &[]),
                                    "update_admins",
                                    Some(format!(
                                        "(WUpdateAdmins {} {})",
                                        coq_list(&a.iter().map(|x| addrs.id(x).to_string()).collect::<Vec<_>>()),
                                        coq_bool(a.iter().all(|x| addr_ok(x)))
                                    )),
                                ),
                                FlatOpKind::Freeze => (chain::exec(&mut app, sender, addr, &E::Freeze {}, &[]), "freeze", Some("WFreeze".to_string())),
                                FlatOpKind::Raw(j) => {
                                    let v: serde_json::Value = serde_json::from_str(j).expect("raw json");
                                    (chain::exec(&mut app, sender, addr, &v, &[]), "not-an-execute-msg", None)
                                }
                                FlatOpKind::Migrate { .. } => unreachable!(),
                            };
                            any_ok |= r.is_ok();
                            let root = query_root_flat(&app, addr).unwrap_or_default();
                            if root != root0 {
                                viol.push((
                                    "C14:flat-root-changed".to_string(),
                                    format!("MerkleRoot was {} and is {} after {} by {} ({})", init.root, root, tag, sender, if r.is_ok() { "ok" } else { "err" }),
                                ));
                            }
                            if r.is_err() && chain::storage_digest(&app, addr) != before {
                                viol.push(("C14:flat-rejected-call-wrote".to_string(), format!("{} by {} was rejected but storage changed", tag, sender)));
                            }
                            if let Some(b) = &swept {
                                steps += sweep_flat(&app, addr, b, &format!("{} by {}", tag, sender), &mut viol);
                            }
                            hist.push(format!("flat:{}:{}", tag, if r.is_ok() { "ok" } else { "err" }));
                            coq_ops.push(match coqm {
                                Some(m) => format!("WExec {} {} {} {} {}", now, addrs.id(sender), m, coq_bool(r.is_ok()), coq_str(&root)),
                                None => format!("WUnknown {} {} {} {}", now, addrs.id(sender), coq_bool(r.is_ok()), coq_str(&root)),
                            });
                        }
                        FlatOp::Query { member, proof } => {
                            let r = has_member(&app, addr, false, member, proof);
                            table.extend(fold_table(false, member, proof));
                            hist.push(format!("flat:hist-query:{}", res_tag(&r)));
                            coq_ops.push(format!("WQuery {} {} {}", coq_str(member), coq_strs(proof), coq_res_bool(&r)));
                        }
                    }
                }
            }
            // migrate (same code, by the chain-level admin and by a stranger): the root stays
            if let Ok(addr) = &inst {
                let root0 = query_root_flat(&app, addr).unwrap_or_default();
                for who in [CREATOR, STRANGER] {
                    let r = catch(|| app.migrate_contract(Addr::unchecked(who), addr.clone(), &cosmwasm_std::Empty {}, code));
                    steps += 1;
                    let root = query_root_flat(&app, addr).unwrap_or_default();
                    hist.push(format!("flat:migrate:{}", if matches!(r, Ok(Ok(_))) { "ok" } else { "err" }));
                    if root != root0 {
                        viol.push(("C14:flat-root-changed".to_string(), format!("MerkleRoot was {} and is {} after migrate by {}", init.root, root, who)));
                    }
                }
            }
            table.sort();
            table.dedup();
            let coq = format!(
                "CWl {} {} {} {} {} {} {} {} {} {} {} {} {}",
                coq_table(&table),
                now,
                coq_coins(&init.funds, &mut denoms),
                coq_str(&init.root),
                coq_bool(uri_ok(&init.uri)),
                init.start,
                init.end,
                init.limit,
                coq_list(&init.admins.iter().map(|x| addrs.id(x).to_string()).collect::<Vec<_>>()),
                coq_bool(init.admins.iter().all(|x| addr_ok(x))),
                coq_bool(init.mutable),
                coq_bool(inst.is_ok()),
                coq_list(&coq_ops)
            );
            Outcome { coq, viol, nontrivial: inst.is_ok() && (any_ok || ops.is_empty()), hist, observed: format!("instantiate {:?}", inst.as_ref().map(|a| a.to_string())), steps }
        }
        Case::TieredHist { now, init, ops, lists } => {
            let swept: Vec<Built> = lists.iter().map(|m| build_tree(true, &m.list(), None)).collect();
            let mut addrs = addr_ids();
            let mut denoms = denom_ids();
            let mut app = fresh_app();
            let code = app.store_code(chain::tiered_whitelist_merkletree());
            chain::set_time(&mut app, *now);
            let inst = instantiate_tiered(&mut app, code, init);
            let mut table: Vec<(Vec<u8>, Vec<u8>)> = vec![];
            let mut coq_ops = vec![];
            let mut steps = 1;
            let mut any_ok = false;
            hist.push(format!("tiered:instantiate:{}", if inst.is_ok() { "ok" } else { "err" }));
            // the harness's own ledger: identity i (list i, root i) and its window; windows follow
            // accepted updates that respect the documented rule, identities never move
            let mut ledger: Vec<StageSpec> = init.stages.clone();
            if let Ok(addr) = &inst {
                let roots0 = query_roots_tiered(&app, addr).unwrap_or_default();
                for (k, r) in init.roots.iter().enumerate() {
                    if denotes(r, 16).is_none() {
                        viol.push((
                            "C14:tiered-accepted-root-unusable".to_string(),
                            format!("instantiate accepted {:?} as the root of stage {}, which does not denote 16 bytes: nothing can ever verify against it", r, k),
                        ));
                    }
                }
                if !swept.is_empty() && init.roots.iter().all(|r| denotes(r, 16).is_some()) {
                    let mut v2 = vec![];
                    steps += sweep_tiered(&mut app, addr, &swept, Some(init.stages.clone()), "instantiate", &mut v2);
                    if v2.iter().any(|(k, _)| k == "C14:tiered-member-rejected") {
                        viol.push((
                            "C14:tiered-accepted-root-unusable".to_string(),
                            format!("instantiate accepted the spellings {:?} of the trees' roots, but entries of an active stage are rejected with their own proofs", init.roots),
                        ));
                    }
                    viol.extend(v2);
                }
                if roots0.len() != init.roots.len() || roots0.iter().zip(init.roots.iter()).any(|(a, b)| !same_root(a, b, 16)) {
                    viol.push(("C14:tiered-roots-not-stored".to_string(), format!("instantiated with roots {:?} but MerkleRoots answers {:?}", init.roots, roots0)));
                }
                for op in ops {
                    steps += 1;
                    match op {
                        TieredOp::Exec { now, sender, kind: TieredOpKind::Migrate { name, version } } => {
                            chain::set_time(&mut app, *now);
                            let specs_before = stored_specs(&app, addr).ok();
                            crate::w_migrate::set_cw2(&mut app, addr, name.as_deref().unwrap_or(TIERED_CW2), version);
                            let before = chain::storage_digest(&app, addr);
                            let r = match catch(|| app.migrate_contract(Addr::unchecked(sender.as_str()), addr.clone(), &cosmwasm_std::Empty {}, code)) {
                                Ok(Ok(_)) => Ok(()),
                                Ok(Err(e)) => Err(format!("{:#}", e)),
                                Err(p) => Err(p),
                            };
                            any_ok |= r.is_ok();
                            let roots = query_roots_tiered(&app, addr).unwrap_or_default();
                            let what = format!("migrate from ({}, {}) by {} ({})", name.as_deref().unwrap_or("own name"), version, sender, if r.is_ok() { "ok" } else { "err" });
                            if roots != roots0 {
                                viol.push(("C14:tiered-root-changed".to_string(), format!("MerkleRoots were {:?} and are {:?} after {}", roots0, roots, what)));
                            }
                            if r.is_err() && chain::storage_digest(&app, addr) != before {
                                viol.push(("C14:tiered-rejected-call-wrote".to_string(), format!("{} was rejected but storage changed", what)));
                            }
                            if !swept.is_empty() {
                                steps += sweep_tiered(&mut app, addr, &swept, Some(ledger.clone()), &what, &mut viol);
                                let _ = &specs_before;
                            }
                            hist.push(format!("tiered:migrate:{}", if r.is_ok() { "ok" } else { "err" }));
                            coq_ops.push(format!(
                                "TMigrate {} {} {} {} {}",
                                coq_bool(sender == CREATOR),
                                coq_bool(name.is_none()),
                                coq_version(version),
                                coq_bool(r.is_ok()),
                                coq_strs(&roots)
                            ));
                        }
                        TieredOp::Exec { now, sender, kind } => {
                            chain::set_time(&mut app, *now);
                            let before = chain::storage_digest(&app, addr);
                            use tiered_whitelist_merkletree::msg::{ExecuteMsg as E, UpdateStageConfigMsg};
                            let (r, tag, coqm) = match kind {
                                TieredOpKind::UpdateStage { id, start, end, denom, limit } => (
                                    chain::exec(
                                        &mut app,
                                        sender,
                                        addr,
                                        &E::UpdateStageConfig(UpdateStageConfigMsg {
                                            stage_id: *id,
                                            name: if id % 2 == 0 { Some(format!("stage{}", id)) } else { None },
                                            start_time: start.map(Timestamp::from_nanos),
                                            end_time: end.map(Timestamp::from_nanos),
                                            mint_price: denom.as_ref().map(|d| coin(7, d.clone())),
                                            per_address_limit: *limit,
                                            mint_count_limit: if id % 3 == 0 { Some(Some(5)) } else { None },
                                        }),
                                        &[],
                                    ),
                                    "update_stage_config",
                                    Some(format!(
                                        "(TUpdateStageConfig {} {} {} {} {})",
                                        id,
                                        coq_opt_u64(*start),
                                        coq_opt_u64(*end),
                                        coq_opt_n(denom.as_ref().map(|d| denoms.id(d))),
                                        coq_opt_n(limit.map(|l| l as u64))
                                    )),
                                ),
                                TieredOpKind::UpdateAdmins(a) => (
                                    chain::exec(&mut app, sender, addr, &E::UpdateAdmins { admins: a.clone() }, &[]),
                                    "update_admins",
                                    Some(format!(
                                        "(TUpdateAdmins {} {})",
                                        coq_list(&a.iter().map(|x| addrs.id(x).to_string()).collect::<Vec<_>>()),
                                        coq_bool(a.iter().all(|x| addr_ok(x)))
                                    )),
                                ),
                                TieredOpKind::Freeze => (chain::exec(&mut app, sender, addr, &E::Freeze {}, &[]), "freeze", Some("TFreeze".to_string())),
                                TieredOpKind::Raw(j) => {
                                    let v: serde_json::Value = serde_json::from_str(j).expect("raw json");
                                    (chain::exec(&mut app, sender, addr, &v, &[]), "not-an-execute-msg", None)
                                }
                                TieredOpKind::Migrate { .. } => unreachable!(),
                            };
                            any_ok |= r.is_ok();
                            let roots = query_roots_tiered(&app, addr).unwrap_or_default();
                            if roots != roots0 {
                                viol.push((
                                    "C14:tiered-root-changed".to_string(),
                                    format!("MerkleRoots were {:?} and are {:?} after {} by {} ({})", init.roots, roots, tag, sender, if r.is_ok() { "ok" } else { "err" }),
                                ));
                            }
                            if r.is_err() && chain::storage_digest(&app, addr) != before {
                                viol.push(("C14:tiered-rejected-call-wrote".to_string(), format!("{} by {} was rejected but storage changed", tag, sender)));
                            }
                            if let (TieredOpKind::UpdateStage { id, start, end, denom, limit }, true) = (kind, r.is_ok()) {
                                if (*id as usize) < ledger.len() {
                                    let mut cand = ledger.clone();
                                    let o = &mut cand[*id as usize];
                                    if let Some(x) = start { o.start = *x; }
                                    if let Some(x) = end { o.end = *x; }
                                    if let Some(x) = denom { o.denom = x.clone(); }
                                    if let Some(x) = limit { o.limit = *x; }
                                    if schedule_ok(&cand) {
                                        ledger = cand;
                                    }
                                }
                            }
                            let ids = stored_ids(&app, addr);
                            if ids != (0..init.stages.len() as u64).collect::<Vec<_>>() {
                                viol.push((
                                    "C14:tiered-stage-order-changed".to_string(),
                                    format!("after {} by {} ({}): the stored stages are now in the order {:?} while the roots stay paired by position", tag, sender, if r.is_ok() { "ok" } else { "err" }, ids),
                                ));
                            }
                            if !swept.is_empty() {
                                steps += sweep_tiered(&mut app, addr, &swept, Some(ledger.clone()), &format!("{} by {}", tag, sender), &mut viol);
                            }
                            hist.push(format!("tiered:{}:{}", tag, if r.is_ok() { "ok" } else { "err" }));
                            coq_ops.push(match coqm {
                                Some(m) => format!(
                                    "TExec {} {} {} {} {} {}",
                                    now, addrs.id(sender), m, coq_bool(r.is_ok()), coq_strs(&roots),
                                    coq_list(&ids.iter().map(|x| x.to_string()).collect::<Vec<_>>())
                                ),
                                None => format!("TUnknown {} {} {} {}", now, addrs.id(sender), coq_bool(r.is_ok()), coq_strs(&roots)),
                            });
                        }
                        TieredOp::Query { now, member, proof } => {
                            chain::set_time(&mut app, *now);
                            let r = has_member(&app, addr, true, member, proof);
                            table.extend(fold_table(true, member, proof));
                            hist.push(format!("tiered:hist-query:{}", res_tag(&r)));
                            coq_ops.push(format!("TQuery {} {} {} {}", now, coq_str(member), coq_strs(proof), coq_res_bool(&r)));
                        }
                    }
                }
            }
            if let Ok(addr) = &inst {
                let roots0 = query_roots_tiered(&app, addr).unwrap_or_default();
                for who in [CREATOR, STRANGER] {
                    let r = catch(|| app.migrate_contract(Addr::unchecked(who), addr.clone(), &cosmwasm_std::Empty {}, code));
                    steps += 1;
                    let roots = query_roots_tiered(&app, addr).unwrap_or_default();
                    hist.push(format!("tiered:migrate:{}", if matches!(r, Ok(Ok(_))) { "ok" } else { "err" }));
                    if roots != roots0 {
                        viol.push(("C14:tiered-root-changed".to_string(), format!("MerkleRoots were {:?} and are {:?} after migrate by {}", init.roots, roots, who)));
                    }
                }
            }
            table.sort();
            table.dedup();
            let uris_ok = init.uris.as_ref().map(|v| v.iter().all(|u| uri_ok(&Some(u.clone())))).unwrap_or(true);
            let coq = format!(
                "CTw {} {} {} {} {} {} {} {} {} {} {}",
                coq_table(&table),
                now,
                coq_coins(&init.funds, &mut denoms),
                coq_strs(&init.roots),
                coq_bool(uris_ok),
                coq_list(&init.stages.iter().enumerate().map(|(i, s)| coq_stage(i, s, &mut denoms)).collect::<Vec<_>>()),
                coq_list(&init.admins.iter().map(|x| addrs.id(x).to_string()).collect::<Vec<_>>()),
                coq_bool(init.admins.iter().all(|x| addr_ok(x))),
                coq_bool(init.mutable),
                coq_bool(inst.is_ok()),
                coq_list(&coq_ops)
            );
            Outcome { coq, viol, nontrivial: inst.is_ok() && (any_ok || ops.is_empty()), hist, observed: format!("instantiate {:?}", inst.as_ref().map(|a| a.to_string())), steps }
        }
        Case::Mint { variant, tiered, entries, sender, stage, alloc, proof_of, label, migrate_from } => {
            // 4, 5: vending-minter-merkle-wl(-featured) through the vending factory (w_sale);
            // 6: open-edition-minter-merkle-wl through the open-edition factory (oe_world)
            struct MintWorld {
                app: App,
                minter: Addr,
                wl_code: BTreeMap<&'static str, u64>,
                t0: u64,
            }
            let mut sw = if *variant == 6 {
                let w = crate::oe_world::OeWorld::new(crate::oe_world::OeCfg::basic(2)).expect("open-edition world");
                MintWorld { app: w.app, minter: w.minter, wl_code: w.wl_code, t0: w.t0 }
            } else {
                use crate::w_sale::{SaleCfg, SaleWorld, WlKind};
                let mut cfg = SaleCfg::basic(*variant);
                cfg.wl = WlKind::None;
                cfg.num_tokens = 20;
                let w = SaleWorld::new(cfg).expect("sale world");
                MintWorld { app: w.app, minter: w.minter, wl_code: w.wl_code, t0: w.t0 }
            };
            let t0 = sw.t0;
            let leaves: Vec<String> = entries.iter().map(|(st, a, al)| leaf_string(*st, a, *al)).collect();
            let b = build_tree(*tiered, &leaves, None);
            let (ws, we) = (t0 + 1000 * SEC, t0 + 2000 * SEC);
            let price = json!({"denom": NATIVE, "amount": "60"});
            let wl_limit = 2u32;
            let msg = if *tiered {
                json!({"stages": [{"name": "s1", "start_time": ws.to_string(), "end_time": we.to_string(), "mint_price": price,
                                   "per_address_limit": wl_limit, "mint_count_limit": null}],
                       "merkle_roots": [b.root_hex()], "merkle_tree_uris": null, "admins": [CREATOR], "admins_mutable": true})
            } else {
                json!({"merkle_root": b.root_hex(), "merkle_tree_uri": null, "start_time": ws.to_string(), "end_time": we.to_string(),
                       "mint_price": price, "per_address_limit": wl_limit, "admins": [CREATOR], "admins_mutable": true})
            };
            // instantiated directly (not through make_whitelist_raw) so that it has a wasm admin
            let wl_code = sw.wl_code[if *tiered { "tiered-merkle" } else { "merkle" }];
            let wl = sw
                .app
                .instantiate_contract(wl_code, Addr::unchecked(CREATOR), &msg, &[coin(FEE, NATIVE)], "wl", Some(CREATOR.to_string()))
                .expect("merkle whitelist");
            let minter = sw.minter.clone();
            chain::exec(&mut sw.app, CREATOR, &minter, &json!({"set_whitelist": {"whitelist": wl.to_string()}}), &[]).expect("set_whitelist");
            let mut steps = 3;
            if let Some(from) = migrate_from {
                // the whitelist, then the minter, upgraded by their wasm admin from an older release
                crate::w_migrate::set_cw2(&mut sw.app, &wl, if *tiered { TIERED_CW2 } else { FLAT_CW2 }, from);
                let r1 = catch(|| sw.app.migrate_contract(Addr::unchecked(CREATOR), wl.clone(), &cosmwasm_std::Empty {}, wl_code));
                let (mname, _) = crate::w_migrate::get_cw2(&sw.app, &minter);
                let mcode = sw.app.contract_data(&minter).map(|d| d.code_id).unwrap_or(0);
                crate::w_migrate::set_cw2(&mut sw.app, &minter, &mname, from);
                let r2 = catch(|| sw.app.migrate_contract(Addr::unchecked(CREATOR), minter.clone(), &cosmwasm_std::Empty {}, mcode));
                steps += 2;
                hist.push(format!("minter{}:whitelist-migrate:{}", variant, if matches!(r1, Ok(Ok(_))) { "ok" } else { "err" }));
                hist.push(format!("minter{}:minter-migrate:{}", variant, if matches!(r2, Ok(Ok(_))) { "ok" } else { "err" }));
                let root_now = if *tiered {
                    query_roots_tiered(&sw.app, &wl).unwrap_or_default().first().cloned().unwrap_or_default()
                } else {
                    query_root_flat(&sw.app, &wl).unwrap_or_default()
                };
                if root_now != b.root_hex() {
                    viol.push((
                        if *tiered { "C14:tiered-root-changed" } else { "C14:flat-root-changed" }.to_string(),
                        format!("the minter's whitelist reported root {} and reports {} after migrate from {}", b.root_hex(), root_now, from),
                    ));
                }
            }
            chain::set_time(&mut sw.app, (ws + we) / 2);
            chain::mint_coins(&mut sw.app, sender, 1_000_000, NATIVE);
            let proof = b.proof_hex(*proof_of);
            let r = chain::exec(
                &mut sw.app,
                sender,
                &minter,
                &json!({"mint": {"stage": stage, "proof_hashes": proof, "allocation": alloc}}),
                &[coin(60, NATIVE)],
            );
            let composed = leaf_string(*stage, sender, *alloc);
            let listed = leaves.iter().any(|l| *l == composed);
            if !listed && r.is_ok() {
                viol.push((
                    "C14:minter-unlisted-leaf-accepted".to_string(),
                    format!("{} minted with stage {:?}, allocation {:?} although \"{}\" (the leaf the documented format prescribes) is not in the list ({})", sender, stage, alloc, composed, label),
                ));
            }
            if label == "own" && *alloc != Some(0) && r.is_err() {
                viol.push(("C14:minter-own-proof-rejected".to_string(), format!("{} with its own entry and proof was rejected: {:?}", sender, r.as_ref().err())));
            }
            let t = fold_table(*tiered, &composed, &proof);
            let coq = format!(
                "CMint {} {} {} {} {} {} {} {} {}",
                coq_table(&t),
                coq_bool(*tiered),
                coq_str(&b.root_hex()),
                coq_str(sender),
                coq_opt_n(stage.map(|x| x as u64)),
                coq_opt_n(alloc.map(|x| x as u64)),
                coq_strs(&proof),
                wl_limit,
                coq_bool(r.is_ok())
            );
            hist.push(format!("minter{}:{}:{}:{}", variant, if *tiered { "tiered" } else { "flat" }, label, if r.is_ok() { "ok" } else { "err" }));
            Outcome { coq, viol, nontrivial: true, hist, observed: format!("{:?}", r.as_ref().map(|_| "minted").map_err(|e| e.chars().take(160).collect::<String>())), steps }
        }
        Case::Leaf { stage, sender, alloc } => {
            let s = leaf_string(*stage, sender, *alloc);
            let coq = format!(
                "CLeaf {} {} {} {}",
                coq_opt_n(stage.map(|x| x as u64)),
                coq_str(sender),
                coq_opt_n(alloc.map(|x| x as u64)),
                coq_str(&s)
            );
            hist.push("leaf-format:ok".to_string());
            Outcome { coq, viol, nontrivial: stage.is_some() || alloc.is_some(), hist, observed: s, steps: 1 }
        }
    }
}
/// the bytes a root spelling is meant to denote, read generously (surrounding whitespace and
/// a 0x / 0X prefix dropped, any case): Some(bytes) only for exactly 2*l hex digits.  Written
/// from the property text; whether a spelling is ACCEPTED is the contract's business, the rule
/// checked is: accepted => usable (its tree's entries are accepted, the root query denotes
/// the same bytes)
fn denotes(root: &str, l: usize) -> Option<Vec<u8>> {
    let t = root.trim();
    let t = t.strip_prefix("0x").or_else(|| t.strip_prefix("0X")).unwrap_or(t);
    if t.len() == 2 * l && t.bytes().all(|c| c.is_ascii_hexdigit()) {
        hex::decode(t).ok()
    } else {
        None
    }
}
fn same_root(a: &str, b: &str, l: usize) -> bool {
    match (denotes(a, l), denotes(b, l)) {
        (Some(x), Some(y)) => x == y,
        _ => a == b,
    }
}
/// spellings of a root for the instantiate dimension: (name, string)
fn spellings(root: &str, other_len_root: &str) -> Vec<(&'static str, String)> {
    let n = root.len();
    vec![
        ("lower", root.to_string()),
        ("upper", root.to_uppercase()),
        ("mixed", spell(root, 2)),
        ("0x-prefix", format!("0x{}", root)),
        ("0X-prefix", format!("0X{}", root)),
        ("0x-prefix-upper", format!("0x{}", root.to_uppercase())),
        ("0x-instead-of-first-byte", format!("0x{}", &root[2..])),
        ("leading-space", format!(" {}", root)),
        ("trailing-space", format!("{} ", root)),
        ("trailing-newline", format!("{}\n", root)),
        ("leading-tab", format!("\t{}", root)),
        ("one-digit-short", root[..n - 1].to_string()),
        ("one-digit-long", format!("{}0", root)),
        ("one-byte-short", root[..n - 2].to_string()),
        ("one-byte-long", format!("{}00", root)),
        ("empty", String::new()),
        ("non-hex", format!("g{}", &root[1..])),
        ("other-tree-length", other_len_root.to_string()),
        ("0x-only", "0x".to_string()),
    ]
}
pub const FLAT_CW2: &str = "crates.io:whitelist-merkletree";
pub const TIERED_CW2: &str = "crates.io:tiered-whitelist-merkletree";
/// MAJOR.MINOR.PATCH as the model's `option version`; anything else (does not parse, or has a
/// pre-release / build part, which the generators never produce) is None
fn coq_version(v: &str) -> String {
    match semver::Version::parse(v) {
        Ok(x) if x.pre.is_empty() && x.build.is_empty() => format!("(Some ({}, {}, {}))", x.major, x.minor, x.patch),
        _ => "None".to_string(),
    }
}
/// after a step of a whitelist-merkletree history: every entry with its own proof accepted,
/// outsiders (with a member's proof, with none) not accepted
fn sweep_flat(app: &App, addr: &Addr, b: &Built, after: &str, viol: &mut Vec<(String, String)>) -> u64 {
    let mut n = 0;
    for i in 0..b.members.len() {
        n += 1;
        let r = has_member(app, addr, false, &b.members[i], &b.proof_hex(i));
        if r != Ok(true) {
            viol.push(("C14:flat-member-rejected".to_string(), format!("after {}: listed entry {} with its own proof answers {:?}", after, b.members[i], r)));
            break;
        }
    }
    let outsider = stars_addr(999_999, 77);
    for p in [b.proof_hex(0), vec![], b.proof_hex(b.members.len() - 1)] {
        n += 1;
        if has_member(app, addr, false, &outsider, &p) == Ok(true) {
            viol.push(("C14:flat-nonmember-accepted".to_string(), format!("after {}: unlisted string accepted", after)));
            break;
        }
    }
    n
}
/// the same for the tiered contract: in the middle of every stage the contract currently
/// stores, the entries of that stage's list are accepted with their own
/// proofs, outsiders and entries of other stages' lists are not
/// stage identities in stored order: the names given at instantiate are stage0, stage1, ...
fn stored_ids(app: &App, addr: &Addr) -> Vec<u64> {
    tiered_whitelist_merkletree::state::CONFIG
        .load(&*app.contract_storage(addr))
        .map(|c| c.stages.iter().map(|s| s.name.strip_prefix("stage").and_then(|k| k.parse::<u64>().ok()).unwrap_or(999)).collect())
        .unwrap_or_default()
}
/// the documented rule for a re-scheduled list: every window non-empty, every later stage
/// starts no earlier than every earlier one ends (so no stage ever passes a neighbour)
fn schedule_ok(l: &[StageSpec]) -> bool {
    (0..l.len()).all(|i| l[i].start < l[i].end && (i + 1..l.len()).all(|j| l[j].start >= l[i].end))
}
/// the stage windows as stored now (raw CONFIG item: the Stages query indexes the roots and
/// panics when there are fewer roots than stages)
fn stored_specs(app: &App, addr: &Addr) -> Result<Vec<StageSpec>, String> {
    tiered_whitelist_merkletree::state::CONFIG
        .load(&*app.contract_storage(addr))
        .map(|c| {
            c.stages
                .iter()
                .map(|s| StageSpec { start: s.start_time.nanos(), end: s.end_time.nanos(), denom: s.mint_price.denom.clone(), limit: s.per_address_limit })
                .collect()
        })
        .map_err(|e| e.to_string())
}
/// `expect`: the windows that must be in force (after a migrate: the ones stored before it,
/// a migrate may not change the schedule); None: the ones stored now (after an Execute)
fn sweep_tiered(app: &mut App, addr: &Addr, built: &[Built], expect: Option<Vec<StageSpec>>, after: &str, viol: &mut Vec<(String, String)>) -> u64 {
    let mut n = 1;
    let specs = match expect.map(Ok).unwrap_or_else(|| stored_specs(app, addr)) {
        Ok(s) => s,
        Err(e) => {
            viol.push(("C14:tiered-root-changed".to_string(), format!("after {}: the stored config does not load: {}", after, e)));
            return n;
        }
    };
    let outsider = stars_addr(999_999, 77);
    let saved = chain::now(app);
    for (i, sp) in specs.iter().enumerate() {
        if i >= built.len() || sp.end < sp.start + 2 {
            continue;
        }
        let t = (sp.start + sp.end) / 2;
        if active_by_text(&specs, t) != Ok(Some(i)) {
            continue;
        }
        chain::set_time(app, t);
        let b = &built[i];
        for k in 0..b.members.len() {
            n += 1;
            let r = has_member(app, addr, true, &b.members[k], &b.proof_hex(k));
            if r != Ok(true) {
                viol.push(("C14:tiered-member-rejected".to_string(), format!("after {}: entry {} of the active stage {} with its own proof answers {:?}", after, b.members[k], i, r)));
                break;
            }
        }
        let mut foreign: Vec<(String, Vec<String>)> = vec![(outsider.clone(), b.proof_hex(0)), (outsider.clone(), vec![])];
        for (j, o) in built.iter().enumerate() {
            if j != i && !b.members.contains(&o.members[0]) {
                foreign.push((o.members[0].clone(), o.proof_hex(0)));
            }
        }
        for (m, p) in foreign {
            n += 1;
            if has_member(app, addr, true, &m, &p) == Ok(true) {
                viol.push(("C14:tiered-nonmember-accepted".to_string(), format!("after {}: {} is not listed in the active stage {} and is accepted", after, m, i)));
                break;
            }
        }
    }
    chain::set_time(app, saved);
    n
}
fn res_tag(r: &Result<bool, String>) -> &'static str {
    match r {
        Ok(true) => "true",
        Ok(false) => "false",
        Err(_) => "err",
    }
}

// ---------------------------------------------------------------- generators
fn flip_hex_char(s: &str, pos: usize) -> String {
    let mut b: Vec<u8> = s.bytes().collect();
    if b.is_empty() {
        return "00".to_string();
    }
    let p = pos % b.len();
    b[p] = match b[p] {
        b'0' => b'1',
        b'f' => b'e',
        c if c.is_ascii_digit() => c - 1,
        c => c - 1, // b..f -> a..e ; 'a' -> '`' would be non-hex, so handle it
    };
    if b[p] == b'`' {
        b[p] = b'b';
    }
    String::from_utf8(b).unwrap()
}

/// adversarial (label, member, proof) triples around position i of a built tree
fn adversarial(b: &Built, i: usize, rng: &mut Rng, outsider: &str) -> Vec<(String, String, Vec<String>)> {
    let l = b.l();
    let n = b.members.len();
    let m = b.members[i].clone();
    let p = b.proof_hex(i);
    let j = (i + 1 + rng.below(n.max(2) as u64 - 1) as usize) % n;
    let pj = b.proof_hex(j);
    let rand_hash = |rng: &mut Rng| -> String { (0..l).map(|_| format!("{:02x}", rng.below(256))).collect() };
    let mut v: Vec<(String, String, Vec<String>)> = vec![];
    // another member's proof, for a listed entry and for an outsider
    if pj != p {
        v.push(("listed-other-proof".into(), m.clone(), pj.clone()));
    }
    v.push(("outsider-member-proof".into(), outsider.to_string(), p.clone()));
    v.push(("outsider-other-proof".into(), outsider.to_string(), pj.clone()));
    v.push(("outsider-empty-proof".into(), outsider.to_string(), vec![]));
    v.push(("outsider-root-as-proof".into(), outsider.to_string(), vec![b.root_hex()]));
    // truncated
    if !p.is_empty() {
        v.push(("truncated-last".into(), m.clone(), p[..p.len() - 1].to_vec()));
        v.push(("truncated-first".into(), m.clone(), p[1..].to_vec()));
        v.push(("listed-empty-proof".into(), m.clone(), vec![]));
    }
    // extended
    let mut e = p.clone();
    e.push(rand_hash(rng));
    v.push(("extended-random".into(), m.clone(), e));
    let mut e = p.clone();
    e.push(b.root_hex());
    v.push(("extended-root".into(), m.clone(), e));
    if let Some(last) = p.last() {
        let mut e = p.clone();
        e.push(last.clone());
        v.push(("extended-repeat-last".into(), m.clone(), e));
    }
    // reordered
    if p.len() >= 2 {
        let mut r = p.clone();
        r.reverse();
        if r != p {
            v.push(("reordered-reverse".into(), m.clone(), r));
        }
        let mut r = p.clone();
        let a = rng.below(p.len() as u64) as usize;
        let c = (a + 1) % p.len();
        r.swap(a, c);
        if r != p {
            v.push(("reordered-swap".into(), m.clone(), r));
        }
    }
    // one character of one element changed, still well formed
    if !p.is_empty() {
        let k = rng.below(p.len() as u64) as usize;
        let mut f = p.clone();
        f[k] = flip_hex_char(&p[k], rng.below(2 * l as u64) as usize);
        v.push(("bit-flipped".into(), m.clone(), f));
        // upper-case rendering of the same bytes: well formed, same digest bytes
        let mut u = p.clone();
        u[k] = p[k].to_uppercase();
        v.push(("own-uppercase-element".into(), m.clone(), u));
    }
    // malformed elements at a random position of the (otherwise right) proof
    let base = if p.is_empty() { vec![rand_hash(rng)] } else { p.clone() };
    let k = rng.below(base.len() as u64) as usize;
    let good = base[k].clone();
    let other_l = if l == 32 { 16 } else { 32 };
    let bads: Vec<(&str, String)> = vec![
        ("short-by-a-byte", good[..2 * l - 2].to_string()),
        ("long-by-a-byte", format!("{}00", good)),
        ("odd-length", good[..2 * l - 1].to_string()),
        ("other-variant-length", (0..other_l).map(|_| format!("{:02x}", rng.below(256))).collect()),
        ("empty-string", String::new()),
        ("non-hex-g", format!("g{}", &good[1..])),
        ("non-hex-space", format!(" {}", &good[1..])),
        ("0x-prefixed", format!("0x{}", &good[2..])),
        ("0x-prefix-full", format!("0x{}", good)),
        ("trailing-space-full", format!("{} ", good)),
        ("non-ascii", format!("é{}", &good[2..])),
    ];
    for (lab, bad) in bads {
        let mut f = base.clone();
        f[k] = bad;
        v.push((format!("malformed-{}", lab), m.clone(), f));
    }
    // malformed last element after a complete valid proof (must still be an error)
    let mut f = p.clone();
    f.push("zz".to_string());
    v.push(("malformed-after-valid".into(), m.clone(), f));
    // near-miss member strings with the member's own proof
    v.push(("member-trailing-space".into(), format!("{} ", m), p.clone()));
    v.push(("member-uppercase".into(), m.to_uppercase(), p.clone()));
    v.push(("member-digit-appended".into(), format!("{}0", m), p.clone()));
    v.push(("member-prefix".into(), m[..m.len() - 1].to_string(), p.clone()));
    v.into_iter().filter(|(lab, mm, _)| !(lab.starts_with("member-") && b.members.contains(mm))).collect()
}

fn sizes(a: &Args) -> Vec<usize> {
    let mut v: Vec<usize> = (1..=33).collect();
    v.extend([64, 65]);
    if a.thorough() {
        v.extend([127, 128, 129, 1000, 4097]);
    }
    v
}

fn three_stages(n: usize) -> Vec<StageSpec> {
    // stage 0 and 1 share an edge instant, stage 2 follows a gap
    let s0 = BASE + 1000 * SEC;
    let k = 1 + n % 3;
    let all = vec![
        StageSpec { start: s0, end: s0 + 100 * SEC, denom: NATIVE.into(), limit: 1 },
        StageSpec { start: s0 + 100 * SEC, end: s0 + 200 * SEC, denom: NATIVE.into(), limit: 50 },
        StageSpec { start: s0 + 300 * SEC, end: s0 + 400 * SEC, denom: NATIVE.into(), limit: 7 },
    ];
    all[..k].to_vec()
}
fn instants(stages: &[StageSpec]) -> Vec<(String, u64)> {
    let mut v = vec![("before-all".to_string(), stages[0].start - 1)];
    for (i, s) in stages.iter().enumerate() {
        v.push((format!("start{}", i), s.start));
        v.push((format!("start{}+1", i), s.start + 1));
        v.push((format!("mid{}", i), (s.start + s.end) / 2));
        v.push((format!("end{}-1", i), s.end - 1));
        v.push((format!("end{}", i), s.end));
        v.push((format!("end{}+1", i), s.end + 1));
    }
    v.push(("after-all".to_string(), stages.last().unwrap().end + 1000 * SEC));
    v
}

fn gen_cases(a: &Args) -> Vec<Case> {
    let mut rng = Rng::new(a.seed);
    let mut cases = vec![];
    let outsider = stars_addr(999_999, 77);

    // ---- corpus: the repo's own test lists, single entry, duplicates, upper-case root
    for ms in [
        Members::Explicit(vec!["onlyone".into()]),
        Members::Short { n: 5 },
        Members::Explicit(vec!["tester".into(), "user".into(), "rando".into(), "human".into(), "bot".into()]),
        Members::Explicit(vec!["aaa".into(), "aaa".into(), "bbb".into()]),
        Members::Explicit(vec!["same".into(), "same".into()]),
    ] {
        let l = ms.list();
        for blake in [false, true] {
            cases.push(Case::Tree { blake, members: ms.clone(), positions: None });
        }
        let b = build_tree(false, &l, None);
        for i in 0..l.len() {
            cases.push(Case::FlatQuery { members: ms.clone(), label: "own".into(), member: l[i].clone(), proof: b.proof_hex(i) });
        }
        for (lab, m, p) in adversarial(&b, 0, &mut rng, &outsider) {
            cases.push(Case::FlatQuery { members: ms.clone(), label: lab, member: m, proof: p });
        }
    }
    {
        // a root supplied in upper-case or mixed-case hex is accepted by instantiate; every
        // listed entry must be accepted against it (fixed in /repo c2c314c)
        let ms = Members::Short { n: 5 }.list();
        let b = build_tree(false, &ms, None);
        let bt = build_tree(true, &ms, None);
        let stages = three_stages(0); // one stage
        for mode in [1u8, 2] {
            let r = spell(&b.root_hex(), mode);
            for i in 0..ms.len() {
                cases.push(Case::FlatRootQuery { root: r.clone(), label: "own-uppercase-root".into(), member: ms[i].clone(), proof: b.proof_hex(i) });
                cases.push(Case::TieredQuery {
                    lists: vec![Members::Short { n: 5 }], stages: stages.clone(), nroots: 1, spelling: mode, at: (stages[0].start + stages[0].end) / 2,
                    label: "own-stage0".into(), member: ms[i].clone(), proof: bt.proof_hex(i),
                });
            }
            cases.push(Case::FlatRootQuery { root: r.clone(), label: "outsider-uppercase-root".into(), member: outsider.clone(), proof: b.proof_hex(1) });
            // a stored root that differs from the tree's in one digit / has its halves swapped:
            // nothing of that tree may be accepted
            for wrong in [mode + 2, mode + 4] {
                let r = spell(&b.root_hex(), wrong);
                for i in 0..ms.len() {
                    cases.push(Case::FlatRootQuery { root: r.clone(), label: format!("wrong-root-{}", wrong), member: ms[i].clone(), proof: b.proof_hex(i) });
                    cases.push(Case::TieredQuery {
                        lists: vec![Members::Short { n: 5 }], stages: stages.clone(), nroots: 1, spelling: wrong, at: (stages[0].start + stages[0].end) / 2,
                        label: "own-stage0".into(), member: ms[i].clone(), proof: bt.proof_hex(i),
                    });
                }
            }
            cases.push(Case::TieredQuery {
                lists: vec![Members::Short { n: 5 }], stages: stages.clone(), nroots: 1, spelling: mode, at: (stages[0].start + stages[0].end) / 2,
                label: "outsider-uppercase-root".into(), member: outsider.clone(), proof: bt.proof_hex(1),
            });
        }
        // the root is the digest of a single entry: empty proof
        let one = build_tree(false, &["solo".to_string()], None);
        cases.push(Case::FlatRootQuery { root: one.root_hex(), label: "single-entry-empty-proof".into(), member: "solo".into(), proof: vec![] });
    }

    // ---- every size: all members' own proofs + adversarial pairs, both contracts
    for &n in &sizes(a) {
        let salt = rng.next_u64() % 1000;
        let dups = if n >= 3 && n % 4 == 3 { vec![(0, n - 1), (1, 2)] } else if n >= 2 && n % 5 == 0 { vec![(0, 1)] } else { vec![] };
        let flat_ms = if n % 7 == 6 {
            Members::Leaves { n, salt, stage: if n % 2 == 0 { Some((n % 3) as u32 + 1) } else { None }, alloc: true }
        } else {
            Members::Stars { n, salt, dups: dups.clone() }
        };
        let big = n > 65;
        let all: Vec<usize> = (0..n).collect();
        let sample: Vec<usize> = if big {
            let mut s: BTreeSet<usize> = [0, 1, n / 2, n - 2, n - 1].into_iter().collect();
            for _ in 0..30 {
                s.insert(rng.below(n as u64) as usize);
            }
            s.into_iter().collect()
        } else {
            all.clone()
        };
        // tree-shape tie: every position for small trees, a sample (both ends, the promoted
        // tail, random interior positions) for larger ones
        let tree_pos: Option<Vec<usize>> = if n <= 16 {
            None
        } else {
            let mut s: BTreeSet<usize> = [0, 1, n / 2, n - 2, n - 1].into_iter().collect();
            for _ in 0..(if a.thorough() { 24 } else { 5 }) {
                s.insert(rng.below(n as u64) as usize);
            }
            Some(s.into_iter().collect())
        };
        for blake in [false, true] {
            cases.push(Case::Tree { blake, members: flat_ms.clone(), positions: tree_pos.clone() });
        }
        // flat contract
        let l = flat_ms.list();
        let b = build_tree(false, &l, Some(&all));
        for &i in &sample {
            cases.push(Case::FlatQuery { members: flat_ms.clone(), label: "own".into(), member: l[i].clone(), proof: b.proof_hex(i) });
        }
        let mut picks: BTreeSet<usize> = [n - 1].into_iter().collect();
        picks.insert(rng.below(n as u64) as usize);
        if n < 12 {
            picks.insert(0);
        }
        if a.thorough() {
            picks.insert(rng.below(n as u64) as usize);
            picks.insert(n / 2);
        }
        for &i in &picks {
            for (lab, m, p) in adversarial(&b, i, &mut rng, &outsider) {
                cases.push(Case::FlatQuery { members: flat_ms.clone(), label: lab, member: m, proof: p });
            }
        }
        // minter-style leaves: a proof issued for A presented for B, for another allocation, another stage
        if let Members::Leaves { stage, .. } = &flat_ms {
            for &i in &picks {
                let a_addr = stars_addr(i as u64, salt);
                let b_addr = stars_addr(((i + 1) % n.max(2)) as u64 + 500_000, salt);
                let al = alloc_of(i as u64);
                let p = b.proof_hex(i);
                for (lab, m) in [
                    ("proof-of-A-presented-by-B", leaf_string(*stage, &b_addr, Some(al))),
                    ("A-claims-larger-allocation", leaf_string(*stage, &a_addr, Some(al.wrapping_add(1)))),
                    ("A-claims-other-stage", leaf_string(Some(stage.unwrap_or(0) + 1), &a_addr, Some(al))),
                    ("A-without-allocation", leaf_string(*stage, &a_addr, None)),
                ] {
                    if !l.contains(&m) {
                        cases.push(Case::FlatQuery { members: flat_ms.clone(), label: lab.into(), member: m, proof: p.clone() });
                    }
                }
            }
        }
        // tiered contract: k stages, stage i lists n, n+1, 2 entries (other salts)
        let stages = three_stages(n);
        let k = stages.len();
        let lists: Vec<Members> = (0..k)
            .map(|s| match s {
                0 => Members::Leaves { n, salt: salt + 1, stage: Some(1), alloc: n % 2 == 0 },
                1 => Members::Stars { n: n + 1, salt: salt + 2, dups: vec![] },
                _ => Members::Stars { n: 2, salt: salt + 3, dups: vec![] },
            })
            .collect();
        let built: Vec<Built> = lists.iter().map(|m| build_tree(true, &m.list(), None)).collect();
        let times = instants(&stages);
        for (s, bt) in built.iter().enumerate() {
            let nn = bt.members.len();
            let own: Vec<usize> = if nn > 12 && !a.thorough() {
                let mut o: BTreeSet<usize> = [0, nn - 1].into_iter().collect();
                o.insert(rng.below(nn as u64) as usize);
                o.into_iter().collect()
            } else if nn > 65 {
                sample.iter().cloned().filter(|&x| x < nn).collect()
            } else {
                (0..nn).collect()
            };
            // own proofs in the middle of the own stage (all), and at every instant (a few)
            let mid = (stages[s].start + stages[s].end) / 2;
            for &i in &own {
                cases.push(Case::TieredQuery {
                    lists: lists.clone(), stages: stages.clone(), nroots: k, spelling: 0, at: mid,
                    label: format!("own-stage{}", s), member: bt.members[i].clone(), proof: bt.proof_hex(i),
                });
            }
            let i = own[rng.below(own.len() as u64) as usize];
            // quick tier, larger sizes: only the instants around this stage's own window
            let near = |t: u64| t + 2 >= stages[s].start && t <= stages[s].end + 2;
            for (tl, t) in times.iter().filter(|(_, t)| a.thorough() || n <= 10 || near(*t)) {
                cases.push(Case::TieredQuery {
                    lists: lists.clone(), stages: stages.clone(), nroots: k, spelling: 0, at: *t,
                    label: format!("own-stage{}@{}", s, tl), member: bt.members[i].clone(), proof: bt.proof_hex(i),
                });
            }
            // adversarial pairs while stage s is active
            let adv = adversarial(bt, i, &mut rng, &outsider);
            let take = if a.thorough() { adv.len() } else { 8 };
            let off = rng.below(adv.len() as u64) as usize;
            for q in 0..take.min(adv.len()) {
                let (lab, m, p) = adv[(off + q) % adv.len()].clone();
                cases.push(Case::TieredQuery { lists: lists.clone(), stages: stages.clone(), nroots: k, spelling: 0, at: mid, label: lab, member: m, proof: p });
            }
        }
        // fewer roots than stages: the uncovered stage must never answer true
        if k >= 2 && n % 2 == 1 {
            let bt = &built[k - 1];
            cases.push(Case::TieredQuery {
                lists: lists.clone(), stages: stages.clone(), nroots: k - 1, spelling: 0, at: (stages[k - 1].start + stages[k - 1].end) / 2,
                label: "stage-without-root".into(), member: bt.members[0].clone(), proof: bt.proof_hex(0),
            });
            cases.push(Case::TieredQuery {
                lists: lists.clone(), stages: stages.clone(), nroots: k - 1, spelling: 0, at: (stages[0].start + stages[0].end) / 2,
                label: "own-stage0".into(), member: built[0].members[0].clone(), proof: built[0].proof_hex(0),
            });
        }
    }

    // ---- the leaf string (Rust formatting of u32) against the model's decimal rendering
    let mut u32s: Vec<u32> = vec![0, 1, 9, 10, 11, 99, 100, 101, 999, 1000, 65535, 65536, 999_999_999, 1_000_000_000, 2_147_483_647, 2_147_483_648, 4_294_967_294, 4_294_967_295];
    for _ in 0..40 {
        u32s.push(rng.u128_any_size() as u32);
    }
    for (q, &x) in u32s.iter().enumerate() {
        let s = stars_addr(q as u64, 5);
        let y = u32s[(q * 7 + 3) % u32s.len()];
        cases.push(Case::Leaf { stage: Some(x), sender: s.clone(), alloc: Some(y) });
        cases.push(Case::Leaf { stage: None, sender: s.clone(), alloc: Some(x) });
        cases.push(Case::Leaf { stage: Some(x), sender: s.clone(), alloc: None });
    }
    cases.push(Case::Leaf { stage: None, sender: "addr0001".into(), alloc: None });

    // ---- minter side: a proof issued for one address is useless to another
    for variant in [4usize, 5, 6] {
        for tiered in [false, true] {
            let a: Vec<String> = (0..5u64).map(|i| stars_addr(i, 900 + variant as u64)).collect();
            let out = stars_addr(77, 901);
            // (stage, address, allocation) entries in every arity
            let entries: Vec<(Option<u32>, String, Option<u32>)> = vec![
                (Some(1), a[0].clone(), Some(3)),
                (None, a[1].clone(), Some(10)),
                (Some(2), a[2].clone(), None),
                (None, a[3].clone(), None),
                (Some(1), a[4].clone(), Some(0)),
            ];
            let mut push = |label: &str, sender: &str, stage: Option<u32>, alloc: Option<u32>, proof_of: usize| {
                cases.push(Case::Mint { variant, tiered, entries: entries.clone(), sender: sender.to_string(), stage, alloc, proof_of, label: label.to_string(), migrate_from: None });
            };
            for (i, (st, ad, al)) in entries.iter().enumerate() {
                push("own", ad, *st, *al, i);
            }
            // B presents A's proof with A's stage/allocation; the outsider does the same
            push("proof-of-A-presented-by-B", &a[1], Some(1), Some(3), 0);
            push("proof-of-A-presented-by-outsider", &out, Some(1), Some(3), 0);
            push("proof-of-A-presented-by-outsider", &out, None, None, 3);
            // A claims a larger allocation / another stage / drops a component, with its own proof
            push("A-claims-larger-allocation", &a[0], Some(1), Some(4), 0);
            push("A-claims-other-stage", &a[0], Some(2), Some(3), 0);
            push("A-drops-allocation", &a[0], Some(1), None, 0);
            push("A-drops-stage", &a[0], None, Some(3), 0);
            push("A-adds-allocation", &a[3], None, Some(1), 3);
            push("A-swaps-stage-and-allocation", &a[0], Some(3), Some(1), 0);
            // right entry, another entry's proof
            push("own-entry-other-proof", &a[1], None, Some(10), 2);
            // the same questions after whitelist and minter were migrated from older releases
            for (from, picks) in [("3.0.0", vec![0usize, 1, 2, 3]), ("3.9.0", vec![1])] {
                for i in picks {
                    let (st, ad, al) = entries[i].clone();
                    cases.push(Case::Mint { variant, tiered, entries: entries.clone(), sender: ad, stage: st, alloc: al, proof_of: i, label: "own".into(), migrate_from: Some(from.to_string()) });
                }
                cases.push(Case::Mint { variant, tiered, entries: entries.clone(), sender: a[1].clone(), stage: Some(1), alloc: Some(3), proof_of: 0, label: "proof-of-A-presented-by-B".into(), migrate_from: Some(from.to_string()) });
                cases.push(Case::Mint { variant, tiered, entries: entries.clone(), sender: out.clone(), stage: None, alloc: None, proof_of: 3, label: "proof-of-A-presented-by-outsider".into(), migrate_from: Some(from.to_string()) });
            }
        }
    }
    // stage x listed leaf format, every Merkle minter variant, both whitelist kinds: each listed
    // leaf format (addr, addr+alloc, 0addr, 0addr+alloc, 1addr, 1addr+alloc, 2addr+alloc,
    // 4294967295addr) is presented by its owner with every stage value -- only the exact
    // (stage, sender, allocation) it was listed with may mint (cross cases: the stage-less leaf
    // presented as stage 0 and the other way round; tiered: 1 is the active stage id)
    for variant in [4usize, 5, 6] {
        for tiered in [false, true] {
            let a: Vec<String> = (0..8u64).map(|i| stars_addr(i, 950 + variant as u64)).collect();
            let entries: Vec<(Option<u32>, String, Option<u32>)> = vec![
                (None, a[0].clone(), None),
                (None, a[1].clone(), Some(7)),
                (Some(0), a[2].clone(), None),
                (Some(0), a[3].clone(), Some(5)),
                (Some(1), a[4].clone(), None),
                (Some(1), a[5].clone(), Some(3)),
                (Some(2), a[6].clone(), Some(2)),
                (Some(u32::MAX), a[7].clone(), None),
            ];
            for (i, (st, ad, al)) in entries.iter().enumerate() {
                for stage in [None, Some(0u32), Some(1), Some(2), Some(u32::MAX)] {
                    let label = if stage == *st { "own".to_string() } else { format!("listed-{}-presented-as-{}", st.map(|x| x.to_string()).unwrap_or("none".into()), stage.map(|x| x.to_string()).unwrap_or("none".into())) };
                    cases.push(Case::Mint { variant, tiered, entries: entries.clone(), sender: ad.clone(), stage, alloc: *al, proof_of: i, label, migrate_from: None });
                }
                // the allocation dropped / added with the right stage
                let other_al = if al.is_some() { None } else { Some(1) };
                cases.push(Case::Mint { variant, tiered, entries: entries.clone(), sender: ad.clone(), stage: *st, alloc: other_al, proof_of: i, label: "allocation-dropped-or-added".into(), migrate_from: None });
            }
        }
    }
    // the stated assumption of leaf_binds_sender (equal address lengths) is needed: with the
    // mock chain's free-form addresses, "buyer11" can present the proof of ("buyer1", 15) as
    // ("buyer11", 5) -- the composed strings are identical.  Recorded, not a violation.
    cases.push(Case::Mint {
        variant: 4, tiered: false,
        entries: vec![(None, "buyer1".into(), Some(15)), (None, "buyer2".into(), Some(1))],
        sender: "buyer11".into(), stage: None, alloc: Some(5), proof_of: 0, label: "caveat-different-length-address".into(), migrate_from: None,
    });

    // ---- instantiate probes and execute histories
    cases.extend(flat_hist_cases(a, &mut rng));
    cases.extend(tiered_hist_cases(a, &mut rng));
    cases
}

/// stored (cw2 name, version) pairs for the migrate grid, derived from what the contract itself
/// stores at instantiate: old releases, current-1 patch, current (all accepted from the wasm
/// admin), then current+1 patch, next major, garbage, and a foreign name (all refused)
fn migrate_grid(current: &str) -> Vec<(Option<String>, String)> {
    let cur = semver::Version::parse(current).expect("contract version");
    let prev = if cur.patch > 0 {
        format!("{}.{}.{}", cur.major, cur.minor, cur.patch - 1)
    } else if cur.minor > 0 {
        format!("{}.{}.{}", cur.major, cur.minor - 1, 99)
    } else {
        format!("{}.{}.{}", cur.major.saturating_sub(1), 99, 99)
    };
    let mut v: Vec<(Option<String>, String)> = vec![];
    for ver in ["0.1.0".to_string(), "3.0.0".into(), "3.9.0".into(), prev, current.to_string(),
                format!("{}.{}.{}", cur.major, cur.minor, cur.patch + 1), format!("{}.{}.{}", cur.major, cur.minor + 1, 0),
                format!("{}.0.0", cur.major + 1), "garbage".into(), format!("{}.{}", cur.major, cur.minor), String::new()] {
        v.push((None, ver));
    }
    for ver in ["3.0.0".to_string(), current.to_string()] {
        v.push((Some("crates.io:sg-whitelist".to_string()), ver.clone()));
        v.push((Some("crates.io:whitelist-merkletree-x".to_string()), ver));
    }
    v
}
fn stored_version(tiered: bool) -> String {
    let mut app = fresh_app();
    let addr = if tiered {
        let code = app.store_code(chain::tiered_whitelist_merkletree());
        let b = build_tree(true, &["x".to_string()], None);
        let s0 = BASE + 1000 * SEC;
        instantiate_tiered(&mut app, code, &TieredInit {
            roots: vec![b.root_hex()], uris: None, stages: vec![StageSpec { start: s0, end: s0 + SEC, denom: NATIVE.into(), limit: 1 }],
            admins: vec![CREATOR.into()], mutable: true, funds: vec![(NATIVE.to_string(), FEE)],
        }).expect("tiered instantiate")
    } else {
        let code = app.store_code(chain::whitelist_merkletree());
        let b = build_tree(false, &["x".to_string()], None);
        instantiate_flat(&mut app, code, &flat_default(&b.root_hex(), BASE)).expect("flat instantiate")
    };
    crate::w_migrate::get_cw2(&app, &addr).1
}
fn raw_update_flat(root: &str) -> String {
    json!({"update_merkle_tree": {"merkle_root": root, "merkle_tree_uri": null}}).to_string()
}
fn raw_update_tiered(roots: &[String]) -> String {
    json!({"update_merkle_tree": {"merkle_roots": roots, "merkle_tree_uris": null}}).to_string()
}

fn flat_hist_cases(a: &Args, rng: &mut Rng) -> Vec<Case> {
    let mut v = vec![];
    let ms = Members::Short { n: 6 }.list();
    let b = build_tree(false, &ms, None);
    let root = b.root_hex();
    let other_root: String = build_tree(false, &["evil".to_string()], None).root_hex();
    let d = flat_default(&root, BASE);
    let q = |i: usize| FlatOp::Query { member: ms[i].clone(), proof: b.proof_hex(i) };
    // instantiate probes (one guard at a time, bound-1 / bound / bound+1)
    let mut inits: Vec<(u64, FlatInit)> = vec![(BASE, d.clone())];
    for r in [
        root[..62].to_string(), format!("{}00", root), root[..32].to_string(), root[..63].to_string(), String::new(),
        format!("g{}", &root[1..]), root.to_uppercase(), format!("0x{}", &root[2..]),
    ] {
        inits.push((BASE, FlatInit { root: r, ..d.clone() }));
    }
    for f in [vec![], vec![(NATIVE.to_string(), FEE - 1)], vec![(NATIVE.to_string(), FEE + 1)], vec![("uother".to_string(), FEE)],
              vec![(NATIVE.to_string(), FEE), ("uother".to_string(), 1)]] {
        inits.push((BASE, FlatInit { funds: f, ..d.clone() }));
    }
    for (s, e) in [(BASE - 1, d.end), (BASE, d.end), (BASE + 1, d.end), (d.end - 1, d.end), (d.end, d.end), (d.end + 1, d.end)] {
        inits.push((BASE, FlatInit { start: s, end: e, ..d.clone() }));
    }
    // before genesis: start below / at / above the genesis mint start time
    let early = chain::GENESIS_NS - 100 * SEC;
    for s in [chain::GENESIS_NS - 1, chain::GENESIS_NS, chain::GENESIS_NS + 1] {
        inits.push((early, FlatInit { start: s, ..d.clone() }));
    }
    inits.push((BASE, FlatInit { uri: Some("https://example.com/tree.json".into()), ..d.clone() }));
    inits.push((BASE, FlatInit { uri: Some("not a url".into()), ..d.clone() }));
    inits.push((BASE, FlatInit { admins: vec!["x".into()], ..d.clone() }));
    inits.push((BASE, FlatInit { admins: vec![], mutable: false, ..d.clone() }));
    for (now, init) in inits {
        v.push(Case::FlatHist { members: None, now, init, ops: vec![q(0)] });
    }
    // ROOT SPELLINGS: every spelling, then (if accepted) a query per entry, an Execute, an upgrade
    let blake_root = build_tree(true, &ms, None).root_hex();
    for (si, (_name, sp)) in spellings(&root, &blake_root).into_iter().enumerate() {
        let init = FlatInit { root: sp, admins: vec![CREATOR.into(), ADMIN2.into()], ..d.clone() };
        v.push(Case::FlatHist { members: None,
            now: BASE, init,
            ops: vec![
                q(si % 6), q((si + 1) % 6), FlatOp::Query { member: ms[0].clone(), proof: b.proof_hex(1) },
                FlatOp::Exec { now: BASE + 5, sender: CREATOR.into(), kind: FlatOpKind::UpdateEnd(d.end + 7) },
                FlatOp::Exec { now: BASE + 6, sender: CREATOR.into(), kind: FlatOpKind::Migrate { name: None, version: "3.0.0".into() } },
                q((si + 2) % 6),
            ],
        });
    }
    // OPTIONAL FIELDS present and absent: tree uri None / Some(valid) / Some("") / Some(invalid),
    // admins none / one / two, limits 0 / 1 / u32::MAX, mutable or not -- each with the full sweep
    let mut oi = 0usize;
    for uri in [None, Some("https://example.com/tree.json".to_string()), Some("ipfs://bafy/tree".to_string()), Some(String::new()), Some("not a url".to_string())] {
        for admins in [vec![], vec![CREATOR.to_string()], vec![CREATOR.to_string(), ADMIN2.to_string()]] {
            for limit in [0u32, 1, u32::MAX] {
                oi += 1;
                let init = FlatInit { uri: uri.clone(), admins: admins.clone(), limit, mutable: oi % 2 == 0, root: if oi % 4 == 1 { root.to_uppercase() } else { root.clone() }, ..d.clone() };
                v.push(Case::FlatHist { members: None,
                    now: BASE, init,
                    ops: vec![
                        q(oi % 6),
                        FlatOp::Exec { now: BASE + 5, sender: CREATOR.into(), kind: FlatOpKind::UpdateEnd(d.end + 7) },
                        FlatOp::Exec { now: BASE + 6, sender: CREATOR.into(), kind: FlatOpKind::Migrate { name: None, version: "3.9.0".into() } },
                        FlatOp::Exec { now: BASE + 7, sender: CREATOR.into(), kind: FlatOpKind::Freeze },
                        q((oi + 3) % 6), FlatOp::Query { member: "evil".into(), proof: vec![] },
                    ],
                });
            }
        }
    }
    // guard-boundary probes of every Execute message, every sender role
    let two_admins = FlatInit { admins: vec![CREATOR.into(), ADMIN2.into()], ..d.clone() };
    for sender in [CREATOR, ADMIN2, STRANGER] {
        let ex = |now: u64, kind: FlatOpKind| FlatOp::Exec { now, sender: sender.to_string(), kind };
        for now in [d.start - 1, d.start, d.start + 1] {
            v.push(Case::FlatHist { members: None, now: BASE, init: two_admins.clone(), ops: vec![ex(now, FlatOpKind::UpdateStart(d.start + 5)), q(1)] });
            v.push(Case::FlatHist { members: None, now: BASE, init: two_admins.clone(), ops: vec![ex(now, FlatOpKind::UpdateEnd(d.end + 5)), ex(now, FlatOpKind::UpdateEnd(d.end)), q(1)] });
        }
        for t in [d.end - 1, d.end, d.end + 1, chain::GENESIS_NS - 1, chain::GENESIS_NS, 0] {
            v.push(Case::FlatHist { members: None, now: BASE, init: two_admins.clone(), ops: vec![ex(BASE + 5, FlatOpKind::UpdateStart(t)), q(2)] });
        }
        for t in [d.start - 1, d.start, d.start + 1, d.end - 1, d.end + 1] {
            v.push(Case::FlatHist { members: None, now: BASE, init: two_admins.clone(), ops: vec![ex(BASE + 5, FlatOpKind::UpdateEnd(t)), ex(d.start + 1, FlatOpKind::UpdateEnd(t)), q(2)] });
        }
        v.push(Case::FlatHist { members: None,
            now: BASE, init: two_admins.clone(),
            ops: vec![ex(BASE + 1, FlatOpKind::UpdateAdmins(vec![STRANGER.into()])), ex(BASE + 2, FlatOpKind::Freeze), ex(BASE + 3, FlatOpKind::UpdateAdmins(vec![CREATOR.into()])), ex(BASE + 4, FlatOpKind::Freeze), q(3)],
        });
        v.push(Case::FlatHist { members: None, now: BASE, init: two_admins.clone(), ops: vec![ex(BASE + 1, FlatOpKind::UpdateAdmins(vec!["x".into()])), ex(BASE + 1, FlatOpKind::UpdateAdmins(vec![])), q(3)] });
        // the handler that exists but is not dispatched, under the conditions it would accept
        for now in [BASE + 1, d.start + 1, d.end - 1, d.end, d.end + 1] {
            v.push(Case::FlatHist { members: None,
                now: BASE, init: two_admins.clone(),
                ops: vec![
                    ex(now, FlatOpKind::Raw(raw_update_flat(&other_root))),
                    ex(now, FlatOpKind::Raw(json!({"update_merkle_root": other_root}).to_string())),
                    ex(now, FlatOpKind::Raw(json!({"update_merkle_tree": [other_root, null]}).to_string())),
                    q(4),
                    FlatOp::Query { member: "evil".into(), proof: vec![] },
                ],
            });
        }
    }
    // migrate: every stored (name, version) pair of the grid, from the wasm admin (CREATOR),
    // a contract-level admin that is not the wasm admin (ADMIN2) and a stranger; before the
    // window, inside it and after it; followed by ordinary calls and another migrate
    let cur = stored_version(false);
    let grid = migrate_grid(&cur);
    for (gi, (name, ver)) in grid.iter().enumerate() {
        for (si, sender) in [CREATOR, ADMIN2, STRANGER].into_iter().enumerate() {
            let t = [BASE + 5, d.start + 5, d.end + 5][(gi + si) % 3];
            let mg = |now: u64, who: &str, name: &Option<String>, ver: &str| FlatOp::Exec { now, sender: who.to_string(), kind: FlatOpKind::Migrate { name: name.clone(), version: ver.to_string() } };
            v.push(Case::FlatHist { members: None,
                now: BASE, init: two_admins.clone(),
                ops: vec![
                    q(gi % 6), mg(t, sender, name, ver), q(gi % 6), q((gi + 1) % 6),
                    FlatOp::Query { member: ms[0].clone(), proof: b.proof_hex(1) },
                    FlatOp::Exec { now: t + 1, sender: CREATOR.into(), kind: FlatOpKind::UpdateEnd(d.end + 100) },
                    mg(t + 2, CREATOR, &None, "3.0.0"), q(5),
                    FlatOp::Exec { now: t + 3, sender: CREATOR.into(), kind: FlatOpKind::Raw(raw_update_flat(&other_root)) },
                ],
            });
        }
    }
    // the same upgrade over a root stored in upper / mixed case: the stored string itself stays
    for mode in [1u8, 2] {
        let init = FlatInit { root: spell(&root, mode), ..two_admins.clone() };
        for ver in ["3.0.0".to_string(), "3.9.0".into(), cur.clone()] {
            v.push(Case::FlatHist { members: None,
                now: BASE, init: init.clone(),
                ops: vec![
                    q(1), FlatOp::Exec { now: BASE + 5, sender: CREATOR.into(), kind: FlatOpKind::Migrate { name: None, version: ver.clone() } }, q(1), q(4),
                    FlatOp::Exec { now: BASE + 6, sender: STRANGER.into(), kind: FlatOpKind::Migrate { name: None, version: ver } }, q(2),
                ],
            });
        }
    }
    // structured random histories
    let nh = if a.thorough() { 400 } else { 40 };
    for _ in 0..nh {
        let init = if rng.chance(1, 4) { FlatInit { mutable: false, ..two_admins.clone() } } else { two_admins.clone() };
        let mut ops = vec![];
        let (mut st, mut en) = (init.start, init.end);
        let mut now = BASE;
        for _ in 0..rng.range(8, 30) {
            now = match rng.below(6) {
                0 => st.saturating_sub(rng.below(3)),
                1 => st + rng.below(3),
                2 => en + rng.below(3) - 1,
                3 => now + rng.below(50) * SEC,
                _ => now + 1,
            };
            let sender = if rng.chance(3, 4) { *rng.pick(&[CREATOR, ADMIN2]) } else { STRANGER };
            let around = |rng: &mut Rng, x: u64| x + rng.below(5) - 2;
            let kind = match rng.below(13) {
                0 | 1 | 2 => { let t = if rng.chance(1, 2) { around(rng, en) } else { around(rng, now + 10 * SEC) }; FlatOpKind::UpdateStart(t) }
                3 | 4 | 5 => { let t = if rng.chance(1, 2) { around(rng, st) } else { around(rng, en + 10 * SEC) }; FlatOpKind::UpdateEnd(t) }
                6 | 7 => FlatOpKind::UpdateAdmins(if rng.chance(1, 5) { vec!["x".into()] } else { vec![CREATOR.into(), rng.pick(&[ADMIN2, STRANGER]).to_string()] }),
                8 => FlatOpKind::Freeze,
                9 => FlatOpKind::Raw(raw_update_flat(&other_root)),
                10 => {
                    let (name, ver) = rng.pick(&grid).clone();
                    FlatOpKind::Migrate { name, version: ver }
                }
                _ => {
                    let i = rng.below(ms.len() as u64) as usize;
                    ops.push(if rng.chance(3, 4) { q(i) } else { FlatOp::Query { member: ms[i].clone(), proof: b.proof_hex((i + 1) % ms.len()) } });
                    continue;
                }
            };
            // keep the generator's idea of the window roughly in step with accepted updates
            if let FlatOpKind::UpdateStart(t) = &kind { if sender != STRANGER && now < st && *t <= en { st = (*t).max(chain::GENESIS_NS); } }
            if let FlatOpKind::UpdateEnd(t) = &kind { if sender != STRANGER && *t >= st && !(now >= st && *t > en) { en = *t; } }
            ops.push(FlatOp::Exec { now, sender: sender.to_string(), kind });
        }
        ops.push(q(0));
        v.push(Case::FlatHist { members: None, now: BASE, init, ops });
    }
    // histories over the true root (any spelling): sweep membership after every step
    for c in v.iter_mut() {
        if let Case::FlatHist { init, members, .. } = c {
            if denotes(&init.root, 32) == hex::decode(&root).ok() {
                *members = Some(Members::Short { n: 6 });
            }
        }
    }
    v
}

fn tiered_hist_cases(a: &Args, rng: &mut Rng) -> Vec<Case> {
    let mut v = vec![];
    let stages = three_stages(2); // three stages
    let lists: Vec<Vec<String>> = (0..3).map(|s| Members::Stars { n: 4 + s, salt: 40 + s as u64, dups: vec![] }.list()).collect();
    let built: Vec<Built> = lists.iter().map(|l| build_tree(true, l, None)).collect();
    let roots: Vec<String> = built.iter().map(|b| b.root_hex()).collect();
    let evil = build_tree(true, &["evil".to_string()], None).root_hex();
    let d = TieredInit { roots: roots.clone(), uris: None, stages: stages.clone(), admins: vec![CREATOR.into(), ADMIN2.into()], mutable: true, funds: vec![(NATIVE.to_string(), FEE)] };
    let q = |s: usize, i: usize, now: u64| TieredOp::Query { now, member: built[s].members[i].clone(), proof: built[s].proof_hex(i) };
    let mid = |s: usize| (stages[s].start + stages[s].end) / 2;
    // instantiate probes
    let mut inits: Vec<TieredInit> = vec![d.clone()];
    let sha_root = build_tree(false, &["x".to_string()], None).root_hex();
    for rs in [
        vec![], roots[..1].to_vec(), roots[..2].to_vec(), { let mut r = roots.clone(); r.push(evil.clone()); r },
        vec![roots[0].clone(), sha_root.clone(), roots[2].clone()], vec![roots[0].clone(), roots[1][..30].to_string(), roots[2].clone()],
        vec![roots[0].to_uppercase(), roots[1].clone(), format!("g{}", &roots[2][1..])],
    ] {
        inits.push(TieredInit { roots: rs, ..d.clone() });
    }
    for f in [vec![], vec![(NATIVE.to_string(), FEE - 1)], vec![(NATIVE.to_string(), FEE + 1)], vec![("uother".to_string(), FEE)]] {
        inits.push(TieredInit { funds: f, ..d.clone() });
    }
    let st = |s: u64, e: u64, lim: u32, den: &str| StageSpec { start: s, end: e, denom: den.into(), limit: lim };
    let s0 = stages[0].start;
    for ss in [
        vec![],
        vec![st(s0, s0 + 10, 1, NATIVE), st(s0 + 10, s0 + 20, 1, NATIVE), st(s0 + 20, s0 + 30, 1, NATIVE), st(s0 + 30, s0 + 40, 1, NATIVE)],
        vec![st(s0, s0 + 10, 0, NATIVE)], vec![st(s0, s0 + 10, 50, NATIVE)], vec![st(s0, s0 + 10, 51, NATIVE)],
        vec![st(s0, s0 + 10, 1, NATIVE), st(s0 + 10, s0 + 20, 1, "uother")],
        vec![st(BASE - 1, s0, 1, NATIVE)], vec![st(BASE, s0, 1, NATIVE)], vec![st(BASE + 1, s0, 1, NATIVE)],
        vec![st(s0, s0, 1, NATIVE)], vec![st(s0, s0 + 1, 1, NATIVE)], vec![st(s0 + 1, s0, 1, NATIVE)],
        vec![st(s0, s0 + 10, 1, NATIVE), st(s0 + 9, s0 + 20, 1, NATIVE)], vec![st(s0, s0 + 10, 1, NATIVE), st(s0 + 10, s0 + 20, 1, NATIVE)],
        vec![st(s0, s0 + 10, 1, NATIVE), st(s0 + 30, s0 + 40, 1, NATIVE), st(s0 + 15, s0 + 20, 1, NATIVE)],
    ] {
        inits.push(TieredInit { stages: ss, ..d.clone() });
    }
    inits.push(TieredInit { uris: Some(vec!["https://example.com/a".into(), "not a url".into()]), ..d.clone() });
    inits.push(TieredInit { uris: Some(vec!["ipfs://abc".into()]), ..d.clone() });
    inits.push(TieredInit { admins: vec!["x".into()], ..d.clone() });
    for init in inits {
        let ops = if init.stages.is_empty() { vec![] } else { vec![q(0, 0, (init.stages[0].start + init.stages[0].end) / 2)] };
        v.push(Case::TieredHist { lists: vec![], now: BASE, init, ops });
    }
    // guard-boundary probes of UpdateStageConfig, every sender role
    for sender in [CREATOR, ADMIN2, STRANGER] {
        let ex = |now: u64, kind: TieredOpKind| TieredOp::Exec { now, sender: sender.to_string(), kind };
        let us = |id: u32, start: Option<u64>, end: Option<u64>, denom: Option<&str>, limit: Option<u32>| TieredOpKind::UpdateStage { id, start, end, denom: denom.map(|x| x.to_string()), limit };
        for id in [0u32, 1, 2, 3, 4294967295] {
            v.push(Case::TieredHist { lists: vec![], now: BASE, init: d.clone(), ops: vec![ex(BASE + 1, us(id, None, None, None, Some(9))), q(1, 0, mid(1))] });
        }
        for lim in [0u32, 1, 50, 51] {
            v.push(Case::TieredHist { lists: vec![], now: BASE, init: d.clone(), ops: vec![ex(BASE + 1, us(1, None, None, None, Some(lim))), q(1, 1, mid(1))] });
        }
        // move stage 1's window: overlap with 0 / touch / gap; then who is active at the old mid instants
        for (ns, ne) in [
            (Some(stages[0].end - 1), None), (Some(stages[0].end), None), (Some(stages[0].end + 1), None),
            (None, Some(stages[2].start - 1)), (None, Some(stages[2].start)), (None, Some(stages[2].start + 1)),
            (Some(stages[1].end), None), (Some(stages[1].end - 1), None), (None, Some(stages[1].start)),
            (Some(mid(1)), Some(mid(1) + 10)),
        ] {
            v.push(Case::TieredHist { lists: vec![],
                now: BASE, init: d.clone(),
                ops: vec![ex(BASE + 1, us(1, ns, ne, None, None)), q(1, 0, mid(1)), q(1, 0, mid(1) + 11), q(1, 0, stages[1].start), q(0, 0, stages[1].start), q(1, 0, stages[2].start - 1), q(2, 0, stages[2].start)],
            });
        }
        v.push(Case::TieredHist { lists: vec![], now: BASE, init: d.clone(), ops: vec![ex(BASE + 1, us(0, None, None, Some("uother"), None)), ex(mid(0), us(0, Some(BASE), None, None, None)), q(0, 0, BASE + 5)] });
        v.push(Case::TieredHist { lists: vec![],
            now: BASE, init: d.clone(),
            ops: vec![ex(BASE + 1, TieredOpKind::UpdateAdmins(vec![STRANGER.into()])), ex(BASE + 2, TieredOpKind::Freeze), ex(BASE + 3, TieredOpKind::UpdateAdmins(vec![CREATOR.into()])), ex(BASE + 4, us(2, None, None, None, Some(3))), q(2, 1, mid(2))],
        });
        // the undispatched update handler, at times when it would accept (all stages ended)
        for now in [BASE + 1, mid(1), stages[2].end - 1, stages[2].end, stages[2].end + 1] {
            v.push(Case::TieredHist { lists: vec![],
                now: BASE, init: d.clone(),
                ops: vec![
                    ex(now, TieredOpKind::Raw(raw_update_tiered(&[evil.clone(), evil.clone(), evil.clone()]))),
                    ex(now, TieredOpKind::Raw(json!({"update_merkle_roots": [evil.clone()]}).to_string())),
                    q(0, 0, mid(0)),
                    TieredOp::Query { now: mid(0), member: "evil".into(), proof: vec![] },
                ],
            });
        }
    }
    // ROOT SPELLINGS for every stage root (one position at a time, then all three)
    let sha_of_first = build_tree(false, &lists[0], None).root_hex();
    let per_root: Vec<Vec<(&'static str, String)>> = roots.iter().map(|r| spellings(r, &sha_of_first)).collect();
    let nsp = per_root[0].len();
    for si in 0..nsp {
        for pos in 0..4usize {
            if pos < 3 && !a.thorough() && si < 3 && pos != si % 3 {
                continue; // accepted spellings: one position each in the quick tier (all three together below)
            }
            let rs: Vec<String> = (0..3).map(|k| if pos == 3 || pos == k { per_root[k][si].1.clone() } else { roots[k].clone() }).collect();
            v.push(Case::TieredHist { lists: vec![],
                now: BASE, init: TieredInit { roots: rs, ..d.clone() },
                ops: vec![
                    q(0, si % 4, mid(0)), q(1, si % 5, mid(1)), q(2, si % 6, mid(2)), q(1, 0, mid(0)),
                    TieredOp::Exec { now: BASE + 5, sender: CREATOR.into(), kind: TieredOpKind::UpdateStage { id: 2, start: None, end: Some(stages[2].end + 9), denom: None, limit: None } },
                    TieredOp::Exec { now: BASE + 6, sender: CREATOR.into(), kind: TieredOpKind::Migrate { name: None, version: "3.0.0".into() } },
                    q(2, 1, mid(2)),
                ],
            });
        }
    }
    // OPTIONAL FIELDS present and absent: tree uris None / Some([]) / one per stage / fewer / more /
    // an invalid one, admins none / one / two, mutable or not -- each with the full sweep
    let mut oi = 0usize;
    for uris in [None, Some(vec![]), Some(vec!["https://example.com/a".to_string(), "ipfs://b".to_string(), "https://example.com/c".to_string()]),
                 Some(vec!["https://example.com/a".to_string()]), Some((0..5).map(|k| format!("https://example.com/{}", k)).collect()),
                 Some(vec!["https://example.com/a".to_string(), "not a url".to_string(), "ipfs://c".to_string()]), Some(vec![String::new()])] {
        for admins in [vec![], vec![CREATOR.to_string()], vec![CREATOR.to_string(), ADMIN2.to_string()]] {
            for nst in [1usize, 3] {
                oi += 1;
                let init = TieredInit { uris: uris.clone(), admins: admins.clone(), mutable: oi % 2 == 0, stages: stages[..nst].to_vec(), roots: roots[..nst].to_vec(), ..d.clone() };
                v.push(Case::TieredHist { lists: vec![],
                    now: BASE, init,
                    ops: vec![
                        q(0, oi % 4, mid(0)),
                        TieredOp::Exec { now: BASE + 5, sender: CREATOR.into(), kind: TieredOpKind::UpdateStage { id: 0, start: None, end: None, denom: None, limit: Some(2) } },
                        TieredOp::Exec { now: BASE + 6, sender: CREATOR.into(), kind: TieredOpKind::Migrate { name: None, version: "3.9.0".into() } },
                        TieredOp::Exec { now: BASE + 7, sender: CREATOR.into(), kind: TieredOpKind::Freeze },
                        q(0, (oi + 1) % 4, mid(0)), TieredOp::Query { now: mid(0), member: "evil".into(), proof: vec![] },
                    ],
                });
            }
        }
    }
    // re-scheduling by the admin, every stage index: in place, shrink, grow to touch, overlap or
    // cross the previous / next stage, swap order completely, move before the first / after the
    // last, into the gap -- before the stages and while one is running; then restore
    for id in 0..3usize {
        let w = &stages;
        let (st, en) = (w[id].start, w[id].end);
        let mut wins: Vec<(&str, Option<u64>, Option<u64>)> = vec![
            ("same", Some(st), Some(en)), ("none", None, None), ("shrink", Some(st + 10 * SEC), Some(en - 10 * SEC)),
            ("before-first", Some(w[0].start - 50 * SEC), Some(w[0].start - 20 * SEC)),
            ("after-last", Some(w[2].end + 10 * SEC), Some(w[2].end + 60 * SEC)),
            ("into-gap", Some(w[1].end + 10 * SEC), Some(w[2].start - 10 * SEC)),
            ("fill-gap-exactly", Some(w[1].end), Some(w[2].start)),
        ];
        if id < 2 {
            let nx = &w[id + 1];
            wins.push(("touch-next", None, Some(nx.start)));
            wins.push(("overlap-next", None, Some(nx.start + 5 * SEC)));
            wins.push(("inside-next", Some(nx.start + SEC), Some(nx.end - SEC)));
            wins.push(("swap-after-next", Some(nx.end + SEC), Some(nx.end + 20 * SEC)));
            wins.push(("cover-next", Some(st), Some(nx.end + SEC)));
        }
        if id > 0 {
            let pv = &w[id - 1];
            wins.push(("touch-prev", Some(pv.end), None));
            wins.push(("overlap-prev", Some(pv.end - 5 * SEC), None));
            wins.push(("inside-prev", Some(pv.start + SEC), Some(pv.end - SEC)));
            wins.push(("swap-before-prev", Some(pv.start - 30 * SEC), Some(pv.start - 10 * SEC)));
        }
        for (wi, (_lab, ns, ne)) in wins.iter().enumerate() {
            for (ti, t) in [BASE + 5, mid(0), mid(1)].into_iter().enumerate() {
                if !a.thorough() && (wi + ti + id) % 3 == 2 && wi > 2 {
                    continue;
                }
                let sender = if (wi + ti) % 7 == 6 { STRANGER } else if ti == 1 { ADMIN2 } else { CREATOR };
                let up = |now: u64, who: &str, s: Option<u64>, e: Option<u64>| TieredOp::Exec {
                    now, sender: who.to_string(), kind: TieredOpKind::UpdateStage { id: id as u32, start: s, end: e, denom: None, limit: None },
                };
                let nm = (ns.unwrap_or(st) + ne.unwrap_or(en)) / 2;
                v.push(Case::TieredHist { lists: vec![],
                    now: BASE, init: d.clone(),
                    ops: vec![
                        q(id, 0, mid(id)), up(t, sender, *ns, *ne),
                        q(0, 0, mid(0)), q(1, 0, mid(1)), q(2, 0, mid(2)), q(id, 1, nm), q((id + 1) % 3, 0, nm), q((id + 2) % 3, 0, nm),
                        up(t + 1, CREATOR, Some(st), Some(en)), q(id, 0, mid(id)), q((id + 1) % 3, 0, mid(id)),
                    ],
                });
            }
        }
    }
    // migrate grid (as for the flat contract), at instants before / inside / after the stages
    let cur = stored_version(true);
    let grid = migrate_grid(&cur);
    for (gi, (name, ver)) in grid.iter().enumerate() {
        for (si, sender) in [CREATOR, ADMIN2, STRANGER].into_iter().enumerate() {
            let t = [BASE + 5, mid(0), mid(1) + 3, stages[2].end + 5][(gi + si) % 4];
            let name = name.as_ref().map(|n| n.replace("whitelist-merkletree-x", "tiered-whitelist-merkletree-x"));
            let mg = |now: u64, who: &str, name: &Option<String>, ver: &str| TieredOp::Exec { now, sender: who.to_string(), kind: TieredOpKind::Migrate { name: name.clone(), version: ver.to_string() } };
            v.push(Case::TieredHist { lists: vec![],
                now: BASE, init: d.clone(),
                ops: vec![
                    q(0, gi % 4, mid(0)), mg(t, sender, &name, ver), q(0, gi % 4, mid(0)), q(1, gi % 5, mid(1)), q(2, gi % 6, mid(2)),
                    q(1, 0, mid(0)), q(0, 0, stages[1].start),
                    TieredOp::Exec { now: t + 1, sender: CREATOR.into(), kind: TieredOpKind::UpdateStage { id: 2, start: None, end: Some(stages[2].end + 50), denom: None, limit: Some(3) } },
                    mg(t + 2, CREATOR, &None, "3.0.0"), q(2, 1, mid(2)),
                    TieredOp::Exec { now: t + 3, sender: CREATOR.into(), kind: TieredOpKind::Raw(raw_update_tiered(&[evil.clone(), evil.clone(), evil.clone()])) },
                ],
            });
        }
    }
    for mode in [1u8, 2] {
        let init = TieredInit { roots: roots.iter().map(|r| spell(r, mode)).collect(), ..d.clone() };
        for ver in ["3.0.0".to_string(), cur.clone()] {
            v.push(Case::TieredHist { lists: vec![],
                now: BASE, init: init.clone(),
                ops: vec![
                    q(0, 1, mid(0)), TieredOp::Exec { now: BASE + 5, sender: CREATOR.into(), kind: TieredOpKind::Migrate { name: None, version: ver } },
                    q(0, 1, mid(0)), q(1, 2, mid(1)), q(2, 3, mid(2)),
                ],
            });
        }
    }
    // every integer literal of the tiered contract's source (and neighbours) joins the limit pool
    let mut limit_pool: Vec<u32> = vec![0, 1, 2, 49, 50, 51];
    for l in harvest_literals(&[
        "contracts/whitelists/tiered-whitelist-merkletree/src/contract.rs",
        "contracts/whitelists/tiered-whitelist-merkletree/src/helpers/utils.rs",
    ]) {
        for d in [l.saturating_sub(1), l, l.saturating_add(1)] {
            if d <= u32::MAX as u128 {
                limit_pool.push(d as u32);
            }
        }
    }
    // structured random histories
    let nh = if a.thorough() { 400 } else { 40 };
    for _ in 0..nh {
        let nst = rng.range(1, 3) as usize;
        let nroots = if rng.chance(1, 6) { rng.range(0, 3) as usize } else { nst };
        let init = TieredInit { roots: roots[..nroots].to_vec(), stages: stages[..nst].to_vec(), mutable: !rng.chance(1, 5), ..d.clone() };
        let mut ops = vec![];
        let mut now = BASE;
        let edge = |rng: &mut Rng| -> u64 {
            let s = &stages[rng.below(3) as usize];
            let e = if rng.chance(1, 2) { s.start } else { s.end };
            e + rng.below(5) - 2
        };
        for _ in 0..rng.range(8, 30) {
            now = if rng.chance(1, 3) { edge(rng) } else { now + 1 + rng.below(30) * SEC };
            let sender = if rng.chance(3, 4) { *rng.pick(&[CREATOR, ADMIN2]) } else { STRANGER };
            let kind = match rng.below(11) {
                0..=3 => TieredOpKind::UpdateStage {
                    id: if rng.chance(1, 8) { 3 } else { rng.below(nst as u64) as u32 },
                    start: if rng.chance(1, 2) { Some(edge(rng)) } else { None },
                    end: if rng.chance(1, 2) { Some(edge(rng)) } else { None },
                    denom: if rng.chance(1, 8) { Some("uother".to_string()) } else if rng.chance(1, 4) { Some(NATIVE.to_string()) } else { None },
                    limit: if rng.chance(1, 3) { Some(*rng.pick(&limit_pool)) } else { None },
                },
                4 => TieredOpKind::UpdateAdmins(if rng.chance(1, 5) { vec!["x".into()] } else { vec![CREATOR.into(), rng.pick(&[ADMIN2, STRANGER]).to_string()] }),
                5 => TieredOpKind::Freeze,
                6 => TieredOpKind::Raw(raw_update_tiered(&[evil.clone()])),
                7 => {
                    let (name, ver) = rng.pick(&grid).clone();
                    TieredOpKind::Migrate { name, version: ver }
                }
                _ => {
                    let s = rng.below(3) as usize;
                    let i = rng.below(built[s].members.len() as u64) as usize;
                    let t = if rng.chance(1, 2) { edge(rng) } else { mid(rng.below(3) as usize) };
                    ops.push(q(s, i, t));
                    continue;
                }
            };
            ops.push(TieredOp::Exec { now, sender: sender.to_string(), kind });
        }
        for s in 0..3 {
            ops.push(q(s, 0, mid(s)));
        }
        v.push(Case::TieredHist { lists: vec![], now: BASE, init, ops });
    }
    // histories whose stored roots are the first k true roots: sweep membership after every step
    for c in v.iter_mut() {
        if let Case::TieredHist { init, lists, .. } = c {
            if !init.roots.is_empty() && init.roots.len() <= 3 && init.roots.iter().zip(roots.iter()).all(|(x, y)| denotes(x, 16).is_some() && denotes(x, 16) == hex::decode(y).ok()) {
                *lists = (0..init.roots.len()).map(|s| Members::Stars { n: 4 + s, salt: 40 + s as u64, dups: vec![] }).collect();
            }
        }
    }
    v
}

// ---------------------------------------------------------------- driver
pub fn run(a: &Args) {
    let out = OutDir::new(&a.out);
    let mut rep = Report { property: "C14".into(), tier: a.tier.clone(), seed: a.seed, ..Default::default() };
    let cases: Vec<Case> = if let Some(p) = &a.replay {
        #[derive(Deserialize)]
        struct ReplayFile {
            case: Case,
        }
        let txt = std::fs::read_to_string(p).expect("replay file");
        let rf: ReplayFile = serde_json::from_str(&txt).expect("replay json");
        vec![rf.case]
    } else {
        gen_cases(a)
    };
    let mut w = World::new();
    let mut coq_cases = Vec::with_capacity(cases.len());
    let mut distinct = BTreeSet::new();
    let mut nviol = 0;
    let mut seen_keys: BTreeMap<String, u32> = BTreeMap::new();
    for (i, c) in cases.iter().enumerate() {
        let o = run_case(&mut w, c);
        rep.evaluations += o.steps;
        for h in &o.hist {
            rep.bump(h);
        }
        if o.nontrivial {
            distinct.insert(serde_json::to_string(c).unwrap());
        }
        for (key, what) in &o.viol {
            nviol += 1;
            let k = seen_keys.entry(key.clone()).or_insert(0);
            *k += 1;
            if *k <= 3 {
                let body = format!(
                    "{{\n \"property\": \"C14\",\n \"key\": {},\n \"case\": {},\n \"observed\": {},\n \"violation\": {}\n}}\n",
                    serde_json::to_string(key).unwrap(),
                    serde_json::to_string(c).unwrap(),
                    serde_json::to_string(&o.observed).unwrap(),
                    serde_json::to_string(what).unwrap()
                );
                let path = out.write_replay(&format!("C14-{}-{}.json", key.replace("C14:", ""), k), &body);
                rep.violations.push(Violation { key: key.clone(), what: format!("{}: {} [{}]", kind(c), what, short(c)), replay: path });
            }
        }
        if rep.samples.len() < 3 && (i % 611 == 17 || a.replay.is_some()) {
            rep.samples.push(json!({"case": short(c), "impl_output": o.observed}));
        }
        coq_cases.push(o.coq);
    }
    rep.distinct_nontrivial = distinct.len() as u64;
    rep.rule = "member lists of sizes 1..=33, 64, 65 (thorough: +127..129, 1000, 4097) incl. duplicates and minter-style leaves; rs_merkle trees with SHA-256 and BLAKE3/16; whitelist-merkletree and tiered-whitelist-merkletree instantiated with the roots; HasMember for every member's own proof and for adversarial pairs (other member's proof, outsider, truncated, extended, reordered, one character flipped, wrong-length / non-hex / non-ascii elements, near-miss member strings, A's proof presented by B, other allocation / stage), tiered at 7 instants per stage (edges +-1 ns) and with fewer roots than stages; instantiate guard probes; every Execute message kind (and JSON that is not an ExecuteMsg) from admin / second admin / stranger at guard edges, then MerkleRoot(s). evaluations = contract calls + tree positions checked. Non-trivial = distinct case that is not a mere parse/funds rejection (query with a well-formed proof; history whose instantiate and at least one execute succeeded; tree; leaf with a number).".into();
    // stride order so that the six shards carry similar weight (cases of one kind are adjacent)
    let nn = coq_cases.len();
    let coq_cases: Vec<String> = (0..6).flat_map(|s| (s..nn).step_by(6)).map(|i| coq_cases[i].clone()).collect();
    out.write_cases("C14", "From Coq Require Import Uint63. From LP Require Import Pay Merkle C14Corr.", "c14_case", "c14_check", &coq_cases, 6, &mut rep);
    rep.notes.push("assumption named by the tie: no generated member string is 2*L bytes long (the one shape that can be is a bare 64-character contract address against the SHA-256 tree)".into());
    for c in &cases {
        if let Case::FlatQuery { member, .. } = c {
            if member.len() == 64 {
                rep.notes.push(format!("NOTE: a generated member string is 64 bytes long: {}", member));
                break;
            }
        }
    }
    out.finish(&rep);
    println!("C14 harness: {} cases ({} evaluations), {} monitor violations", cases.len(), rep.evaluations, nviol);
}

fn short(c: &Case) -> String {
    let s = format!("{:?}", c);
    if s.len() > 600 {
        format!("{}...", &s[..600])
    } else {
        s
    }
}
