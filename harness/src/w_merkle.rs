//! w_merkle: Merkle whitelist world.  Real trees (rs_merkle + SHA-256 / BLAKE3 truncated to
//! 16 bytes, sorted pair, as the repo's SortingSha256Hasher test helper), a log of every
//! (input, digest) pair the tree builder computed (the model's H is that finite table),
//! the two real whitelist contracts on a simulated chain, Coq printing of byte strings.
#![allow(dead_code, unused_imports)]
use crate::chain::{self, App};
use crate::util::*;
use cosmwasm_std::{coin, coins, Addr, Timestamp};
use cw_multi_test::Executor;
use rs_merkle::{Hasher, MerkleTree};
use std::cell::RefCell;
use std::collections::BTreeMap;

pub const CREATOR: &str = "creator";
pub const ADMIN2: &str = "admin2";
pub const STRANGER: &str = "stranger";
pub const FEE: u128 = 1_000_000_000; // documented creation fee of both Merkle whitelists

thread_local! {
    /// every hash computed through the logging hashers since the last `take_log`
    static LOG: RefCell<Vec<(Vec<u8>, Vec<u8>)>> = RefCell::new(Vec::new());
}
pub fn take_log() -> Vec<(Vec<u8>, Vec<u8>)> {
    LOG.with(|l| std::mem::take(&mut *l.borrow_mut()))
}
fn log(input: &[u8], out: &[u8]) {
    LOG.with(|l| l.borrow_mut().push((input.to_vec(), out.to_vec())));
}

pub fn sha256(data: &[u8]) -> [u8; 32] {
    use sha2::{Digest, Sha256};
    let mut h = Sha256::new();
    h.update(data);
    let out: [u8; 32] = h.finalize().into();
    log(data, &out);
    out
}
pub fn blake16(data: &[u8]) -> [u8; 16] {
    let full = blake3::hash(data);
    let out: [u8; 16] = full.as_bytes()[..16].try_into().unwrap();
    log(data, &out);
    out
}

/// rs_merkle hasher: SHA-256, pair sorted before concatenation (the repo's test helper
/// `SortingSha256Hasher`), odd node promoted (`None => *left`)
#[derive(Clone)]
pub struct SortSha;
impl Hasher for SortSha {
    type Hash = [u8; 32];
    fn hash(data: &[u8]) -> [u8; 32] {
        sha256(data)
    }
    fn concat_and_hash(left: &[u8; 32], right: Option<&[u8; 32]>) -> [u8; 32] {
        match right {
            Some(r) => {
                let mut both = [left, r];
                both.sort_unstable();
                let mut c: Vec<u8> = both[0].to_vec();
                c.extend_from_slice(both[1]);
                Self::hash(&c)
            }
            None => *left,
        }
    }
}
/// the same with BLAKE3 truncated to 16 bytes (what tiered-whitelist-merkletree verifies)
#[derive(Clone)]
pub struct SortBlake;
impl Hasher for SortBlake {
    type Hash = [u8; 16];
    fn hash(data: &[u8]) -> [u8; 16] {
        blake16(data)
    }
    fn concat_and_hash(left: &[u8; 16], right: Option<&[u8; 16]>) -> [u8; 16] {
        match right {
            Some(r) => {
                let mut both = [left, r];
                both.sort_unstable();
                let mut c: Vec<u8> = both[0].to_vec();
                c.extend_from_slice(both[1]);
                Self::hash(&c)
            }
            None => *left,
        }
    }
}

/// a built tree: root, per-position proofs (raw digests, bottom-up) and the hash table
pub struct Built {
    pub blake: bool,
    pub members: Vec<String>,
    pub root: Vec<u8>,
    pub proofs: Vec<Vec<Vec<u8>>>,
    pub table: Vec<(Vec<u8>, Vec<u8>)>,
}
impl Built {
    pub fn l(&self) -> usize {
        if self.blake {
            16
        } else {
            32
        }
    }
    pub fn root_hex(&self) -> String {
        hex::encode(&self.root)
    }
    pub fn proof_hex(&self, i: usize) -> Vec<String> {
        self.proofs[i].iter().map(hex::encode).collect()
    }
}

/// build with rs_merkle; `all_proofs` false => proofs only for `want` positions
pub fn build_tree(blake: bool, members: &[String], want: Option<&[usize]>) -> Built {
    let _ = take_log();
    let idx: Vec<usize> = match want {
        Some(w) => w.to_vec(),
        None => (0..members.len()).collect(),
    };
    let mut proofs = vec![vec![]; members.len()];
    let root;
    if blake {
        let leaves: Vec<[u8; 16]> = members.iter().map(|m| blake16(m.as_bytes())).collect();
        let t = MerkleTree::<SortBlake>::from_leaves(&leaves);
        root = t.root().expect("root").to_vec();
        for &i in &idx {
            proofs[i] = t.proof(&[i]).proof_hashes().iter().map(|h| h.to_vec()).collect();
        }
    } else {
        let leaves: Vec<[u8; 32]> = members.iter().map(|m| sha256(m.as_bytes())).collect();
        let t = MerkleTree::<SortSha>::from_leaves(&leaves);
        root = t.root().expect("root").to_vec();
        for &i in &idx {
            proofs[i] = t.proof(&[i]).proof_hashes().iter().map(|h| h.to_vec()).collect();
        }
    }
    let mut table = take_log();
    table.sort();
    table.dedup();
    Built { blake, members: members.to_vec(), root, proofs, table }
}

/// the (input, digest) pairs a verifier needs for (member, proof): the leaf digest and the
/// digest of the sorted concatenation at every step that has an L-byte element.  Elements that are not valid hex of L bytes
/// stop the chain (the contract errors there).
pub fn fold_table(blake: bool, member: &str, proof: &[String]) -> Vec<(Vec<u8>, Vec<u8>)> {
    let l = if blake { 16 } else { 32 };
    let _ = take_log();
    let h = |d: &[u8]| -> Vec<u8> {
        if blake {
            blake16(d).to_vec()
        } else {
            sha256(d).to_vec()
        }
    };
    let mut acc = h(member.as_bytes());
    for s in proof {
        let Ok(b) = hex::decode(s) else { break };
        if b.len() != l {
            break;
        }
        // only the order a sorting verifier hashes: a model that concatenated the other way
        // round would miss the table, which the correspondence check reports
        let (lo, hi) = if acc <= b { (acc.clone(), b.clone()) } else { (b.clone(), acc.clone()) };
        let mut c = lo;
        c.extend_from_slice(&hi);
        acc = h(&c);
    }
    let mut t = take_log();
    t.sort();
    t.dedup();
    t
}

// ---------- Coq printing ----------
/// `(B [k; c1; c2; ...]%uint63)`: big-endian 7-byte chunks as primitive integer literals, the
/// first chunk holding k = 1..7 bytes (Coq 8.16 reads only primitive integers quickly)
pub fn coq_bytes(b: &[u8]) -> String {
    if b.is_empty() {
        return "(B [])".to_string();
    }
    let k = if b.len() % 7 == 0 { 7 } else { b.len() % 7 };
    let mut parts = vec![k.to_string()];
    let mut i = 0;
    let mut take = k;
    while i < b.len() {
        let mut x: u64 = 0;
        for &c in &b[i..i + take] {
            x = (x << 8) | c as u64;
        }
        parts.push(x.to_string());
        i += take;
        take = 7;
    }
    format!("(B [{}]%uint63)", parts.join("; "))
}
pub fn coq_str(s: &str) -> String {
    coq_bytes(s.as_bytes())
}
pub fn coq_strs(v: &[String]) -> String {
    coq_list(&v.iter().map(|s| coq_str(s)).collect::<Vec<_>>())
}
pub fn coq_table(t: &[(Vec<u8>, Vec<u8>)]) -> String {
    coq_list(&t.iter().map(|(i, d)| format!("({}, {})", coq_bytes(i), coq_bytes(d))).collect::<Vec<_>>())
}
pub fn coq_res_bool(r: &Result<bool, String>) -> String {
    match r {
        Ok(b) => format!("(Ok {})", coq_bool(*b)),
        Err(_) => "Err".to_string(),
    }
}

// ---------- the chain ----------
pub fn fresh_app() -> App {
    let mut app = chain::new_app();
    for who in [CREATOR, ADMIN2, STRANGER] {
        chain::mint_coins(&mut app, who, 1_000_000 * FEE, NATIVE);
    }
    app
}

#[derive(Clone, Debug, serde::Serialize, serde::Deserialize, PartialEq, Eq, PartialOrd, Ord)]
pub struct FlatInit {
    pub root: String,
    pub uri: Option<String>,
    pub start: u64,
    pub end: u64,
    pub limit: u32,
    pub admins: Vec<String>,
    pub mutable: bool,
    pub funds: Vec<(String, u128)>,
}
pub fn flat_default(root: &str, now: u64) -> FlatInit {
    FlatInit {
        root: root.to_string(),
        uri: None,
        start: now + 1_000_000_000_000,
        end: now + 2_000_000_000_000,
        limit: 1,
        admins: vec![CREATOR.to_string()],
        mutable: true,
        funds: vec![(NATIVE.to_string(), FEE)],
    }
}
pub fn instantiate_flat(app: &mut App, code: u64, i: &FlatInit) -> Result<Addr, String> {
    let msg = whitelist_mtree::msg::InstantiateMsg {
        merkle_root: i.root.clone(),
        merkle_tree_uri: i.uri.clone(),
        start_time: Timestamp::from_nanos(i.start),
        end_time: Timestamp::from_nanos(i.end),
        mint_price: coin(1_000_000, NATIVE),
        per_address_limit: i.limit,
        admins: i.admins.clone(),
        admins_mutable: i.mutable,
    };
    let funds: Vec<_> = i.funds.iter().map(|(d, a)| coin(*a, d.clone())).collect();
    match catch(|| app.instantiate_contract(code, Addr::unchecked(CREATOR), &msg, &funds, "wl-mtree", Some(CREATOR.to_string()))) {
        Ok(Ok(a)) => Ok(a),
        Ok(Err(e)) => Err(format!("{:#}", e)),
        Err(p) => Err(p),
    }
}

#[derive(Clone, Debug, serde::Serialize, serde::Deserialize, PartialEq, Eq, PartialOrd, Ord)]
pub struct StageSpec {
    pub start: u64,
    pub end: u64,
    pub denom: String,
    pub limit: u32,
}
#[derive(Clone, Debug, serde::Serialize, serde::Deserialize, PartialEq, Eq, PartialOrd, Ord)]
pub struct TieredInit {
    pub roots: Vec<String>,
    pub uris: Option<Vec<String>>,
    pub stages: Vec<StageSpec>,
    pub admins: Vec<String>,
    pub mutable: bool,
    pub funds: Vec<(String, u128)>,
}
pub fn stage_of(s: &StageSpec, i: usize) -> tiered_whitelist_merkletree::state::Stage {
    tiered_whitelist_merkletree::state::Stage {
        name: format!("stage{}", i),
        start_time: Timestamp::from_nanos(s.start),
        end_time: Timestamp::from_nanos(s.end),
        mint_price: coin(1_000_000, s.denom.clone()),
        per_address_limit: s.limit,
        // present for even positions, absent for odd ones (not validated, not modelled)
        mint_count_limit: if i % 2 == 0 { Some(5) } else { None },
    }
}
pub fn instantiate_tiered(app: &mut App, code: u64, i: &TieredInit) -> Result<Addr, String> {
    let msg = tiered_whitelist_merkletree::msg::InstantiateMsg {
        stages: i.stages.iter().enumerate().map(|(k, s)| stage_of(s, k)).collect(),
        merkle_roots: i.roots.clone(),
        merkle_tree_uris: i.uris.clone(),
        admins: i.admins.clone(),
        admins_mutable: i.mutable,
    };
    let funds: Vec<_> = i.funds.iter().map(|(d, a)| coin(*a, d.clone())).collect();
    match catch(|| app.instantiate_contract(code, Addr::unchecked(CREATOR), &msg, &funds, "twl-mtree", Some(CREATOR.to_string()))) {
        Ok(Ok(a)) => Ok(a),
        Ok(Err(e)) => Err(format!("{:#}", e)),
        Err(p) => Err(p),
    }
}

/// HasMember on either contract: Ok(answer) or Err (query error or panic)
pub fn has_member(app: &App, addr: &Addr, tiered: bool, member: &str, proof: &[String]) -> Result<bool, String> {
    let r = catch(|| {
        if tiered {
            app.wrap()
                .query_wasm_smart::<tiered_whitelist_merkletree::msg::HasMemberResponse>(
                    addr.clone(),
                    &tiered_whitelist_merkletree::msg::QueryMsg::HasMember { member: member.to_string(), proof_hashes: proof.to_vec() },
                )
                .map(|r| r.has_member)
        } else {
            app.wrap()
                .query_wasm_smart::<whitelist_mtree::msg::HasMemberResponse>(
                    addr.clone(),
                    &whitelist_mtree::msg::QueryMsg::HasMember { member: member.to_string(), proof_hashes: proof.to_vec() },
                )
                .map(|r| r.has_member)
        }
    });
    match r {
        Ok(Ok(b)) => Ok(b),
        Ok(Err(e)) => Err(e.to_string()),
        Err(p) => Err(p),
    }
}
pub fn query_root_flat(app: &App, addr: &Addr) -> Result<String, String> {
    match catch(|| {
        app.wrap().query_wasm_smart::<whitelist_mtree::msg::MerkleRootResponse>(addr.clone(), &whitelist_mtree::msg::QueryMsg::MerkleRoot {})
    }) {
        Ok(Ok(r)) => Ok(r.merkle_root),
        Ok(Err(e)) => Err(e.to_string()),
        Err(p) => Err(p),
    }
}
pub fn query_roots_tiered(app: &App, addr: &Addr) -> Result<Vec<String>, String> {
    match catch(|| {
        app.wrap().query_wasm_smart::<tiered_whitelist_merkletree::msg::MerkleRootResponse>(
            addr.clone(),
            &tiered_whitelist_merkletree::msg::QueryMsg::MerkleRoots {},
        )
    }) {
        Ok(Ok(r)) => Ok(r.merkle_roots),
        Ok(Err(e)) => Err(e.to_string()),
        Err(p) => Err(p),
    }
}

/// a proof element is well formed when it is exactly 2*L characters, all of them hex digits
/// (written from the property text: "malformed hashes"; shares nothing with the model)
pub fn wellformed_hash(s: &str, l: usize) -> bool {
    s.len() == 2 * l && s.bytes().all(|c| c.is_ascii_hexdigit())
}

const BECH: &[u8] = b"qpzry9x8gf2tvdw0s3jn54khce6mua7l";
/// a 44-character stars1... address-shaped string (bech32 alphabet, no checksum: MockApi
/// does not check one); `i` makes it unique, `salt` varies the rest
pub fn stars_addr(i: u64, salt: u64) -> String {
    let mut s = String::from("stars1");
    let mut r = Rng::new(salt.wrapping_mul(1_000_003) ^ i);
    // 8 characters carry the index, 30 are pseudo-random
    let mut k = i;
    for _ in 0..8 {
        s.push(BECH[(k % 32) as usize] as char);
        k /= 32;
    }
    for _ in 0..30 {
        s.push(BECH[r.below(32) as usize] as char);
    }
    s
}
