//! C06, call sites: every place in the contracts that disposes of a protocol fee, driven
//! through the REAL contracts on the simulated chain and observed at world level: bank
//! balances of the payer, the contract, the fair-burn pool, the three protocol
//! addresses and the developer, the supply per denom (what fell is what was burned) and
//! the sender the stargate keeper decoded from MsgFundFairburnPool.
//!
//! Two independent readers of each observation:
//!  * `monitor` — the property sentence evaluated with the documented numbers (no model
//!    code): produces `C06:site:<contract>:<op>:<what>` violations;
//!  * the Coq term `CSite ...` — coq/model/FeeSites.v is run on the same inputs and its
//!    message list, applied by the model bank to the balances before, must give the
//!    balances after (coq/corr/C06Corr.v).
use crate::chain::{self, App};
use crate::oe_world::{OeCfg, OeWl, OeWorld, OE_VARIANTS};
use crate::util::*;
use crate::w_collection::{puppet, PuppetExec};
use crate::w_factory::{self as wf, FactoryKind, MinterKind};
use crate::w_sale::{SaleCfg, SaleWorld, WlKind, VARIANTS};
use cosmwasm_std::{coin, to_json_binary, Addr, Coin, CosmosMsg, Empty, WasmMsg};
use cw_multi_test::{AppResponse, Executor};
use serde::{Deserialize, Serialize};
use serde_json::{json, Value};
use std::collections::BTreeMap;

pub const IBC: &str = crate::w_sale::IBC;
const CREATOR: &str = "creator";
const BUYER: &str = "buyer1";
const ADMIN: &str = "admin";
const DRIVER: &str = "driver";
const BURNED: &str = "#burned";
const DAY: u64 = 86_400_000_000_000;
const SEC: u64 = 1_000_000_000;
/// the most a payer ever holds of a denom (fees are drawn below a quarter of it)
const RICH: u128 = 1u128 << 120;
/// what a payer holds of each denom before the probed call unless the case needs more
/// (small numbers keep the Coq case files quick to parse)
const WELL_OFF: u128 = 1_000_000_000_000_000;

#[derive(Clone, Copy, Debug, Serialize, Deserialize, PartialEq, Eq, PartialOrd, Ord)]
pub enum MintMode {
    Public,
    Whitelist,
    Airdrop,
}

#[derive(Clone, Debug, Serialize, Deserialize, PartialEq, Eq, PartialOrd, Ord)]
pub enum Site {
    /// CreateMinter on a factory whose creation fee is `fee` of ustars / the IBC denom and
    /// whose min_mint_price is in ustars / the IBC denom; `minter` is the code the factory creates
    Create { factory: FactoryKind, minter: MinterKind, fee_native: bool, mint_native: bool, fee: u128 },
    /// Shuffle on a minter whose factory asks `fee` ustars for it
    /// (by the collection's creator/admin when `by_admin`, else by a buyer)
    Shuffle { minter: MinterKind, fee: u128, by_admin: bool },
    /// instantiate of whitelist kind 0..3 = plain, flex, tiered, tiered-flex
    WlCreate { kind: u8, member_limit: u32 },
    WlIncrease { kind: u8, old: u32, new: u32 },
    WlMerkleCreate { tiered: bool },
    EnableUpdatable,
    AirdropInit,
    BaseMint { price: u128, bps: u64 },
    /// `by_creator`: a public mint sent by the collection's creator (who is also the seller)
    /// `dev`: what governance configured as the open-edition factory's dev_fee_address
    /// (None: the default, a valid account)
    Mint {
        minter: MinterKind,
        mode: MintMode,
        native: bool,
        price: u128,
        bps: u64,
        by_creator: bool,
        #[serde(default)]
        dev: Option<DevCfg>,
    },
}

/// The developer of the open-edition factory as the ledger has it: the string governance
/// put into `dev_fee_address`, at instantiate or by a later sudo UpdateParams.  Any string
/// can be configured; whether the chain's address rules accept it is a separate matter.
#[derive(Clone, Debug, Serialize, Deserialize, PartialEq, Eq, PartialOrd, Ord)]
pub struct DevCfg {
    pub address: String,
    pub by_sudo: bool,
    /// the minter is created with the payment address PAYADDR (whitelist mode only); used
    /// with `address` = PAYADDR
    #[serde(default)]
    pub with_payment_address: bool,
}
pub const PAYADDR: &str = crate::w_sale::PAYADDR;

/// the chain's own answer about an address string (an oracle for the model)
pub fn chain_accepts_address(s: &str) -> bool {
    use cosmwasm_std::Api;
    cosmwasm_std::testing::MockApi::default().addr_validate(s).is_ok()
}
/// what anybody would call a well-formed account name on this chain: if the configured
/// developer is not one, a mint may be refused for it
fn plain_address(s: &str) -> bool {
    (3..=90).contains(&s.len()) && s.bytes().all(|b| b.is_ascii_lowercase() || b.is_ascii_digit())
}
fn oe_sudo_dev(app: &mut App, factory: &Addr, address: &str) -> Result<(), String> {
    let msg = json!({"update_params": {
        "code_id": null, "add_sg721_code_ids": null, "rm_sg721_code_ids": null, "frozen": null,
        "creation_fee": null, "min_mint_price": null, "mint_fee_bps": null, "max_trading_offset_secs": null,
        "extension": {"max_token_limit": null, "max_per_address_limit": null, "min_mint_price": null,
            "airdrop_mint_price": null, "airdrop_mint_fee_bps": null, "dev_fee_address": address}}});
    wf::sudo_json(app, factory, &msg).map(|_| ()).map_err(|e| format!("sudo update_params(dev_fee_address): {}", e))
}

#[derive(Clone, Debug, Serialize, Deserialize, PartialEq, Eq, PartialOrd, Ord)]
pub struct SiteCase {
    pub site: Site,
    /// coins attached to the probed call
    pub funds: Vec<(String, u128)>,
    /// what the contract that runs the site already holds when the probed call arrives
    #[serde(default)]
    pub prior: Option<Prior>,
    /// what governance did to the factory's parameters between the creation of the minter
    /// and the probed call
    #[serde(default)]
    pub gov: Option<Gov>,
}

/// A sudo UpdateParams on the factory AFTER the minter was created.  The numbers in `Site`
/// are the ones in force when the probed call arrives: the mint price a minter stored at its
/// creation, and the factory's CURRENT mint_fee_bps / airdrop price and bps / shuffle fee.
#[derive(Clone, Debug, Serialize, Deserialize, PartialEq, Eq, PartialOrd, Ord)]
pub struct Gov {
    /// new factory min_mint_price in ustars (lowered or raised; an existing minter keeps its price)
    pub min_mint_price: Option<u128>,
    /// the parameters the contract reads at call time were different when the minter was
    /// created (Some(true): higher, Some(false): lower) and governance set them to the values
    /// of `Site` afterwards
    pub created_with_higher: Option<bool>,
}
fn decoy_amount(v: u128, gov: &Option<Gov>) -> u128 {
    match gov.as_ref().and_then(|g| g.created_with_higher) {
        Some(true) => v * 2 + 7,
        Some(false) => v / 2,
        None => v,
    }
}
fn decoy_bps(v: u64, gov: &Option<Gov>) -> u64 {
    match gov.as_ref().and_then(|g| g.created_with_higher) {
        Some(true) if v < 10_000 => (v + 1_234).min(10_000),
        Some(_) => v / 2,
        None => v,
    }
}
/// the factory the contract of the case was created by, and the UpdateParams of the case
fn apply_gov(st: &mut Stage, c: &SiteCase, g: &Gov) -> Result<(), String> {
    let (kind, shuffle, mint_bps, airdrop): (FactoryKind, Option<u128>, Option<u64>, Option<(u128, u64)>) = match &c.site {
        Site::BaseMint { bps, .. } => (FactoryKind::Base, None, Some(*bps), None),
        Site::Shuffle { minter, fee, .. } => (minter.factory(), Some(*fee), None, None),
        Site::Mint { minter, mode: MintMode::Airdrop, price, bps, .. } => (minter.factory(), None, None, Some((*price, *bps))),
        Site::Mint { minter, bps, .. } => (minter.factory(), None, Some(*bps), None),
        _ => return Err("governance changes are only staged for the sites that read factory parameters at call time".into()),
    };
    let cfg = wf::query_json(&st.app, &Addr::unchecked(st.contract.clone()), &json!({"config": {}}))?;
    fn find_factory(v: &Value) -> Option<String> {
        match v {
            Value::Object(m) => m.get("factory").and_then(|f| f.as_str()).map(|x| x.to_string()).or_else(|| m.values().find_map(find_factory)),
            _ => None,
        }
    }
    let factory = Addr::unchecked(find_factory(&cfg).ok_or("the contract's config names no factory")?);
    let set = g.created_with_higher.is_some();
    let oc = |v: Option<u128>| v.map(|a| jc(a, NATIVE)).unwrap_or(Value::Null);
    let mut m = json!({"code_id": null, "add_sg721_code_ids": null, "rm_sg721_code_ids": null, "frozen": null,
        "creation_fee": null, "max_trading_offset_secs": null});
    if kind != FactoryKind::TokenMerge {
        m["min_mint_price"] = oc(g.min_mint_price);
        m["mint_fee_bps"] = json!(if set { mint_bps } else { None });
    }
    let ap = if set { airdrop.map(|a| a.0) } else { None };
    let ab = if set { airdrop.map(|a| a.1) } else { None };
    m["extension"] = match kind {
        FactoryKind::Base => Value::Null,
        FactoryKind::Vending | FactoryKind::TokenMerge => json!({"max_token_limit": null, "max_per_address_limit": null,
            "airdrop_mint_price": oc(ap), "airdrop_mint_fee_bps": ab, "shuffle_fee": oc(if set { shuffle } else { None })}),
        FactoryKind::OpenEdition => json!({"max_token_limit": null, "max_per_address_limit": null, "min_mint_price": null,
            "airdrop_mint_fee_bps": ab, "airdrop_mint_price": oc(ap), "dev_fee_address": null}),
    };
    wf::sudo_json(&mut st.app, &factory, &json!({"update_params": m})).map(|_| ()).map_err(|e| format!("sudo update_params: {}", e))
}

/// A balance the calling contract holds before the probed call: sent to its address by a
/// third party (also possible before the contract exists), or left behind by an earlier,
/// accepted call of the same site that paid `amount` more than the fee.
#[derive(Clone, Debug, Serialize, Deserialize, PartialEq, Eq, PartialOrd, Ord)]
pub struct Prior {
    pub denom: String,
    pub amount: u128,
    pub by_overpayment: bool,
}

pub type Snap = BTreeMap<(String, String), u128>;

#[derive(Clone, Debug, Serialize)]
pub struct Outcome {
    pub ok: bool,
    pub err: Option<String>,
    /// the contract that runs the site (for an instantiate: the address it gets / would get)
    pub contract: String,
    pub payer: String,
    pub dev: Option<String>,
    pub seller: Option<String>,
    pub before: Vec<(String, String, u128)>,
    pub after: Vec<(String, String, u128)>,
    /// sender field of the MsgFundFairburnPool the keeper decoded (None: no such message executed)
    pub pool_sender: Option<String>,
}
impl Outcome {
    fn get(v: &[(String, String, u128)], a: &str, d: &str) -> u128 {
        v.iter().find(|(x, y, _)| x == a && y == d).map(|t| t.2).unwrap_or(0)
    }
    pub fn delta(&self, a: &str, d: &str) -> i128 {
        Self::get(&self.after, a, d) as i128 - Self::get(&self.before, a, d) as i128
    }
}

fn denom_of(native: bool) -> &'static str {
    if native {
        NATIVE
    } else {
        IBC
    }
}
fn coins_of(fs: &[(String, u128)]) -> Vec<Coin> {
    fs.iter().map(|(d, a)| coin(*a, d.clone())).collect()
}
fn wl_name(kind: u8) -> &'static str {
    ["whitelist", "whitelist-flex", "tiered-whitelist", "tiered-whitelist-flex"][kind as usize % 4]
}
fn wl_code(kind: u8) -> Box<dyn cw_multi_test::Contract<Empty>> {
    match kind % 4 {
        0 => chain::whitelist(),
        1 => chain::whitelist_flex(),
        2 => chain::tiered_whitelist(),
        _ => chain::tiered_whitelist_flex(),
    }
}
fn ts(n: u64) -> Value {
    Value::String(n.to_string())
}
fn jc(amount: u128, denom: &str) -> Value {
    json!({"amount": amount.to_string(), "denom": denom})
}

/// the whitelist InstantiateMsg of kind 0..3 (one member, window in the future)
fn wl_init_json(kind: u8, now: u64, member_limit: u32) -> Value {
    let (s, e) = (now + DAY, now + 2 * DAY);
    let flexm = json!([{"address": BUYER, "mint_count": 2}]);
    match kind % 4 {
        0 => json!({"members": [BUYER], "start_time": ts(s), "end_time": ts(e), "mint_price": jc(100, NATIVE),
                    "per_address_limit": 1, "member_limit": member_limit, "admins": [CREATOR], "admins_mutable": true}),
        1 => json!({"members": flexm, "start_time": ts(s), "end_time": ts(e), "mint_price": jc(100, NATIVE),
                    "member_limit": member_limit, "admins": [CREATOR], "admins_mutable": true, "whale_cap": null}),
        2 => json!({"members": [[BUYER]],
                    "stages": [{"name": "s0", "start_time": ts(s), "end_time": ts(e), "mint_price": jc(100, NATIVE),
                                "per_address_limit": 1, "mint_count_limit": null}],
                    "member_limit": member_limit, "admins": [CREATOR], "admins_mutable": true}),
        _ => json!({"members": [flexm],
                    "stages": [{"name": "s0", "start_time": ts(s), "end_time": ts(e), "mint_price": jc(100, NATIVE),
                                "mint_count_limit": null}],
                    "member_limit": member_limit, "admins": [CREATOR], "admins_mutable": true, "whale_cap": null}),
    }
}

fn flatten(r: Result<anyhow::Result<AppResponse>, String>) -> Result<AppResponse, String> {
    match r {
        Ok(Ok(x)) => Ok(x),
        Ok(Err(e)) => Err(format!("{:#}", e)),
        Err(p) => Err(p),
    }
}
/// instantiate with funds through the message router (so a panic is caught and the
/// address comes from the event)
fn inst(app: &mut App, code: u64, sender: &str, msg: &Value, funds: &[Coin], admin: Option<&str>) -> Result<AppResponse, String> {
    let m: CosmosMsg = WasmMsg::Instantiate {
        admin: admin.map(|a| a.to_string()),
        code_id: code,
        msg: cosmwasm_std::Binary::from(serde_json::to_vec(msg).unwrap()),
        funds: funds.to_vec(),
        label: "c06".into(),
    }
    .into();
    flatten(catch(|| app.execute(Addr::unchecked(sender), m)))
}

fn rich(app: &mut App, who: &str, funds: &[Coin]) {
    let need = funds.iter().map(|c| c.amount.u128()).max().unwrap_or(0);
    let amount = if need.saturating_mul(4) > WELL_OFF { RICH } else { WELL_OFF };
    chain::mint_coins(app, who, amount, NATIVE);
    chain::mint_coins(app, who, amount, IBC);
}

/// the sender the keeper decoded, from its refusal (chain.rs: "MsgFundFairburnPool sender X
/// is not the calling contract Y")
fn refused_pool_sender(err: &str) -> Option<String> {
    let key = "MsgFundFairburnPool sender ";
    let i = err.find(key)? + key.len();
    let rest = &err[i..];
    let j = rest.find(" is not the calling contract")?;
    Some(rest[..j].to_string())
}

type Probe = Box<dyn FnOnce(&mut App) -> Result<AppResponse, String>>;
/// an earlier call of the same site that pays `surplus` more than it has to
type Overpay = Box<dyn FnOnce(&mut App, u128) -> Result<AppResponse, String>>;

struct Stage {
    app: App,
    contract: String,
    payer: String,
    dev: Option<String>,
    seller: Option<String>,
    overpay: Option<Overpay>,
}
fn staged(st: Stage, f: impl FnOnce(&mut App) -> Result<AppResponse, String> + 'static) -> (Stage, Probe) {
    (st, Box::new(f))
}
const DONOR: &str = "donor";

/// give the contract of the staged world its prior balance
fn fund_contract(st: &mut Stage, prior: &Prior) -> Result<(), String> {
    if prior.amount == 0 {
        return Ok(());
    }
    if prior.by_overpayment {
        let f = st.overpay.take().ok_or("this site has no earlier over-payment to leave coins behind")?;
        let had = chain::balance(&st.app, &st.contract, &prior.denom);
        chain::mint_coins(&mut st.app, &st.payer, prior.amount.saturating_mul(4).max(WELL_OFF), &prior.denom);
        f(&mut st.app, prior.amount).map_err(|e| format!("the over-paying call was rejected: {}", e))?;
        let has = chain::balance(&st.app, &st.contract, &prior.denom);
        if has != had + prior.amount {
            return Err(format!("an over-payment of {} left {} in the contract", prior.amount, has - had));
        }
    } else {
        chain::mint_coins(&mut st.app, DONOR, prior.amount, &prior.denom);
        let (to, c) = (Addr::unchecked(st.contract.clone()), vec![coin(prior.amount, prior.denom.clone())]);
        st.app.send_tokens(Addr::unchecked(DONOR), to, &c).map_err(|e| format!("bank send to the contract: {:#}", e))?;
    }
    Ok(())
}

fn snapshot(app: &App, accounts: &[String], supply0: &BTreeMap<String, u128>) -> Vec<(String, String, u128)> {
    let mut v = vec![];
    for a in accounts {
        for d in [NATIVE, IBC] {
            v.push((a.clone(), d.to_string(), chain::balance(app, a, d)));
        }
    }
    for d in [NATIVE, IBC] {
        v.push((BURNED.to_string(), d.to_string(), supply0[d].saturating_sub(chain::supply(app, d))));
    }
    v
}

/// run the probed call `f` on the staged world and record everything
fn observe(mut st: Stage, f: Probe) -> Outcome {
    let mut accounts: Vec<String> = vec![
        st.payer.clone(),
        st.contract.clone(),
        chain::FAIRBURN_POOL.to_string(),
        LAUNCHPAD_DAO.to_string(),
        LIQUIDITY_DAO.to_string(),
        FOUNDATION.to_string(),
    ];
    for x in [&st.dev, &st.seller].into_iter().flatten() {
        if !accounts.contains(x) {
            accounts.push(x.clone());
        }
    }
    let mut supply0 = BTreeMap::new();
    for d in [NATIVE, IBC] {
        supply0.insert(d.to_string(), chain::supply(&st.app, d));
    }
    let before = snapshot(&st.app, &accounts, &supply0);
    let r = f(&mut st.app);
    let after = snapshot(&st.app, &accounts, &supply0);
    let ok = r.is_ok();
    let err = r.err();
    let pool_gain = Outcome::get(&after, chain::FAIRBURN_POOL, NATIVE) as i128 - Outcome::get(&before, chain::FAIRBURN_POOL, NATIVE) as i128
        + Outcome::get(&after, chain::FAIRBURN_POOL, IBC) as i128
        - Outcome::get(&before, chain::FAIRBURN_POOL, IBC) as i128;
    // an accepted pool message was, by the keeper's test, signed by the contract that emitted it:
    // the one whose balance paid for it, i.e. the contract that ran the site
    let pool_sender = match &err {
        Some(e) => refused_pool_sender(e),
        None if pool_gain > 0 => Some(st.contract.clone()),
        None => None,
    };
    Outcome { ok, err, contract: st.contract, payer: st.payer, dev: st.dev, seller: st.seller, before, after, pool_sender }
}

/// root and the proof of `a` in the two-leaf sha-256 tree over the strings a, b (sorted pair hashing)
fn sha_tree2(a: &str, b: &str) -> (String, Vec<String>) {
    use sha2::{Digest, Sha256};
    let ha = Sha256::digest(a.as_bytes()).to_vec();
    let hb = Sha256::digest(b.as_bytes()).to_vec();
    let mut pair = [ha.clone(), hb.clone()];
    pair.sort();
    let root = Sha256::digest(pair.concat()).to_vec();
    (hex::encode(root), vec![hex::encode(hb)])
}

fn vending_variant(kind: MinterKind) -> Option<usize> {
    VARIANTS.iter().position(|v| v.name == kind.name())
}
fn oe_variant(kind: MinterKind) -> Option<usize> {
    OE_VARIANTS.iter().position(|v| v.name == kind.name())
}
pub fn is_featured(kind: MinterKind) -> bool {
    kind.name().ends_with("-featured")
}
pub fn is_oe(kind: MinterKind) -> bool {
    kind.factory() == FactoryKind::OpenEdition
}
fn is_merkle(kind: MinterKind) -> bool {
    kind.name().contains("merkle")
}
fn public_mint_msg(kind: MinterKind, proof: Option<Vec<String>>) -> Value {
    if is_merkle(kind) {
        json!({"mint": {"stage": null, "proof_hashes": proof, "allocation": null}})
    } else {
        json!({"mint": {}})
    }
}

/// Build the world of a case and run its probed call.  Err = the world could not be
/// staged (a harness problem or a site the tree under test no longer lets us reach).
pub fn run_case(c: &SiteCase) -> Result<Outcome, String> {
    let (mut st, probe) = stage_case(c)?;
    if let Some(g) = &c.gov {
        apply_gov(&mut st, c, g)?;
    }
    if let Some(p) = &c.prior {
        fund_contract(&mut st, p)?;
    }
    Ok(observe(st, probe))
}

fn stage_case(c: &SiteCase) -> Result<(Stage, Probe), String> {
    let funds = coins_of(&c.funds);
    match &c.site {
        Site::Create { factory, minter, fee_native, mint_native, fee } => {
            let mut app = chain::new_app();
            let sg721 = app.store_code(chain::sg721_base());
            let mc = app.store_code(minter.code());
            let fc = app.store_code(factory.code());
            let mut p = wf::default_params(*factory, mc, &[sg721]);
            p.creation_fee = (denom_of(*fee_native).to_string(), *fee);
            p.min_mint_price = (denom_of(*mint_native).to_string(), 50_000_000);
            let f = wf::instantiate_factory(&mut app, *factory, fc, &p).map_err(|e| format!("factory: {}", e))?;
            rich(&mut app, CREATOR, &funds);
            let mut req = wf::CreateReq::standard(*factory, sg721, &p.creation_fee);
            req.funds = c.funds.clone();
            req.mint_price = (denom_of(*mint_native).to_string(), 100_000_000);
            // an earlier creation that pays more than the fee: accepted by every factory but the
            // open-edition one when the fee is native, and the surplus stays in the factory
            let overpay: Option<Overpay> = if *fee_native && *factory != FactoryKind::OpenEdition {
                let (k, fa, fee, mut req0) = (*factory, f.clone(), *fee, req.clone());
                Some(Box::new(move |app: &mut App, surplus: u128| {
                    req0.funds = vec![(NATIVE.to_string(), fee + surplus)];
                    let msg = wf::create_msg_json(app, k, CREATOR, &req0);
                    wf::exec_json(app, CREATOR, &fa, &msg, &coins_of(&req0.funds))
                }))
            } else {
                None
            };
            let st = Stage { app, contract: f.to_string(), payer: CREATOR.into(), dev: None, seller: None, overpay };
            let (k, fa) = (*factory, f.clone());
            Ok(staged(st, move |app: &mut App| {
                let msg = wf::create_msg_json(app, k, CREATOR, &req);
                wf::exec_json(app, CREATOR, &fa, &msg, &coins_of(&req.funds))
            }))
        }
        Site::Shuffle { minter, fee, by_admin } => {
            let fee = *fee;
            let fee0 = decoy_amount(fee, &c.gov);
            let w = wf::setup_minter_with(*minter, |p, _| p.shuffle_fee = (NATIVE.to_string(), fee0))?;
            let mut app = w.app;
            let who = if *by_admin { wf::CREATOR } else { BUYER };
            rich(&mut app, who, &funds);
            let m = w.minter.clone();
            // an earlier shuffle that pays more than the fee leaves the surplus in the minter
            let m0 = m.clone();
            let overpay: Option<Overpay> = Some(Box::new(move |app: &mut App, surplus: u128| {
                wf::exec_json(app, who, &m0, &json!({"shuffle": {}}), &[coin(fee + surplus, NATIVE)])
            }));
            let st = Stage { app, contract: m.to_string(), payer: who.into(), dev: None, seller: None, overpay };
            Ok(staged(st, move |app: &mut App| wf::exec_json(app, who, &m, &json!({"shuffle": {}}), &funds)))
        }
        Site::WlCreate { kind, member_limit } => {
            let mut app = chain::new_app();
            let code = app.store_code(wl_code(*kind));
            rich(&mut app, CREATOR, &funds);
            let msg = wl_init_json(*kind, chain::now(&app), *member_limit);
            let st = Stage { app, contract: "contract0".into(), payer: CREATOR.into(), dev: None, seller: None, overpay: None };
            Ok(staged(st, move |app: &mut App| inst(app, code, CREATOR, &msg, &funds, None)))
        }
        Site::WlIncrease { kind, old, new } => {
            let mut app = chain::new_app();
            let code = app.store_code(wl_code(*kind));
            rich(&mut app, CREATOR, &funds);
            let msg = wl_init_json(*kind, chain::now(&app), *old);
            let fee0 = ((*old as u128 + 999) / 1000) * 100_000_000;
            let r = inst(&mut app, code, CREATOR, &msg, &[coin(fee0, NATIVE)], None).map_err(|e| format!("whitelist: {}", e))?;
            let wl = wf::instantiated_addrs(&r).first().cloned().ok_or("no whitelist address")?;
            let st = Stage { app, contract: wl.to_string(), payer: CREATOR.into(), dev: None, seller: None, overpay: None };
            let new = *new;
            Ok(staged(st, move |app: &mut App| wf::exec_json(app, CREATOR, &wl, &json!({"increase_member_limit": new}), &funds)))
        }
        Site::WlMerkleCreate { tiered } => {
            let mut app = chain::new_app();
            let code = app.store_code(if *tiered { chain::tiered_whitelist_merkletree() } else { chain::whitelist_merkletree() });
            rich(&mut app, CREATOR, &funds);
            let now = chain::now(&app);
            let (s, e) = (now + DAY, now + 2 * DAY);
            // 32-byte sha-256 root; the tiered kind uses 16-byte truncated blake3 digests
            let root = if *tiered { &crate::w_whitelist::ROOT_OK[..32] } else { crate::w_whitelist::ROOT_OK };
            let msg = if *tiered {
                json!({"stages": [{"name": "s0", "start_time": ts(s), "end_time": ts(e), "mint_price": jc(100, NATIVE),
                                   "per_address_limit": 1, "mint_count_limit": null}],
                       "merkle_roots": [root], "merkle_tree_uris": null, "admins": [CREATOR], "admins_mutable": true})
            } else {
                json!({"merkle_root": root, "merkle_tree_uri": null, "start_time": ts(s), "end_time": ts(e),
                       "mint_price": jc(100, NATIVE), "per_address_limit": 1, "admins": [CREATOR], "admins_mutable": true})
            };
            let st = Stage { app, contract: "contract0".into(), payer: CREATOR.into(), dev: None, seller: None, overpay: None };
            Ok(staged(st, move |app: &mut App| inst(app, code, CREATOR, &msg, &funds, None)))
        }
        Site::EnableUpdatable => {
            // a collection instantiated as sg721-base by a contract, then migrated to
            // sg721-updatable: metadata updates stay disabled until the creator pays
            let mut app = chain::new_app();
            let pc = app.store_code(puppet());
            let base = app.store_code(chain::sg721_base());
            let upd = app.store_code(chain::sg721_updatable());
            let pup = app
                .instantiate_contract(pc, Addr::unchecked(DRIVER), &Empty {}, &[], "puppet", None)
                .map_err(|e| format!("puppet: {:#}", e))?;
            let msg = json!({"name": "Collection", "symbol": "COL", "minter": pup.to_string(),
                "collection_info": {"creator": CREATOR, "description": "d", "image": "https://example.com/image.png",
                    "external_link": null, "explicit_content": false, "start_trading_time": null, "royalty_info": null}});
            let i = CosmosMsg::Wasm(WasmMsg::Instantiate {
                admin: Some(ADMIN.to_string()),
                code_id: base,
                msg: to_json_binary(&msg).unwrap(),
                funds: vec![],
                label: "collection".into(),
            });
            let r = chain::exec(&mut app, DRIVER, &pup, &PuppetExec::Forward { msgs: vec![i] }, &[]).map_err(|e| format!("collection: {}", e))?;
            let coll = wf::instantiated_addrs(&r).first().cloned().ok_or("no collection address")?;
            flatten(catch(|| app.migrate_contract(Addr::unchecked(ADMIN), coll.clone(), &Empty {}, upd))).map_err(|e| format!("migrate: {}", e))?;
            rich(&mut app, CREATOR, &funds);
            let st = Stage { app, contract: coll.to_string(), payer: CREATOR.into(), dev: None, seller: None, overpay: None };
            Ok(staged(st, move |app: &mut App| wf::exec_json(app, CREATOR, &coll, &json!({"enable_updatable": {}}), &funds)))
        }
        Site::AirdropInit => {
            let mut app = chain::new_app();
            let code = app.store_code(chain::eth_airdrop());
            let wi = app.store_code(chain::whitelist_immutable());
            rich(&mut app, CREATOR, &funds);
            let msg = sg_eth_airdrop::msg::InstantiateMsg {
                admin: Addr::unchecked(CREATOR),
                claim_msg_plaintext: "My Stargaze address is {wallet} and I want a Winter Pal.".into(),
                airdrop_amount: 66_000_000,
                addresses: vec!["0x0000000000000000000000000000000000000001".into()],
                whitelist_code_id: wi,
                minter_address: Addr::unchecked("contract9"),
                per_address_limit: 1,
            };
            let st = Stage { app, contract: "contract0".into(), payer: CREATOR.into(), dev: None, seller: None, overpay: None };
            Ok(staged(st, move |app: &mut App| {
                match catch(|| app.instantiate_contract(code, Addr::unchecked(CREATOR), &msg, &funds, "sg-eth-airdrop", None)) {
                    Ok(Ok(_)) => Ok(AppResponse::default()),
                    Ok(Err(e)) => Err(format!("{:#}", e)),
                    Err(p) => Err(p),
                }
            }))
        }
        Site::BaseMint { price, bps } => {
            let (price, bps) = (*price, *bps);
            let w = wf::setup_minter_with(MinterKind::Base, |p, _| {
                p.min_mint_price = (NATIVE.to_string(), price);
                p.mint_fee_bps = decoy_bps(bps, &c.gov);
            })?;
            let mut app = w.app;
            rich(&mut app, wf::CREATOR, &funds);
            let m = w.minter.clone();
            let st = Stage { app, contract: m.to_string(), payer: wf::CREATOR.into(), dev: None, seller: None, overpay: None };
            Ok(staged(st, move |app: &mut App| {
                wf::exec_json(app, wf::CREATOR, &m, &json!({"mint": {"token_uri": "ipfs://bafybeiavall5udkxkdtdm4djezoxrmfc6o5fn2ug3ymrlvibvwmwydgrkm/1.jpg"}}), &funds)
            }))
        }
        Site::Mint { minter, mode, native, price, bps, by_creator, dev } => run_mint(*minter, *mode, *native, *price, *bps, *by_creator, dev.clone(), &c.gov, funds),
    }
}

#[allow(clippy::too_many_arguments)]
fn run_mint(
    minter: MinterKind,
    mode: MintMode,
    native: bool,
    price: u128,
    bps: u64,
    by_creator: bool,
    devcfg: Option<DevCfg>,
    gov: &Option<Gov>,
    funds: Vec<Coin>,
) -> Result<(Stage, Probe), String> {
    let (bps0, price0) = (decoy_bps(bps, gov), decoy_amount(price, gov));
    let lowers_min = gov.as_ref().map(|g| g.min_mint_price.is_some()).unwrap_or(false);
    let d = denom_of(native).to_string();
    let devcfg = if is_oe(minter) { devcfg } else { None };
    // the developer account the ledger names (an empty string names nobody)
    let ledger_dev = |default: &str| -> Option<String> {
        match &devcfg {
            Some(c) if c.address.is_empty() => None,
            Some(c) => Some(c.address.clone()),
            None => Some(default.to_string()),
        }
    };
    let dev = if is_oe(minter) { ledger_dev(wf::DEV_ADDRESS) } else { None };
    match mode {
        MintMode::Public | MintMode::Airdrop => {
            let airdrop = mode == MintMode::Airdrop;
            let dd = d.clone();
            let at_instantiate = devcfg.as_ref().filter(|c| !c.by_sudo).map(|c| c.address.clone());
            let w = wf::setup_minter_with(minter, |p, req| {
                // a later lowering of the factory minimum starts from the minter's own price
                p.min_mint_price = (dd.clone(), if lowers_min { if airdrop { 77_000_000 } else { price } } else { 1 });
                if let Some(a) = &at_instantiate {
                    p.dev_fee_address = a.clone();
                }
                if airdrop {
                    p.airdrop_mint_price = (dd.clone(), price0);
                    p.airdrop_mint_fee_bps = bps0;
                    p.mint_fee_bps = 1_234;
                    req.mint_price = (dd.clone(), 77_000_000);
                } else {
                    p.mint_fee_bps = bps0;
                    p.airdrop_mint_fee_bps = 4_321;
                    req.mint_price = (dd.clone(), price);
                }
            })?;
            let mut app = w.app;
            if let Some(c) = devcfg.as_ref().filter(|c| c.by_sudo) {
                oe_sudo_dev(&mut app, &w.factory, &c.address)?;
            }
            let now = chain::now(&app);
            chain::set_time(&mut app, now + 200 * SEC);
            let payer = if airdrop || by_creator { wf::CREATOR } else { BUYER };
            rich(&mut app, payer, &funds);
            let m = w.minter.clone();
            let st = Stage { app, contract: m.to_string(), payer: payer.into(), dev, seller: Some(wf::CREATOR.into()), overpay: None };
            let msg = if airdrop { json!({"mint_to": {"recipient": BUYER}}) } else { public_mint_msg(minter, None) };
            Ok(staged(st, move |app: &mut App| wf::exec_json(app, payer, &m, &msg, &funds)))
        }
        MintMode::Whitelist => {
            if let Some(vi) = vending_variant(minter) {
                let v = VARIANTS[vi];
                let mut cfg = SaleCfg::basic(vi);
                cfg.fp.denom = d.clone();
                cfg.fp.min_price = 1;
                cfg.fp.mint_fee_bps = bps0;
                cfg.fp.airdrop_fee_bps = 4_321;
                cfg.price = price + 5;
                cfg.wl_price = price;
                cfg.wl = if v.merkle {
                    WlKind::None
                } else if v.flex {
                    WlKind::Flex
                } else {
                    WlKind::Plain
                };
                let mut w = SaleWorld::new(cfg)?;
                let t0 = w.t0;
                let mut proof = None;
                if v.merkle {
                    let (root, p) = sha_tree2(BUYER, "buyer2");
                    let msg = json!({"merkle_root": root, "merkle_tree_uri": null, "start_time": ts(t0 + 1000 * SEC),
                        "end_time": ts(t0 + 2000 * SEC), "mint_price": jc(price, &d), "per_address_limit": 2,
                        "admins": [CREATOR], "admins_mutable": true});
                    let wl = w.make_whitelist_raw("merkle", &msg, 1_000_000_000)?;
                    let m = w.minter.clone();
                    chain::exec(&mut w.app, CREATOR, &m, &json!({"set_whitelist": {"whitelist": wl.to_string()}}), &[])
                        .map_err(|e| format!("set_whitelist: {}", e))?;
                    proof = Some(p);
                }
                let mut app = w.app;
                chain::set_time(&mut app, t0 + 1500 * SEC);
                rich(&mut app, BUYER, &funds);
                let m = w.minter.clone();
                let st = Stage { app, contract: m.to_string(), payer: BUYER.into(), dev, seller: Some(CREATOR.into()), overpay: None };
                let msg = public_mint_msg(minter, proof);
                Ok(staged(st, move |app: &mut App| wf::exec_json(app, BUYER, &m, &msg, &funds)))
            } else if let Some(oi) = oe_variant(minter) {
                let v = OE_VARIANTS[oi];
                let mut cfg = OeCfg::basic(oi);
                cfg.fp.denom = d.clone();
                cfg.fp.min_price = 1;
                cfg.fp.mint_fee_bps = bps0;
                cfg.fp.airdrop_fee_bps = 4_321;
                cfg.price = price + 5;
                cfg.wl_price = price;
                cfg.wl = if v.merkle {
                    OeWl::Merkle
                } else if v.flex {
                    OeWl::Flex
                } else {
                    OeWl::Plain
                };
                if let Some(c) = &devcfg {
                    if !c.by_sudo {
                        cfg.fp.dev = c.address.clone();
                    }
                    cfg.payment_address = c.with_payment_address;
                }
                let with_payaddr = cfg.payment_address;
                let mut w = OeWorld::new(cfg)?;
                if let Some(c) = devcfg.as_ref().filter(|c| c.by_sudo) {
                    let f = w.factory.clone();
                    oe_sudo_dev(&mut w.app, &f, &c.address)?;
                }
                let t0 = w.t0;
                let proof = match &w.whitelist {
                    Some(a) if v.merkle => w.merkle.get(a.as_str()).and_then(|m| m.get(BUYER)).map(|x| x.0.clone()),
                    _ => None,
                };
                let devaddr = ledger_dev(&w.cfg.fp.dev);
                let seller = if with_payaddr { PAYADDR } else { CREATOR };
                let mut app = w.app;
                chain::set_time(&mut app, t0 + 1500 * SEC);
                rich(&mut app, BUYER, &funds);
                let m = w.minter.clone();
                let st = Stage { app, contract: m.to_string(), payer: BUYER.into(), dev: devaddr, seller: Some(seller.into()), overpay: None };
                let msg = public_mint_msg(minter, proof);
                Ok(staged(st, move |app: &mut App| wf::exec_json(app, BUYER, &m, &msg, &funds)))
            } else {
                Err(format!("{} has no whitelist mint", minter.name()))
            }
        }
    }
}

// ------------------------------------------------------------------ the property text

#[derive(Clone, Debug, PartialEq, Eq)]
pub enum Schedule {
    /// native fee: burn floor(F/2), the rest to the developer or else the pool on behalf of the contract
    FairBurn,
    /// mint fee: ceil(F/2) developer (if any), ceil(rest/5 | rest/8) liquidity DAO, remainder launchpad DAO
    MintFee { featured: bool },
    /// non-native fee: in full to the launchpad DAO
    ToDao,
}
#[derive(Clone, Debug)]
pub struct Expect {
    pub contract_name: String,
    pub op: &'static str,
    pub schedule: Schedule,
    /// denom the fee is charged in, the fee F, and the least payment that must be accepted
    pub denom: String,
    pub fee: u128,
    pub required: u128,
    pub has_dev: bool,
    /// the developer the ledger names is a well-formed account (or there is none to name):
    /// nothing about it can stand in the way of a correctly paid call
    pub dev_plain: bool,
}

fn ceil_div(a: u128, d: u128) -> u128 {
    a / d + u128::from(a % d != 0)
}

/// What the property sentence and the documented parameters (100 STARS per started 1000
/// members, 1000 STARS Merkle whitelists, 1500 STARS EnableUpdatable, 100 STARS airdrop,
/// fee = floor(price * bps / 10^4)) say about a case.
pub fn expectation(c: &SiteCase) -> Expect {
    let fb = |name: &str, op: &'static str, fee: u128| Expect {
        contract_name: name.to_string(),
        op,
        schedule: Schedule::FairBurn,
        denom: NATIVE.to_string(),
        fee,
        required: fee,
        has_dev: false,
        dev_plain: true,
    };
    match &c.site {
        Site::Create { factory, fee_native, fee, .. } => {
            if *fee_native {
                fb(factory.name(), "create_minter", *fee)
            } else {
                Expect {
                    contract_name: factory.name().to_string(),
                    op: "create_minter",
                    schedule: Schedule::ToDao,
                    denom: IBC.to_string(),
                    fee: *fee,
                    required: *fee,
                    has_dev: false,
                    dev_plain: true,
                }
            }
        }
        Site::Shuffle { minter, fee, .. } => fb(minter.name(), "shuffle", *fee),
        Site::WlCreate { kind, member_limit } => fb(wl_name(*kind), "instantiate", ceil_div(*member_limit as u128, 1000) * 100_000_000),
        Site::WlIncrease { kind, old, new } => fb(
            wl_name(*kind),
            "increase_member_limit",
            ceil_div(*new as u128, 1000).saturating_sub(ceil_div(*old as u128, 1000)) * 100_000_000,
        ),
        Site::WlMerkleCreate { tiered } => {
            fb(if *tiered { "tiered-whitelist-merkletree" } else { "whitelist-merkletree" }, "instantiate", 1_000_000_000)
        }
        Site::EnableUpdatable => fb("sg721-updatable", "enable_updatable", 1_500_000_000),
        Site::AirdropInit => fb("sg-eth-airdrop", "instantiate", 100_000_000),
        Site::BaseMint { price, bps } => fb("base-minter", "mint", price * *bps as u128 / 10_000),
        Site::Mint { minter, mode, native, price, bps, dev, .. } => Expect {
            contract_name: minter.name().to_string(),
            op: match mode {
                MintMode::Public => "mint",
                MintMode::Whitelist => "mint-whitelist",
                MintMode::Airdrop => "mint_to",
            },
            schedule: Schedule::MintFee { featured: is_featured(*minter) },
            denom: denom_of(*native).to_string(),
            fee: price * *bps as u128 / 10_000,
            required: *price,
            // the open-edition factories name a developer; an empty string names nobody
            has_dev: is_oe(*minter) && dev.as_ref().map(|c| !c.address.is_empty()).unwrap_or(true),
            dev_plain: !is_oe(*minter) || dev.as_ref().map(|c| plain_address(&c.address)).unwrap_or(true),
        },
    }
}

/// (amount in the fee denom, well-formed?) of the attached coins: nothing = 0; exactly one
/// non-zero coin of the fee denom = its amount; anything else is malformed
fn payment(funds: &[(String, u128)], denom: &str) -> Option<u128> {
    match funds {
        [] => Some(0),
        [(d, a)] if d == denom && *a > 0 => Some(*a),
        _ => None,
    }
}

/// The parts the schedule assigns: (burned, pool, developer, liquidity DAO, launchpad DAO).
pub fn parts(e: &Expect, paid: u128) -> (u128, u128, u128, u128, u128) {
    let f = e.fee;
    match &e.schedule {
        Schedule::FairBurn => {
            let burn = f / 2;
            if e.has_dev {
                (burn, 0, f - burn, 0, 0)
            } else {
                (burn, f - burn, 0, 0, 0)
            }
        }
        Schedule::MintFee { featured } => {
            let devp = if e.has_dev { ceil_div(f, 2) } else { 0 };
            let rest = f - devp;
            let liq = ceil_div(rest, if *featured { 8 } else { 5 });
            (0, 0, devp, liq, rest - liq)
        }
        Schedule::ToDao => (0, 0, 0, 0, paid),
    }
}

/// The property sentence evaluated on one observation.  Only produces violations.
pub fn monitor(c: &SiteCase, o: &Outcome) -> Vec<(String, String)> {
    let e = expectation(c);
    let mut v: Vec<(String, String)> = vec![];
    macro_rules! bad {
        ($what:expr, $msg:expr $(,)?) => {
            v.push((format!("C06:site:{}:{}:{}", e.contract_name, e.op, $what), $msg))
        };
    }
    let pay = payment(&c.funds, &e.denom);
    let other = if e.denom == NATIVE { IBC } else { NATIVE };
    let dev = o.dev.clone().unwrap_or_default();
    if !o.ok {
        // a rejected call moves nothing
        let moved: Vec<String> = o
            .after
            .iter()
            .filter(|(a, d, x)| Outcome::get(&o.before, a, d) != *x)
            .map(|(a, d, x)| format!("{} {}: {} -> {}", a, d, Outcome::get(&o.before, a, d), x))
            .collect();
        if !moved.is_empty() {
            bad!("rejected-but-moved", format!("the call was rejected but balances changed: {}", moved.join(", ")));
        }
        if let Some(s) = &o.pool_sender {
            if *s != o.contract {
                bad!(
                    "pool-sender",
                    format!("MsgFundFairburnPool names {} as sender, not the calling contract {} (the chain refuses it)", s, o.contract),
                );
                return v;
            }
        }
        // the exact payment of a fee whose every part is a positive amount must go through
        // (the bank refuses zero-amount coins, so a schedule with an empty part cannot be executed)
        if let Some(p) = pay {
            let (b, pl, dv, lq, lp) = parts(&e, p);
            let all_positive = match e.schedule {
                Schedule::FairBurn => b > 0 && (pl > 0 || dv > 0),
                Schedule::MintFee { .. } => e.fee == 0 || (lq > 0 && lp > 0 && (!e.has_dev || dv > 0)),
                Schedule::ToDao => lp > 0,
            };
            if p == e.required && p > 0 && all_positive && e.dev_plain {
                bad!(
                    "sufficient-payment-rejected",
                    format!("exact payment {} {} of the fee was rejected: {}", p, e.denom, o.err.clone().unwrap_or_default()),
                );
            }
        }
        return v;
    }
    // accepted
    match pay {
        None => bad!("malformed-funds-accepted", format!("funds {:?} accepted", c.funds)),
        Some(p) if p < e.required => bad!("underpayment-accepted", format!("payment {} below the required {} {} accepted", p, e.required, e.denom)),
        _ => {}
    }
    let p = pay.unwrap_or(0);
    let (b, pl, dv, lq, lp) = if e.fee == 0 && e.schedule != Schedule::ToDao { (0, 0, 0, 0, 0) } else { parts(&e, p) };
    let fd = e.denom.as_str();
    let burned = o.delta(BURNED, fd);
    let pool = o.delta(chain::FAIRBURN_POOL, fd);
    // what the developer account moved by on account of the FEE: if the ledger's developer is
    // also the seller it received the rest of the price too, if it is the payer it paid the price
    let mut devd = if o.dev.is_some() { o.delta(&dev, fd) } else { 0 };
    if o.dev.is_some() && matches!(e.schedule, Schedule::MintFee { .. }) {
        if o.seller.as_deref() == Some(dev.as_str()) {
            devd -= (e.required - e.fee) as i128;
        }
        if o.payer == dev {
            devd += p as i128;
        }
    }
    let liq = o.delta(LIQUIDITY_DAO, fd);
    let lpd = o.delta(LAUNCHPAD_DAO, fd);
    if burned != b as i128 {
        bad!("burn", format!("supply of {} fell by {}, the schedule burns {} of a fee of {}", fd, burned, b, e.fee));
    }
    if pool != pl as i128 {
        bad!("pool", format!("fair-burn pool received {} {}, the schedule gives it {} of a fee of {}", pool, fd, pl, e.fee));
    }
    if o.dev.is_some() && devd != dv as i128 {
        bad!(
            "developer",
            format!("the configured developer {:?} received {} {} of the fee, the schedule gives ceil(F/2) = {} of a fee of {}", dev, devd, fd, dv, e.fee)
        );
    }
    if liq != lq as i128 {
        bad!("liquidity-dao", format!("liquidity DAO received {} {}, the schedule gives {} of a fee of {}", liq, fd, lq, e.fee));
    }
    if lpd != lp as i128 {
        bad!("launchpad-dao", format!("launchpad DAO received {} {}, the schedule gives {} of a fee of {}", lpd, fd, lp, e.fee));
    }
    let total = burned + pool + devd + liq + lpd + o.delta(FOUNDATION, fd);
    let charged = if e.schedule == Schedule::ToDao { p } else { e.fee };
    if total != charged as i128 {
        bad!("conservation", format!("the parts sum to {} {}, the fee is {}", total, fd, charged));
    }
    // nothing of the fee in the other denom, nothing to the foundation
    for a in [BURNED, chain::FAIRBURN_POOL, LIQUIDITY_DAO, LAUNCHPAD_DAO, FOUNDATION] {
        if o.delta(a, other) != 0 || (a == FOUNDATION && o.delta(a, fd) != 0) {
            bad!("stray", format!("{} changed by {} {} / {} {}", a, o.delta(a, other), other, o.delta(a, fd), fd));
        }
    }
    if pl > 0 && o.pool_sender.as_deref() != Some(o.contract.as_str()) {
        bad!("pool-sender", format!("pool funded on behalf of {:?}, the calling contract is {}", o.pool_sender, o.contract));
    }
    // the fee is disposed of out of the payment that came with the call: whatever the
    // contract held before is still there afterwards
    for d in [NATIVE, IBC] {
        if o.delta(&o.contract, d) < 0 {
            bad!(
                "contract-balance-used",
                format!(
                    "the contract {} held {} {} before the call and {} after it: {} of its own balance went into a fee of {} paid with {:?}",
                    o.contract,
                    Outcome::get(&o.before, &o.contract, d),
                    d,
                    Outcome::get(&o.after, &o.contract, d),
                    -o.delta(&o.contract, d),
                    e.fee,
                    c.funds
                )
            );
        }
    }
    // every unit the payer paid as the fee went where the schedule sends it: with the exact
    // payment nothing of it is left in the contract (the vending / token-merge minters keep
    // the rest of an airdrop price, which is C02's recorded finding, not a fee matter)
    let keeps_airdrop_rest = matches!(&c.site, Site::Mint { mode: MintMode::Airdrop, minter, .. } if !is_oe(*minter));
    if pay == Some(e.required) && !keeps_airdrop_rest {
        for d in [NATIVE, IBC] {
            if o.delta(&o.contract, d) > 0 {
                bad!(
                    "fee-stranded",
                    format!(
                        "{} {} of the payment {:?} stayed in the contract {}: the payer was charged {} but only {} was burned / pooled / sent",
                        o.delta(&o.contract, d),
                        d,
                        c.funds,
                        o.contract,
                        p,
                        total
                    )
                );
            }
        }
    }
    // the payer paid what was attached (a seller who pays an airdrop also receives the remainder)
    if o.seller.as_deref() != Some(o.payer.as_str()) && o.delta(&o.payer, fd) != -(p as i128) {
        bad!("payer", format!("payer's {} changed by {}, the payment was {}", fd, o.delta(&o.payer, fd), p));
    }
    v
}

// ------------------------------------------------------------------ Coq term

fn fsite(k: FactoryKind) -> &'static str {
    match k {
        FactoryKind::Base => "FsBase",
        FactoryKind::Vending => "FsVending",
        FactoryKind::OpenEdition => "FsOpen",
        FactoryKind::TokenMerge => "FsTokenMerge",
    }
}
fn wlsite(kind: u8) -> &'static str {
    ["WsPlain", "WsFlex", "WsTiered", "WsTieredFlex"][kind as usize % 4]
}

/// `CSite site self payer funds bal0 ok bal1 pool_sender`
pub fn coq_case(c: &SiteCase, o: &Outcome) -> String {
    let mut addrs = Ids::with_fixed(
        &[(FOUNDATION, 1), (LAUNCHPAD_DAO, 2), (LIQUIDITY_DAO, 3), (chain::FAIRBURN_POOL, 4), (BURNED, 5)],
        10,
    );
    let mut denoms = denom_ids();
    denoms.id(IBC);
    let did = |native: bool| if native { 0 } else { 1 };
    let devid = o.dev.as_ref().map(|d| addrs.id(d));
    let site = match &c.site {
        Site::Create { factory, fee_native, mint_native, fee, .. } => {
            format!("(SCreate {} {} {} {})", fsite(*factory), did(*fee_native), did(*mint_native), fee)
        }
        Site::Shuffle { fee, .. } => format!("(SShuffle {})", fee),
        Site::WlCreate { kind, member_limit } => format!("(SWlCreate {} {})", wlsite(*kind), member_limit),
        Site::WlIncrease { kind, old, new } => format!("(SWlIncrease {} {} {})", wlsite(*kind), old, new),
        Site::WlMerkleCreate { tiered } => format!("(SWlMerkleCreate {})", coq_bool(*tiered)),
        Site::EnableUpdatable => "SEnableUpdatable".to_string(),
        Site::AirdropInit => "SAirdropInit".to_string(),
        Site::BaseMint { price, bps } => format!("(SBaseMint {} {})", price, bps),
        Site::Mint { minter, native, price, bps, dev, .. } => {
            let k = if is_oe(*minter) {
                // the developer as configured, and the chain's own answer about the string
                let valid = dev.as_ref().map(|c| chain_accepts_address(&c.address)).unwrap_or(true);
                format!("(MsOpen {} {})", devid.unwrap_or(0), coq_bool(valid))
            } else if *minter == MinterKind::TokenMerge {
                "MsTokenMerge".to_string()
            } else {
                format!("(MsVending {})", coq_bool(is_featured(*minter)))
            };
            format!("(SMint {} {} {} {})", k, did(*native), price, bps)
        }
    };
    let self_id = addrs.id(&o.contract);
    let payer_id = addrs.id(&o.payer);
    let funds = coq_list(&c.funds.iter().map(|(d, a)| format!("mkCoin {} {}", denoms.id(d), a)).collect::<Vec<_>>());
    let slot = |addrs: &mut Ids, denoms: &mut Ids, t: &(String, String, u128)| format!("({}, {}, {})", addrs.id(&t.0), denoms.id(&t.1), t.2);
    let bal0 = coq_list(&o.before.iter().map(|t| slot(&mut addrs, &mut denoms, t)).collect::<Vec<_>>());
    // slots compared after an accepted call: the fee recipients always; the payer unless the
    // payer is also the seller of a mint; the contract unless it also pays a seller
    let is_mint = matches!(c.site, Site::Mint { .. });
    let keep = |a: &str| -> bool {
        if !o.ok {
            return true;
        }
        if a == o.contract {
            return !is_mint;
        }
        if a == o.payer {
            return o.seller.as_deref() != Some(a);
        }
        if Some(a) == o.seller.as_deref() {
            return false;
        }
        true
    };
    let bal1 = coq_list(&o.after.iter().filter(|t| keep(&t.0)).map(|t| slot(&mut addrs, &mut denoms, t)).collect::<Vec<_>>());
    let ps = coq_opt_n(o.pool_sender.as_ref().map(|s| addrs.id(s)));
    format!("CSite {} {} {} {} {} {} {} {}", site, self_id, payer_id, funds, bal0, coq_bool(o.ok), bal1, ps)
}

// ------------------------------------------------------------------ generation

fn n(a: u128) -> Vec<(String, u128)> {
    vec![(NATIVE.to_string(), a)]
}
/// the payments tried around a requirement `req` in `denom`: exact first, then the
/// boundary and the malformed ones
fn payments(req: u128, denom: &str, all: bool) -> Vec<Vec<(String, u128)>> {
    let other = if denom == NATIVE { IBC } else { NATIVE };
    let one = |a: u128| if a == 0 { vec![] } else { vec![(denom.to_string(), a)] };
    let mut v = vec![one(req)];
    if all {
        if req > 1 {
            v.push(one(req - 1));
        }
        v.push(one(req + 1));
        if req > 0 {
            v.push(vec![]);
            v.push(vec![(other.to_string(), req)]);
            v.push(vec![(denom.to_string(), req), (other.to_string(), 1)]);
        }
    }
    v
}

pub fn gen_cases(thorough: bool, rng: &mut Rng) -> Vec<SiteCase> {
    let mut out: Vec<SiteCase> = vec![];
    let mut push = |site: Site, funds: Vec<(String, u128)>| out.push(SiteCase { site, funds, prior: None, gov: None });

    // ---- creation fee: four factories x fee denom x mint denom x fee values x payments
    let mut fees: Vec<u128> = vec![1, 2, 3, 4, 5, 999_999_999, 5_000_000_000, 1_000_000_000_000_000_000_000_000_000_001];
    if thorough {
        for _ in 0..12 {
            fees.push(1 + rng.u128_any_size() % (RICH / 4));
        }
    }
    let creators: Vec<(FactoryKind, MinterKind)> = vec![
        (FactoryKind::Base, MinterKind::Base),
        (FactoryKind::Vending, MinterKind::Vending),
        (FactoryKind::Vending, MinterKind::VendingMerkleWlFeatured),
        (FactoryKind::OpenEdition, MinterKind::OpenEdition),
        (FactoryKind::OpenEdition, MinterKind::OpenEditionWlFlex),
        (FactoryKind::TokenMerge, MinterKind::TokenMerge),
    ];
    let all_minters_thorough: Vec<(FactoryKind, MinterKind)> = MinterKind::ALL.iter().map(|m| (m.factory(), *m)).collect();
    for (factory, minter) in if thorough { &all_minters_thorough } else { &creators } {
        for fee_native in [true, false] {
            for mint_native in [true, false] {
                if *factory == FactoryKind::TokenMerge && !mint_native {
                    continue; // no min_mint_price in this factory
                }
                for (i, fee) in fees.iter().enumerate() {
                    let all = *fee == 3 || *fee == 5_000_000_000 || (thorough && i % 3 == 0);
                    for f in payments(*fee, denom_of(fee_native), all) {
                        push(Site::Create { factory: *factory, minter: *minter, fee_native, mint_native, fee: *fee }, f);
                    }
                }
            }
        }
    }

    // ---- shuffle fee: the six vending minters and the token-merge minter
    for m in MinterKind::ALL.iter().filter(|m| matches!(m.factory(), FactoryKind::Vending | FactoryKind::TokenMerge)) {
        for fee in [1u128, 2, 3, 500_000_000, 500_000_001] {
            for f in payments(fee, NATIVE, fee == 3 || fee == 500_000_000) {
                push(Site::Shuffle { minter: *m, fee, by_admin: false }, f);
            }
            if fee == 3 || fee == 500_000_001 {
                for f in payments(fee, NATIVE, fee == 3) {
                    push(Site::Shuffle { minter: *m, fee, by_admin: true }, f);
                }
            }
        }
    }

    // ---- whitelists: creation and IncreaseMemberLimit
    for kind in 0..4u8 {
        for ml in [1u32, 999, 1000, 1001, 2000, 2001, 5000] {
            let fee = ceil_div(ml as u128, 1000) * 100_000_000;
            for f in payments(fee, NATIVE, ml == 1000 || ml == 1001) {
                push(Site::WlCreate { kind, member_limit: ml }, f);
            }
        }
        for (old, new) in [(1000u32, 1001u32), (999, 1000), (1000, 2000), (1000, 2001), (1, 5000), (1500, 1600), (2000, 2001)] {
            let fee = (ceil_div(new as u128, 1000) - ceil_div(old as u128, 1000)) * 100_000_000;
            let mut ps = payments(fee, NATIVE, true);
            if fee == 0 {
                ps.push(vec![(IBC.to_string(), 1)]);
            }
            for f in ps {
                push(Site::WlIncrease { kind, old, new }, f);
            }
        }
    }
    for tiered in [false, true] {
        for f in payments(1_000_000_000, NATIVE, true) {
            push(Site::WlMerkleCreate { tiered }, f);
        }
    }
    for f in payments(1_500_000_000, NATIVE, true) {
        push(Site::EnableUpdatable, f);
    }
    for f in payments(100_000_000, NATIVE, true) {
        push(Site::AirdropInit, f);
    }
    push(Site::AirdropInit, n(100_000_000 + 20 * 66_000_000));

    // ---- mints: (price, bps) chosen for the fee F they give
    let pb: Vec<(u128, u64)> = vec![
        (10, 1000),            // F = 1
        (20, 1000),            // 2
        (30, 1000),            // 3
        (40, 1000),            // 4
        (50, 1000),            // 5
        (80, 1000),            // 8
        (90, 1000),            // 9
        (160, 1000),           // 16
        (170, 1000),           // 17
        (100_000_000, 1000),   // 10^7
        (999_999_999, 777),    // 77_699_999 (odd)
        (7, 1000),             // 0: no fee
        (1_000_000_000_000_000_000_000_000, 10_000), // the whole price
    ];
    for (price, bps) in &pb {
        let fee = price * *bps as u128 / 10_000;
        if fee == 0 {
            continue; // base-minter: must_pay refuses an empty payment, a zero fee cannot be paid
        }
        for f in payments(fee, NATIVE, *price == 30 || *price == 100_000_000) {
            push(Site::BaseMint { price: *price, bps: *bps }, f);
        }
    }
    for m in MinterKind::ALL.iter().filter(|m| **m != MinterKind::Base) {
        for mode in [MintMode::Public, MintMode::Airdrop, MintMode::Whitelist] {
            if *m == MinterKind::TokenMerge && mode != MintMode::Airdrop {
                continue; // token-merge public mints are paid in NFTs; only airdrop mints carry a fee
            }
            for native in [true, false] {
                for (i, (price, bps)) in pb.iter().enumerate() {
                    if mode == MintMode::Whitelist && (*price > 100_000_000_000 || (!thorough && i % 2 == 1 && *price != 30)) {
                        continue;
                    }
                    if !thorough && !native && i % 2 == 0 && *price != 30 {
                        continue;
                    }
                    let all = *price == 30 || (*price == 100_000_000 && (native || thorough));
                    for f in payments(*price, denom_of(native), all) {
                        push(Site::Mint { minter: *m, mode, native, price: *price, bps: *bps, by_creator: false, dev: None }, f);
                    }
                    // the creator buying from the own collection pays the same fee
                    if mode == MintMode::Public && (*price == 90 || *price == 100_000_000) {
                        push(Site::Mint { minter: *m, mode, native, price: *price, bps: *bps, by_creator: true, dev: None }, vec![(denom_of(native).to_string(), *price)]);
                    }
                }
            }
        }
    }

    // ---- the open-edition developer as governance configured it: a valid account, the
    // creator (who is also the seller), the payment address, and strings the chain's address
    // rules refuse or a careless proposal could contain; set at factory instantiate and by a
    // sudo UpdateParams; on all three open-edition minters, every mint mode
    let upper = wf::DEV_ADDRESS.to_uppercase();
    let mixed = format!("S{}", &wf::DEV_ADDRESS[1..]);
    let spaced = format!("{} ", wf::DEV_ADDRESS);
    let long = "d".repeat(120);
    let dev_strings: Vec<&str> = vec!["devaccount2", CREATOR, upper.as_str(), mixed.as_str(), "ab", "", "dev addr", spaced.as_str(), long.as_str()];
    for m in MinterKind::ALL.iter().filter(|m| is_oe(**m)) {
        for mode in [MintMode::Public, MintMode::Airdrop, MintMode::Whitelist] {
            for (price, bps) in [(100_000_000u128, 1000u64), (30, 1000), (7, 1000)] {
                for by_sudo in [false, true] {
                    for a in &dev_strings {
                        if !thorough && price == 7 && (by_sudo || mode != MintMode::Public) {
                            continue;
                        }
                        let dev = Some(DevCfg { address: a.to_string(), by_sudo, with_payment_address: false });
                        out.push(SiteCase {
                            site: Site::Mint { minter: *m, mode, native: true, price, bps, by_creator: false, dev },
                            funds: n(price),
                            prior: None,
                            gov: None,
                        });
                    }
                    if mode == MintMode::Whitelist && price != 7 {
                        let dev = Some(DevCfg { address: PAYADDR.to_string(), by_sudo, with_payment_address: true });
                        out.push(SiteCase {
                            site: Site::Mint { minter: *m, mode, native: true, price, bps, by_creator: false, dev },
                            funds: n(price),
                            prior: None,
                            gov: None,
                        });
                    }
                }
            }
        }
    }

    // ---- the calling contract already holds a balance: every site shape at one
    // representative fee, the contract funded by a bank send (1, req-1, req, 10*req of the
    // fee denom; 1 and 10*req of the other denom) and, where the site takes over-payments,
    // by an earlier over-paying call (1, req-1); then all the payments around the requirement
    let mut shapes: Vec<(Site, u128, bool, bool)> = vec![]; // (site, required payment, in ustars?, over-payable?)
    for (factory, minter) in &creators {
        for fee_native in [true, false] {
            let mint_natives: &[bool] = if *factory == FactoryKind::Vending && *minter == MinterKind::Vending { &[true, false] } else { &[true] };
            for mint_native in mint_natives {
                let fee = 5_000_000_000u128;
                shapes.push((
                    Site::Create { factory: *factory, minter: *minter, fee_native, mint_native: *mint_native, fee },
                    fee,
                    fee_native,
                    fee_native && *factory != FactoryKind::OpenEdition,
                ));
            }
        }
    }
    for m in MinterKind::ALL.iter().filter(|m| matches!(m.factory(), FactoryKind::Vending | FactoryKind::TokenMerge)) {
        shapes.push((Site::Shuffle { minter: *m, fee: 500_000_000, by_admin: false }, 500_000_000, true, true));
    }
    for kind in 0..4u8 {
        shapes.push((Site::WlCreate { kind, member_limit: 1000 }, 100_000_000, true, false));
        shapes.push((Site::WlIncrease { kind, old: 1000, new: 2000 }, 100_000_000, true, false));
    }
    for tiered in [false, true] {
        shapes.push((Site::WlMerkleCreate { tiered }, 1_000_000_000, true, false));
    }
    shapes.push((Site::EnableUpdatable, 1_500_000_000, true, false));
    shapes.push((Site::AirdropInit, 100_000_000, true, false));
    shapes.push((Site::BaseMint { price: 100_000_000, bps: 1000 }, 10_000_000, true, false));
    for m in MinterKind::ALL.iter().filter(|m| **m != MinterKind::Base) {
        for mode in [MintMode::Public, MintMode::Airdrop, MintMode::Whitelist] {
            if *m == MinterKind::TokenMerge && mode != MintMode::Airdrop {
                continue;
            }
            for native in [true, false] {
                if !native && !(thorough || (mode == MintMode::Public && !is_featured(*m))) {
                    continue;
                }
                shapes.push((Site::Mint { minter: *m, mode, native, price: 100_000_000, bps: 1000, by_creator: false, dev: None }, 100_000_000, native, false));
            }
        }
    }
    for (site, req, native, overpayable) in shapes {
        let (fd, od) = (denom_of(native), denom_of(!native));
        let mut priors: Vec<Prior> = vec![];
        for a in [1, req - 1, req, 10 * req] {
            priors.push(Prior { denom: fd.to_string(), amount: a, by_overpayment: false });
        }
        for a in [1, 10 * req] {
            priors.push(Prior { denom: od.to_string(), amount: a, by_overpayment: false });
        }
        if overpayable {
            for a in [1, req - 1] {
                priors.push(Prior { denom: fd.to_string(), amount: a, by_overpayment: true });
            }
        }
        for prior in priors {
            let all = prior.denom == fd || thorough;
            let mut ps = payments(req, fd, true);
            if !all {
                // the other denom held: the under-payment, the exact payment and the payment in that denom
                ps = vec![ps[1].clone(), ps[0].clone(), ps[4].clone()];
            }
            for f in ps {
                out.push(SiteCase { site: site.clone(), funds: f, prior: Some(prior.clone()), gov: None });
            }
        }
    }
    // ---- governance changed the factory parameters after the minter was created: the
    // minimum mint price lowered (to a fifth) and raised (threefold) under an existing
    // minter, and the parameters read at call time (mint_fee_bps, airdrop price and bps,
    // shuffle fee) created higher / lower and then set to the values of the case
    let govs = |stored_price: u128| -> Vec<Gov> {
        vec![
            Gov { min_mint_price: Some((stored_price / 5).max(1)), created_with_higher: None },
            Gov { min_mint_price: Some(stored_price * 3), created_with_higher: None },
            Gov { min_mint_price: None, created_with_higher: Some(true) },
            Gov { min_mint_price: None, created_with_higher: Some(false) },
            Gov { min_mint_price: Some((stored_price / 5).max(1)), created_with_higher: Some(true) },
            Gov { min_mint_price: Some(stored_price * 3), created_with_higher: Some(false) },
        ]
    };
    let mut gov_sites: Vec<(Site, u128, u128)> = vec![]; // (site, required payment, the minter's stored price)
    for (price, bps) in [(100_000_000u128, 1000u64), (50_000_000, 10_000), (30, 1000)] {
        gov_sites.push((Site::BaseMint { price, bps }, price * bps as u128 / 10_000, price));
    }
    for m in MinterKind::ALL.iter().filter(|m| matches!(m.factory(), FactoryKind::Vending | FactoryKind::TokenMerge)) {
        gov_sites.push((Site::Shuffle { minter: *m, fee: 500_000_000, by_admin: false }, 500_000_000, 100_000_000));
    }
    for m in MinterKind::ALL.iter().filter(|m| **m != MinterKind::Base) {
        for mode in [MintMode::Public, MintMode::Airdrop, MintMode::Whitelist] {
            if *m == MinterKind::TokenMerge && mode != MintMode::Airdrop {
                continue;
            }
            let stored = if mode == MintMode::Airdrop { 77_000_000 } else { 100_000_000 };
            gov_sites.push((Site::Mint { minter: *m, mode, native: true, price: 100_000_000, bps: 1000, by_creator: false, dev: None }, 100_000_000, stored));
        }
    }
    for (site, req, stored) in gov_sites {
        let token_merge = matches!(&site, Site::Shuffle { minter: MinterKind::TokenMerge, .. } | Site::Mint { minter: MinterKind::TokenMerge, .. });
        for g in govs(stored) {
            if token_merge && g.min_mint_price.is_some() {
                continue; // the token-merge factory has no min_mint_price
            }
            let mut ps = vec![n(req)];
            if g.created_with_higher.is_none() || thorough {
                ps.push(n(req - 1));
            }
            for f in ps {
                out.push(SiteCase { site: site.clone(), funds: f, prior: None, gov: Some(g.clone()) });
            }
        }
    }
    out
}

/// Observation, not a verdict: a vending factory INSTANTIATED with a shuffle fee in a
/// non-native denom (sudo update_params refuses that, instantiate does not).  The minter
/// reads only the amount and charges it in ustars.
pub fn probe_shuffle_fee_in_ibc_denom() -> String {
    let mut lines = vec![];
    for pay_denom in [IBC, NATIVE] {
        let w = match wf::setup_minter_with(MinterKind::Vending, |p, _| p.shuffle_fee = (IBC.to_string(), 500)) {
            Ok(w) => w,
            Err(e) => return format!("shuffle_fee in {}: the factory / minter cannot be created: {}", IBC, e),
        };
        let funds = vec![coin(500, pay_denom)];
        let mut app = w.app;
        rich(&mut app, BUYER, &funds);
        let m = w.minter.clone();
        let st = Stage { app, contract: m.to_string(), payer: BUYER.into(), dev: None, seller: None, overpay: None };
        let o = observe(st, Box::new(move |app: &mut App| wf::exec_json(app, BUYER, &m, &json!({"shuffle": {}}), &funds)));
        lines.push(format!(
            "paying 500 {}: {} (burned {} ustars, pool +{} ustars, launchpad DAO +{} {})",
            pay_denom,
            if o.ok { "accepted" } else { "rejected" },
            o.delta(BURNED, NATIVE),
            o.delta(chain::FAIRBURN_POOL, NATIVE),
            o.delta(LAUNCHPAD_DAO, IBC),
            IBC
        ));
    }
    format!("observation (vending-minter Shuffle, factory instantiated with shuffle_fee = 500 {}): {}", IBC, lines.join("; "))
}

pub fn kind(c: &SiteCase) -> String {
    let e = expectation(c);
    format!("site:{}:{}", e.contract_name, e.op)
}
