//! C03 — per-address, per-whitelist and per-stage mint limits are never exceeded
//! (vending family).  Histories of mints by three buyers, a stranger and the admin on
//! every (minter variant x whitelist kind) pairing the wire formats admit (and the ones
//! they do not), interleaved with limit updates on the minter and on the whitelist,
//! whitelist swaps before start, tiered stage hand-over and the clock visiting every
//! stage edge; adversarial stage / proof / allocation arguments on the Merkle variants.
//! Monitors recount the successful mints per (address, phase, whitelist, stage) from the
//! trace and compare with the limit / entitlement in force right before each success
//! (read from the contracts' own queries, or from the harness' knowledge of the Merkle
//! tree) and with the MintCount query.  Every minter step is printed for the Coq model.
use crate::chain;
use crate::util::*;
use crate::oe_world::{OeCfg, OeOp, OeWorld, OE_VARIANTS};
use crate::w_sale::*;
use cw_multi_test::Executor;
use crate::Args;
use cosmwasm_std::Addr;
use serde::{Deserialize, Serialize};
use serde_json::{json, Value};
use std::collections::{BTreeMap, BTreeSet};

// ---------- Merkle trees as the two whitelist contracts verify them ----------
// both fold the proof with sorted-pair hashing from the hashed leaf string;
// whitelist-merkletree: SHA-256 (32 bytes); tiered-whitelist-merkletree: BLAKE3
// truncated to 16 bytes
mod mtree {
    use sha2::{Digest, Sha256};
    #[derive(Clone, Copy)]
    pub enum Hasher {
        Sha256,
        Blake3x16,
    }
    impl Hasher {
        pub fn h(&self, data: &[u8]) -> Vec<u8> {
            match self {
                Hasher::Sha256 => Sha256::digest(data).to_vec(),
                Hasher::Blake3x16 => blake3::hash(data).as_bytes()[..16].to_vec(),
            }
        }
    }
    pub struct Tree {
        pub root: String,
        pub leaves: Vec<String>,
        pub proofs: Vec<Vec<String>>,
    }
    pub fn build(h: Hasher, leaves: &[String]) -> Tree {
        if leaves.is_empty() {
            return Tree { root: hex::encode(h.h(b"#empty-tree")), leaves: vec![], proofs: vec![] };
        }
        let mut layer: Vec<Vec<u8>> = leaves.iter().map(|l| h.h(l.as_bytes())).collect();
        let mut idx: Vec<usize> = (0..leaves.len()).collect();
        let mut proofs: Vec<Vec<String>> = vec![vec![]; leaves.len()];
        while layer.len() > 1 {
            for (k, i) in idx.iter_mut().enumerate() {
                let sib = *i ^ 1;
                if sib < layer.len() {
                    proofs[k].push(hex::encode(&layer[sib]));
                }
                *i /= 2;
            }
            let mut next = vec![];
            let mut j = 0;
            while j < layer.len() {
                if j + 1 < layer.len() {
                    let (a, b) = if layer[j] <= layer[j + 1] { (&layer[j], &layer[j + 1]) } else { (&layer[j + 1], &layer[j]) };
                    let mut cat = a.clone();
                    cat.extend_from_slice(b);
                    next.push(h.h(&cat));
                } else {
                    // odd node: the contracts only fold the proof, so promoting it unchanged is a valid tree;
                    // but then its proof must not list a sibling at this level (handled above: sib >= len)
                    next.push(layer[j].clone());
                }
                j += 2;
            }
            layer = next;
        }
        Tree { root: hex::encode(&layer[0]), leaves: leaves.to_vec(), proofs }
    }
    impl Tree {
        pub fn proof(&self, leaf: &str) -> Option<Vec<String>> {
            self.leaves.iter().position(|l| l == leaf).map(|i| self.proofs[i].clone())
        }
    }
}

/// the leaf string a Merkle minter asks about (contract: format!("{stage}{sender}{allocation}") with absent parts omitted)
fn leaf(stage: Option<u32>, who: &str, alloc: Option<u32>) -> String {
    format!("{}{}{}", stage.map(|s| s.to_string()).unwrap_or_default(), who, alloc.map(|a| a.to_string()).unwrap_or_default())
}

// ---------- whitelist specifications ----------
#[derive(Clone, Debug, Serialize, Deserialize, PartialEq)]
pub struct StageSpec {
    pub start: u64, // seconds after world creation
    pub end: u64,
    pub limit: u32,
    pub cap: Option<u32>,
    /// (address, n): n = flex mint_count / Merkle allocation (any u32, 0 included)
    pub members: Vec<(String, u32)>,
    /// Merkle kinds: members whose leaf carries NO allocation (the whitelist's per_address_limit applies)
    #[serde(default)]
    pub noalloc: Vec<String>,
}
impl StageSpec {
    /// None: not a member; Some(None): member, leaf without allocation; Some(Some(n)): leaf binds allocation n
    fn alloc_of(&self, who: &str) -> Option<Option<u32>> {
        self.members.iter().find(|m| m.0 == who).map(|m| if self.noalloc.iter().any(|x| x == who) { None } else { Some(m.1) })
    }
}
#[derive(Clone, Debug, Serialize, Deserialize, PartialEq)]
pub struct WlSpec {
    /// plain | tiered | flex | tiered-flex | merkle | tiered-merkle
    pub kind: String,
    pub price: u128,
    pub ibc: bool,
    pub stages: Vec<StageSpec>,
    /// tiered list kinds: +1 = instantiate with one member list MORE than stages (the surplus list holds the
    /// stranger and must never become effective), -1 = one list fewer (must be rejected)
    #[serde(default)]
    pub lists_delta: i8,
    /// the whitelist's only admin (default: the minter's creator)
    #[serde(default)]
    pub admin: Option<String>,
}
/// the minter family member a case runs on: 0..=5 the vending minters, 6..=8 the open-edition minters
#[derive(Clone, Copy, Debug)]
pub struct Fam {
    pub name: &'static str,
    pub flex: bool,
    pub merkle: bool,
    pub oe: bool,
}
pub fn fam(variant: usize) -> Fam {
    if variant < 6 {
        let v = VARIANTS[variant];
        Fam { name: v.name, flex: v.flex, merkle: v.merkle, oe: false }
    } else {
        let v = OE_VARIANTS[variant - 6];
        Fam { name: v.name, flex: v.flex, merkle: v.merkle, oe: true }
    }
}
fn is_tiered(k: &str) -> bool {
    k.starts_with("tiered")
}
fn is_flex(k: &str) -> bool {
    k.ends_with("flex")
}
fn is_merkle(k: &str) -> bool {
    k.ends_with("merkle")
}
impl WlSpec {
    fn stage_leaves(&self, i: usize) -> Vec<String> {
        let tiered = is_tiered(&self.kind);
        self.stages[i]
            .members
            .iter()
            .map(|(a, _)| leaf(if tiered { Some(i as u32) } else { None }, a, self.stages[i].alloc_of(a).unwrap()))
            .collect()
    }
    fn tree(&self, i: usize) -> mtree::Tree {
        let h = if is_tiered(&self.kind) { mtree::Hasher::Blake3x16 } else { mtree::Hasher::Sha256 };
        mtree::build(h, &self.stage_leaves(i))
    }
    fn delta_lists(&self, mut lists: Vec<Value>, surplus: Value) -> Vec<Value> {
        if self.lists_delta > 0 {
            lists.push(surplus);
        } else if self.lists_delta < 0 {
            lists.pop();
        }
        lists
    }
    fn msg(&self, t0: u64) -> (Value, u128) {
        let denom = if self.ibc { IBC } else { NATIVE };
        let t = |secs: u64| json!((t0 + secs * 1_000_000_000).to_string());
        let price = json!({"amount": self.price.to_string(), "denom": denom});
        let s0 = &self.stages[0];
        let addrs = |s: &StageSpec| s.members.iter().map(|m| json!(m.0)).collect::<Vec<_>>();
        let flexm = |s: &StageSpec| s.members.iter().map(|m| json!({"address": m.0, "mint_count": m.1})).collect::<Vec<_>>();
        let stages = |with_limit: bool| -> Vec<Value> {
            self.stages
                .iter()
                .enumerate()
                .map(|(i, s)| {
                    let mut v = json!({"name": format!("stage{}", i), "start_time": t(s.start), "end_time": t(s.end),
                        "mint_price": price.clone(), "mint_count_limit": s.cap});
                    if with_limit {
                        v["per_address_limit"] = json!(s.limit);
                    }
                    v
                })
                .collect()
        };
        match self.kind.as_str() {
            "plain" => (
                json!({"members": addrs(s0), "start_time": t(s0.start), "end_time": t(s0.end), "mint_price": price,
                    "per_address_limit": s0.limit, "member_limit": 1000, "admins": [self.admin.clone().unwrap_or(CREATOR.to_string())], "admins_mutable": true}),
                100_000_000,
            ),
            "flex" => (
                json!({"members": flexm(s0), "start_time": t(s0.start), "end_time": t(s0.end), "mint_price": price,
                    "member_limit": 1000, "admins": [self.admin.clone().unwrap_or(CREATOR.to_string())], "admins_mutable": true, "whale_cap": null}),
                100_000_000,
            ),
            "tiered" => (
                json!({"members": self.delta_lists(self.stages.iter().map(addrs).map(Value::from).collect(), json!([STRANGER])), "stages": stages(true),
                    "member_limit": 1000, "admins": [self.admin.clone().unwrap_or(CREATOR.to_string())], "admins_mutable": true}),
                100_000_000,
            ),
            "tiered-flex" => (
                json!({"members": self.delta_lists(self.stages.iter().map(flexm).map(Value::from).collect(), json!([{"address": STRANGER, "mint_count": 3}])), "stages": stages(false),
                    "member_limit": 1000, "admins": [self.admin.clone().unwrap_or(CREATOR.to_string())], "admins_mutable": true, "whale_cap": null}),
                100_000_000,
            ),
            "merkle" => (
                json!({"merkle_root": self.tree(0).root, "merkle_tree_uri": null, "start_time": t(s0.start), "end_time": t(s0.end),
                    "mint_price": price, "per_address_limit": s0.limit, "admins": [self.admin.clone().unwrap_or(CREATOR.to_string())], "admins_mutable": true}),
                1_000_000_000,
            ),
            _ => (
                json!({"stages": stages(true), "merkle_roots": (0..self.stages.len()).map(|i| self.tree(i).root).collect::<Vec<_>>(),
                    "merkle_tree_uris": null, "admins": [self.admin.clone().unwrap_or(CREATOR.to_string())], "admins_mutable": true}),
                1_000_000_000,
            ),
        }
    }
}

// ---------- case language ----------
#[derive(Clone, Debug, Serialize, Deserialize, PartialEq)]
pub enum COp {
    /// a sale-world op (clock, mints, minter admin ops)
    S(Op),
    /// create a whitelist; it becomes the spare one
    MakeWl(WlSpec),
    /// minter SetWhitelist{spare}
    Attach { who: String },
    /// whitelist admin ops on the whitelist the minter currently points at
    WlLimit { stage: u32, limit: u32 },
    WlCap { stage: u32, cap: Option<u32> },
    WlAdd { stage: u32, who: String, count: u32 },
    WlRemove { stage: u32, who: String },
    /// tiered list kinds: AddStage / RemoveStage / UpdateStageConfig with any subset of its optional fields
    /// (a None field is NOT sent: the stage keeps its value)
    WlAddStage { stage: StageSpec },
    WlRemoveStage { stage: u32 },
    WlUpdateStage { stage: u32, name: Option<String>, start: Option<u64>, end: Option<u64>, price: Option<u128>, limit: Option<u32>, cap: Option<u32> },
    /// IncreaseMemberLimit (list kinds; 1000 -> 1001.. costs 100 STARS); it has no admin check in the unchanged tree
    WlIncreaseMemberLimit { limit: u32 },
    /// the same whitelist admin op sent by somebody who is NOT an admin of the whitelist (a buyer, a member, the
    /// stranger, the minter's creator when the whitelist has another admin): must be rejected
    By { who: String, op: Box<COp> },
    /// the admin airdrops (MintTo) until nothing is mintable
    SellOut,
    /// an open-edition-only op (UpdateEndTime ...); ignored on the vending minters
    E(OeOp),
}

/// whitelist the minter is created with (built by the sale world's own helper)
#[derive(Clone, Debug, Serialize, Deserialize, PartialEq)]
pub struct InitWl {
    pub kind: String, // plain | tiered | flex | tiered-flex
    pub windows: Vec<(u64, u64)>,
    pub limit: u32,
    pub cap: Option<u32>,
    pub flex_count: u32,
    pub members: Vec<String>,
    pub price: u128,
}

#[derive(Clone, Debug, Serialize, Deserialize)]
pub struct Case {
    pub tag: String,
    pub variant: usize,
    pub num_tokens: u32,
    pub pal: u32,
    pub price: u128,
    pub start_in: u64,
    pub init_wl: Option<InitWl>,
    /// open edition: end time (seconds after creation) and "no num_tokens"
    #[serde(default)]
    pub end_in: Option<u64>,
    #[serde(default)]
    pub unlimited: bool,
    pub ops: Vec<COp>,
}

fn leak(s: &str) -> &'static str {
    match s {
        "buyer1" => "buyer1",
        "buyer2" => "buyer2",
        "buyer3" => "buyer3",
        "stranger" => "stranger",
        _ => "creator",
    }
}

fn cfg_of(c: &Case) -> SaleCfg {
    let mut cfg = SaleCfg::basic(c.variant);
    cfg.num_tokens = c.num_tokens;
    cfg.pal = c.pal;
    cfg.price = c.price;
    cfg.start_in_secs = c.start_in;
    if let Some(i) = &c.init_wl {
        cfg.wl = match i.kind.as_str() {
            "plain" => WlKind::Plain,
            "tiered" => WlKind::Tiered,
            "flex" => WlKind::Flex,
            _ => WlKind::TieredFlex,
        };
        cfg.wl_windows = i.windows.clone();
        cfg.wl_price = i.price;
        cfg.wl_limit = i.limit;
        cfg.wl_stage_limit = i.cap;
        cfg.wl_members = i.members.iter().map(|m| leak(m)).collect();
        cfg.wl_flex_count = i.flex_count;
    }
    cfg
}

pub struct CaseResult {
    pub coq: Option<String>,
    pub steps: u64,
    pub ok_steps: u64,
    pub ok_mints: u64,
    pub violations: Vec<(String, String)>,
    pub hist: BTreeMap<String, u64>,
}

fn op_kind(op: &COp) -> &'static str {
    match op {
        COp::S(Op::Mint { .. }) => "mint",
        COp::S(Op::MintM { proof, allocation, .. }) => match (proof.is_some(), allocation.is_some()) {
            (true, true) => "mint_proof_alloc",
            (true, false) => "mint_proof",
            (false, true) => "mint_alloc_noproof",
            (false, false) => "mint_merkle_bare",
        },
        COp::S(Op::MintTo { .. }) => "mint_to",
        COp::S(Op::MintFor { .. }) => "mint_for",
        COp::S(Op::Purge { .. }) => "purge",
        COp::S(Op::UpdatePerAddressLimit { .. }) => "update_per_address_limit",
        COp::S(Op::UpdateStartTime { .. }) => "update_start_time",
        COp::S(Op::Shuffle { .. }) => "shuffle",
        COp::S(Op::BurnRemaining { .. }) => "burn_remaining",
        COp::S(Op::Migrate { .. }) => "migrate",
        COp::S(_) => "other",
        COp::MakeWl(_) => "make_whitelist",
        COp::Attach { .. } => "set_whitelist",
        COp::WlLimit { .. } => "wl_update_limit",
        COp::WlCap { .. } => "wl_update_stage_cap",
        COp::WlAdd { .. } => "wl_add_member",
        COp::WlRemove { .. } => "wl_remove_member",
        COp::WlAddStage { .. } => "wl_add_stage",
        COp::WlRemoveStage { .. } => "wl_remove_stage",
        COp::WlUpdateStage { .. } => "wl_update_stage",
        COp::WlIncreaseMemberLimit { .. } => "wl_increase_member_limit",
        COp::By { .. } => "wl_op_by_non_admin",
        COp::SellOut => "mint_to",
        COp::E(OeOp::UpdateEndTime { .. }) => "update_end_time",
        COp::E(_) => "other",
    }
}

fn q(app: &chain::App, a: &str, m: Value) -> Option<Value> {
    app.wrap().query_wasm_smart::<Value>(Addr::unchecked(a), &m).ok()
}


// ---------- the admin's ledger ----------
/// What the whitelist ADMIN set, kept by the harness from the accepted instantiate / admin messages with the
/// documented semantics (an omitted optional field keeps its value; remove_stage(i) drops stage i and every later
/// stage with their members and allowances; add_stage appends its own list; adding an address that is already
/// listed keeps its allowance).  The C03 monitors judge entitlements and caps against THIS, never against
/// limits read back from the whitelist.
#[derive(Clone, Debug)]
struct LStage {
    start: u64, // absolute nanoseconds
    end: u64,
    limit: u32,
    cap: Option<u32>,
    price: u128,
    members: BTreeMap<String, u32>,
}
#[derive(Clone, Debug)]
struct Ledger {
    kind: String,
    t0: u64,
    stages: Vec<LStage>,
}
const NS: u64 = 1_000_000_000;
impl Ledger {
    fn lstage(t0: u64, s: &StageSpec, price: u128, flex: bool) -> LStage {
        let mut members = BTreeMap::new();
        for (a, n) in &s.members {
            // instantiate of a flex list: a repeated address overwrites; add_stage: the first entry stays -- the
            // generators never repeat an address with different numbers inside one list
            members.entry(a.clone()).or_insert(if flex { *n } else { *n });
        }
        LStage { start: t0 + s.start * NS, end: t0 + s.end * NS, limit: s.limit, cap: s.cap, price, members }
    }
    fn from_spec(sp: &WlSpec, t0: u64) -> Ledger {
        let tiered = is_tiered(&sp.kind);
        let mut stages: Vec<LStage> = sp.stages.iter().map(|s| Self::lstage(t0, s, sp.price, is_flex(&sp.kind))).collect();
        if !tiered {
            stages.truncate(1);
            stages[0].cap = None;
        }
        Ledger { kind: sp.kind.clone(), t0, stages }
    }
    fn from_init(i: &InitWl, t0: u64) -> Ledger {
        let stages = i
            .windows
            .iter()
            .map(|(s, e)| LStage {
                start: t0 + s * NS,
                end: t0 + e * NS,
                limit: i.limit,
                cap: if is_tiered(&i.kind) { i.cap } else { None },
                price: i.price,
                members: i.members.iter().map(|m| (m.clone(), i.flex_count)).collect(),
            })
            .collect();
        Ledger { kind: i.kind.clone(), t0, stages }
    }
    /// the stage the property calls active: tiered = the earliest stage whose window, both ends inclusive,
    /// contains the block time; a single-window whitelist is active from its start up to (not including) its end
    fn active(&self, now: u64) -> Option<usize> {
        if is_tiered(&self.kind) {
            self.stages.iter().position(|s| s.start <= now && now <= s.end)
        } else {
            self.stages.iter().position(|s| s.start <= now && now < s.end)
        }
    }
    /// an ACCEPTED admin message
    fn apply(&mut self, cop: &COp) {
        let flex = is_flex(&self.kind);
        match cop {
            COp::WlLimit { stage, limit } => {
                let i = if is_tiered(&self.kind) { *stage as usize } else { 0 };
                if let Some(s) = self.stages.get_mut(i) {
                    s.limit = *limit;
                }
            }
            COp::WlCap { stage, cap: Some(c) } => {
                if let Some(s) = self.stages.get_mut(*stage as usize) {
                    s.cap = Some(*c);
                }
            }
            COp::WlCap { cap: None, .. } => {} // `null` is "field omitted": the cap stays
            COp::WlAdd { stage, who, count } => {
                let i = if is_tiered(&self.kind) { *stage as usize } else { 0 };
                if let Some(s) = self.stages.get_mut(i) {
                    s.members.entry(who.clone()).or_insert(if flex { *count } else { 0 });
                }
            }
            COp::WlRemove { stage, who } => {
                let i = if is_tiered(&self.kind) { *stage as usize } else { 0 };
                if let Some(s) = self.stages.get_mut(i) {
                    s.members.remove(who);
                }
            }
            COp::WlAddStage { stage } => {
                let price = self.stages.first().map_or(WL_PRICE, |s| s.price);
                let l = Self::lstage(self.t0, stage, price, flex);
                self.stages.push(l);
            }
            COp::WlRemoveStage { stage } => self.stages.truncate(*stage as usize),
            COp::WlUpdateStage { stage, start, end, price, limit, cap, .. } => {
                let t0 = self.t0;
                if let Some(s) = self.stages.get_mut(*stage as usize) {
                    if let Some(x) = start {
                        s.start = t0 + x * NS;
                    }
                    if let Some(x) = end {
                        s.end = t0 + x * NS;
                    }
                    if let Some(x) = price {
                        s.price = *x;
                    }
                    if let Some(x) = limit {
                        s.limit = *x;
                    }
                    if let Some(x) = cap {
                        s.cap = Some(*x);
                    }
                }
            }
            _ => {}
        }
    }
}

/// what the contracts say right before a mint (monitor input; the property's "in force")
struct Pre {
    pal: u64,
    wl: Option<String>,
    active: bool,
    wl_limit: Option<u64>,
    stage_id: Option<u64>,
    stage_cap: Option<Option<u64>>,
    member_count: Option<u64>,
    /// None = the minter keeps no count of remaining tokens (open edition without num_tokens)
    mintable: Option<u64>,
    end_time: Option<u64>,
    now: u64,
    /// tiered whitelists, computed HERE from the Stages list: the stage the property calls active = the earliest
    /// stage whose window, both ends inclusive, contains the block time (1-based like ActiveStageId), with its
    /// per-address limit, mint_count_limit, price, and the caller's per-stage membership (StageMemberInfo)
    tiered: bool,
    prop_stage: Option<u64>,
    prop_limit: Option<u64>,
    prop_cap: Option<u64>,
    prop_price: Option<String>,
    prop_member: Option<(bool, u64)>,
    cfg_price: Option<String>,
}
fn snapshot(app: &chain::App, c: &Value, mintable: Option<u64>, who: &str) -> Pre {
    let wl = c["whitelist"].as_str().map(|s| s.to_string());
    let mut p = Pre {
        pal: c["per_address_limit"].as_u64().unwrap_or(0),
        wl: wl.clone(),
        active: false,
        wl_limit: None,
        stage_id: None,
        stage_cap: None,
        member_count: None,
        mintable,
        end_time: c.get("end_time").and_then(|x| x.as_str()).and_then(|x| x.parse().ok()),
        now: chain::now(app),
        tiered: false,
        prop_stage: None,
        prop_limit: None,
        prop_cap: None,
        prop_price: None,
        prop_member: None,
        cfg_price: None,
    };
    if let Some(a) = &wl {
        if let Some(wc) = q(app, a, json!({"config": {}})) {
            p.active = wc["is_active"].as_bool().unwrap_or(false);
            p.wl_limit = wc.get("per_address_limit").and_then(|x| x.as_u64());
            p.cfg_price = wc["mint_price"]["amount"].as_str().map(|x| x.to_string());
        }
        if let Some(st) = q(app, a, json!({"stages": {}})).and_then(|v| v["stages"].as_array().cloned()) {
            p.tiered = true;
            let t = |v: &Value| v.as_str().and_then(|x| x.parse::<u64>().ok()).unwrap_or(0);
            for (i, sr) in st.iter().enumerate() {
                let sg = &sr["stage"];
                if t(&sg["start_time"]) <= p.now && p.now <= t(&sg["end_time"]) {
                    p.prop_stage = Some(i as u64 + 1);
                    p.prop_limit = sg.get("per_address_limit").and_then(|x| x.as_u64());
                    p.prop_cap = sg["mint_count_limit"].as_u64();
                    p.prop_price = sg["mint_price"]["amount"].as_str().map(|x| x.to_string());
                    p.prop_member = q(app, a, json!({"stage_member_info": {"stage_id": i, "member": who}}))
                        .map(|v| (v["is_member"].as_bool().unwrap_or(false), v["per_address_limit"].as_u64().unwrap_or(0)));
                    break;
                }
            }
        }
        p.stage_id = q(app, a, json!({"active_stage_id": {}})).and_then(|v| v.as_u64());
        if let Some(id) = p.stage_id {
            if id >= 1 {
                p.stage_cap = q(app, a, json!({"stage": {"stage_id": id - 1}})).map(|v| v["stage"]["mint_count_limit"].as_u64());
            }
        }
        p.member_count = q(app, a, json!({"member": {"member": who}})).and_then(|v| v["mint_count"].as_u64());
    }
    p
}

/// The monitors: recount of the successful mints from the trace, compared with the limit /
/// entitlement in force before each success and with MintCount.  Written from the property text;
/// knows the whitelists only through their queries and the harness' own knowledge of the trees.
struct Mon {
    fam: Fam,
    specs: BTreeMap<String, WlSpec>, // whitelist address -> what the harness put in it
    kinds: BTreeMap<String, String>,
    ledgers: BTreeMap<String, Ledger>, // whitelist address -> what its admin set
    pub_since: BTreeMap<String, u64>, // public mints initiated (incl. admin MintTo/MintFor)
    pub_own: BTreeMap<String, u64>,   // public Mint calls completed
    wl_by: BTreeMap<(String, String, u64), u64>, // (whitelist, address, stage slot) -> mints
    wl_sum: BTreeMap<String, u64>,
    stage_by: BTreeMap<(String, u64), u64>,
    purged: bool,
    mismatch_reported: bool,
    ledger_mismatch_reported: bool,
    violations: Vec<(String, String)>,
}
impl Mon {
    fn new(fam: Fam) -> Mon {
        Mon {
            fam,
            specs: BTreeMap::new(),
            kinds: BTreeMap::new(),
            ledgers: BTreeMap::new(),
            pub_since: BTreeMap::new(),
            pub_own: BTreeMap::new(),
            wl_by: BTreeMap::new(),
            wl_sum: BTreeMap::new(),
            stage_by: BTreeMap::new(),
            purged: false,
            mismatch_reported: false,
            ledger_mismatch_reported: false,
            violations: vec![],
        }
    }
    fn mint_ok(&mut self, who: &str, p: &Pre, m_stage: Option<u32>, m_proof: bool, m_alloc: Option<u32>, desc: &str) {
        let vname = self.fam.name;
        // whitelist phase, active stage, entitlement and cap: from the ADMIN'S LEDGER (what the whitelist admin set,
        // with the documented semantics); only for a whitelist the harness did not create itself the whitelist's own
        // answers are used (tiered: the stage computed from the Stages windows, see `snapshot`)
        let led = p.wl.as_ref().and_then(|a| self.ledgers.get(a)).cloned();
        let in_wl = match (&p.wl, &led) {
            (Some(_), Some(l)) => l.active(p.now).is_some(),
            (Some(_), None) => if p.tiered { p.prop_stage.is_some() } else { p.active },
            _ => false,
        };
        if in_wl {
            let wl = p.wl.clone().unwrap();
            let k = self.kinds.get(&wl).cloned().unwrap_or_default();
            let (slot, ent, cap, tiered, proven): (u64, u64, Option<u64>, bool, bool) = if let Some(l) = &led {
                let i = l.active(p.now).unwrap();
                let st = &l.stages[i];
                let tiered = is_tiered(&l.kind);
                let proven = is_merkle(&k)
                    && m_proof
                    && self.specs.get(&wl).map_or(false, |sp| i < sp.stages.len() && sp.stage_leaves(i).contains(&leaf(m_stage, who, m_alloc)));
                let ent: u64 = if is_flex(&k) {
                    st.members.get(who).map_or(0, |n| *n as u64)
                } else if is_merkle(&k) {
                    if proven { m_alloc.map(|a| a as u64).unwrap_or(st.limit as u64) } else { 0 }
                } else if st.members.contains_key(who) {
                    st.limit as u64
                } else {
                    0
                };
                (if tiered { i as u64 + 1 } else { 0 }, ent, if tiered { st.cap.map(|c| c as u64) } else { None }, tiered, proven)
            } else {
                let slot = if p.tiered { p.prop_stage.unwrap_or(99) } else { 0 };
                let stage_limit = if p.tiered { p.prop_limit } else { p.wl_limit };
                let ent: u64 = if is_flex(&k) {
                    if p.tiered { p.prop_member.map_or(0, |(is, n)| if is { n } else { 0 }) } else { p.member_count.unwrap_or(0) }
                } else if p.tiered {
                    if p.prop_member.map_or(false, |(is, _)| is) { stage_limit.unwrap_or(0) } else { 0 }
                } else {
                    p.wl_limit.unwrap_or(0)
                };
                (slot, ent, if p.tiered { p.prop_cap } else { None }, p.tiered, false)
            };
            let n = self.wl_by.entry((wl.clone(), who.to_string(), slot)).or_insert(0);
            *n += 1;
            let n = *n;
            *self.wl_sum.entry(who.to_string()).or_insert(0) += 1;
            if n > ent {
                let unproven = self.fam.merkle && m_alloc.is_some() && !proven;
                let key = if unproven { "C03:merkle-unproven-allocation" } else { "C03:whitelist-entitlement-exceeded" };
                self.violations.push((
                    key.into(),
                    format!("{} + {} whitelist: {} completed whitelist mint #{} (stage slot {}) with entitlement {} in force ({})", vname, k, who, n, slot, ent, desc),
                ));
            }
            if tiered {
                let t = self.stage_by.entry((wl.clone(), slot)).or_insert(0);
                *t += 1;
                if let Some(cap) = cap {
                    if *t > cap {
                        self.violations.push((
                            "C03:stage-limit-exceeded".into(),
                            format!("{} + {} whitelist: mint #{} in stage {} whose mint_count_limit is {}", vname, k, t, slot, cap),
                        ));
                    }
                }
            }
        } else {
            // ---- a public mint ----
            let n = self.pub_own.entry(who.to_string()).or_insert(0);
            *n += 1;
            let n = *n;
            *self.pub_since.entry(who.to_string()).or_insert(0) += 1;
            if n > p.pal {
                self.violations.push((
                    "C03:public-limit-exceeded".into(),
                    format!("{}: {} completed public mint #{} with per-address limit {} in force", vname, who, n, p.pal),
                ));
            }
        }
    }
    /// a tiered whitelist must describe ONE active stage: Config (is_active, limit, price), ActiveStageId and the
    /// stage windows have to agree (the minters take the limit from Config and the counter bucket from ActiveStageId)
    fn consistent(&mut self, p: &Pre) {
        if !p.tiered || p.wl.is_none() || self.mismatch_reported {
            return;
        }
        let k = self.kinds.get(p.wl.as_ref().unwrap()).cloned().unwrap_or_default();
        let mut what = vec![];
        if p.active != p.prop_stage.is_some() {
            what.push(format!("Config.is_active = {} but the stage windows give {:?}", p.active, p.prop_stage));
        }
        if p.prop_stage.is_some() || p.stage_id.is_some() {
            if p.stage_id.filter(|x| *x > 0) != p.prop_stage {
                what.push(format!("ActiveStageId = {:?} but the earliest stage containing the block time is {:?}", p.stage_id, p.prop_stage));
            }
        }
        if p.active && p.prop_stage.is_some() {
            if !is_flex(&k) && p.wl_limit != p.prop_limit {
                what.push(format!("Config.per_address_limit = {:?} but that stage's limit is {:?}", p.wl_limit, p.prop_limit));
            }
            if p.cfg_price != p.prop_price {
                what.push(format!("Config.mint_price = {:?} but that stage's price is {:?}", p.cfg_price, p.prop_price));
            }
        }
        if !what.is_empty() {
            self.mismatch_reported = true;
            self.violations.push((
                "C03:tiered-config-vs-active-stage-mismatch".into(),
                format!("{} + {} whitelist at block time {}: {}", self.fam.name, k, p.now, what.join("; ")),
            ));
        }
    }
    /// after an accepted instantiate / admin message the whitelist has to report what the admin set: stage
    /// windows, per-address limits, caps, and every tracked address' membership and allowance per stage
    fn readback(&mut self, app: &chain::App, wl: &str, after: &str) {
        let Some(l) = self.ledgers.get(wl).cloned() else { return };
        if is_merkle(&l.kind) || self.ledger_mismatch_reported {
            return;
        }
        let mut what: Vec<String> = vec![];
        let flex = is_flex(&l.kind);
        let people = [CREATOR, BUYERS[0], BUYERS[1], BUYERS[2], STRANGER];
        if is_tiered(&l.kind) {
            let st = q(app, wl, json!({"stages": {}})).and_then(|v| v["stages"].as_array().cloned()).unwrap_or_default();
            if st.len() != l.stages.len() {
                what.push(format!("{} stages reported, the admin set {}", st.len(), l.stages.len()));
            }
            let t = |v: &Value| v.as_str().and_then(|x| x.parse::<u64>().ok()).unwrap_or(0);
            for (i, ls) in l.stages.iter().enumerate() {
                if let Some(sr) = st.get(i) {
                    let sg = &sr["stage"];
                    if t(&sg["start_time"]) != ls.start || t(&sg["end_time"]) != ls.end {
                        what.push(format!("stage {} window {}..{} reported, set {}..{}", i, t(&sg["start_time"]), t(&sg["end_time"]), ls.start, ls.end));
                    }
                    if !flex && sg["per_address_limit"].as_u64() != Some(ls.limit as u64) {
                        what.push(format!("stage {} per_address_limit {} reported, set {}", i, sg["per_address_limit"], ls.limit));
                    }
                    if sg["mint_count_limit"].as_u64() != ls.cap.map(|c| c as u64) {
                        what.push(format!("stage {} mint_count_limit {} reported, set {:?}", i, sg["mint_count_limit"], ls.cap));
                    }
                    if sg["mint_price"]["amount"].as_str() != Some(ls.price.to_string().as_str()) {
                        what.push(format!("stage {} price {} reported, set {}", i, sg["mint_price"]["amount"], ls.price));
                    }
                }
                for a in people {
                    if let Some(v) = q(app, wl, json!({"stage_member_info": {"stage_id": i, "member": a}})) {
                        let is = v["is_member"].as_bool().unwrap_or(false);
                        let n = v["per_address_limit"].as_u64().unwrap_or(0);
                        let want = ls.members.get(a);
                        if is != want.is_some() || (flex && is && Some(n) != want.map(|x| *x as u64)) {
                            what.push(format!("stage {}: {} reported as member={} allowance={}, the admin set {:?}", i, a, is, n, want));
                        }
                    }
                }
            }
        } else {
            let ls = &l.stages[0];
            if let Some(c) = q(app, wl, json!({"config": {}})) {
                if !flex && c["per_address_limit"].as_u64() != Some(ls.limit as u64) {
                    what.push(format!("per_address_limit {} reported, set {}", c["per_address_limit"], ls.limit));
                }
            }
            for a in people {
                let is = q(app, wl, json!({"has_member": {"member": a}})).and_then(|v| v["has_member"].as_bool()).unwrap_or(false);
                let want = ls.members.get(a);
                if is != want.is_some() {
                    what.push(format!("{} reported as member={}, the admin set {:?}", a, is, want));
                } else if flex && is {
                    let n = q(app, wl, json!({"member": {"member": a}})).and_then(|v| v["mint_count"].as_u64());
                    if n != want.map(|x| *x as u64) {
                        what.push(format!("{} allowance {:?} reported, the admin set {:?}", a, n, want));
                    }
                }
            }
        }
        if !what.is_empty() {
            self.ledger_mismatch_reported = true;
            self.violations.push((
                "C03:whitelist-differs-from-admin-settings".into(),
                format!("{} + {} whitelist after {}: {}", self.fam.name, l.kind, after, what.join("; ")),
            ));
        }
    }
    fn airdrop_ok(&mut self, who: &str) {
        *self.pub_since.entry(who.to_string()).or_insert(0) += 1;
    }
    /// a purge may clear the counts only once nothing can be minted any more: sold out, or past the end time
    fn purge_ok(&mut self, p: &Pre) {
        let sold_out = p.mintable == Some(0);
        let ended = p.end_time.map_or(false, |e| p.now >= e); // from the end time on nothing can be minted
        if !sold_out && !ended {
            self.violations.push((
                "C03:purge-before-sell-out".into(),
                format!("{}: Purge succeeded with {:?} tokens still mintable and the sale not ended", self.fam.name, p.mintable),
            ));
        }
        self.purged = true;
    }
    /// reported counts = mints initiated (until a purge after the sale clears them)
    fn counts(&mut self, reported: &[(String, (u64, u64))], desc: &str) {
        if self.purged {
            return;
        }
        for (a, (cnt, wlc)) in reported {
            let p = *self.pub_since.get(a).unwrap_or(&0);
            let wsum = *self.wl_sum.get(a).unwrap_or(&0);
            let want = if self.fam.flex { (p, wsum) } else { (p + wsum, 0) };
            if (*cnt, *wlc) != want {
                self.violations.push((
                    "C03:mint-count-mismatch".into(),
                    format!("{}: after {}: MintCount({}) = ({}, {}) but the trace has {} public and {} whitelist mints initiated", self.fam.name, desc, a, cnt, wlc, p, wsum),
                ));
            }
        }
    }
}

/// money moved by something that is not a minter step (whitelist creation fees): the model only follows
/// the minter's own flows, so the sale world subtracts this drift from the balances it shows
fn record_drift(w: &mut SaleWorld, before: &BTreeMap<(String, String), u128>) {
    for (k, v1) in w.balances_raw() {
        let v0 = before.get(&k).copied().unwrap_or(0);
        if v1 != v0 {
            *w.ext_drift.entry(k).or_insert(0) += v1 as i128 - v0 as i128;
        }
    }
}

/// SetWhitelist{addr} as a recorded minter step (same record layout as SaleWorld::run)
fn attach_step(w: &mut SaleWorld, who: &str, a: &Addr) -> StepOut {
    let now = chain::now(&w.app);
    w.proof_ctx = None;
    let fp = w.fp_coq();
    let wv = w.cur_wl_view(who);
    let before_digest = chain::storage_digest(&w.app, &w.minter);
    let sender_id = w.addrs.id(who);
    let minter_id = w.addrs.id(w.minter.clone().as_str());
    let env = format!("(mkEnv {} {} [] {})", now, sender_id, minter_id);
    let new_view = w.wl_view(a, who);
    let m = w.minter.clone();
    let res = chain::exec(&mut w.app, who, &m, &json!({"set_whitelist": {"whitelist": a.to_string()}}), &[]);
    let ok = res.is_ok();
    let coq_op = format!("(OSetWhitelist true {} {})", w.addrs.id(a.as_str()), new_view.unwrap_or("None".into()));
    let wv_after = w.cur_wl_view(who);
    let obs = w.observe();
    let obs_coq = coq_list(&obs.iter().map(|x| x.to_string()).collect::<Vec<_>>());
    let bal = w.balances_coq();
    let coq = format!("(mkStep {} {} {} {} {} None {} {} {})", env, fp, wv, coq_op, coq_bool(ok), wv_after, obs_coq, bal);
    let mut err = res.err();
    if !ok && chain::storage_digest(&w.app, &w.minter) != before_digest {
        err = Some(format!("STATE-CHANGED-ON-FAILURE: {}", err.unwrap_or_default()));
    }
    StepOut { coq: Some(coq), ok, err, minted: None, is_minter_step: true }
}

/// the same for the open-edition world (record layout of OeWorld::run)
fn attach_step_oe(w: &mut OeWorld, who: &str, a: &Addr) -> StepOut {
    let now = chain::now(&w.app);
    w.proof_ctx = None;
    let new_view = w.wl_view(a, who);
    let fp = w.fp_coq();
    let wv = w.cur_wl_view(who);
    let before_digest = chain::storage_digest(&w.app, &w.minter);
    let sender_id = w.addrs.id(who);
    let minter_id = w.addrs.id(w.minter.clone().as_str());
    let env = format!("(mkEnv {} {} [] {})", now, sender_id, minter_id);
    let m = w.minter.clone();
    let res = chain::exec(&mut w.app, who, &m, &json!({"set_whitelist": {"whitelist": a.to_string()}}), &[]);
    let ok = res.is_ok();
    let coq_op = format!("(ESetWhitelist true {} {})", w.addrs.id(a.as_str()), new_view.unwrap_or("None".into()));
    let wv_after = w.cur_wl_view(who);
    let obs = w.observe();
    let obs_coq = coq_list(&obs.iter().map(|x| x.to_string()).collect::<Vec<_>>());
    let bal = w.balances_coq();
    let coq = format!("(mkOStep {} {} {} {} {} None {} {} {})", env, fp, wv, coq_op, coq_bool(ok), wv_after, obs_coq, bal);
    let mut err = res.err();
    if !ok && chain::storage_digest(&w.app, &w.minter) != before_digest {
        err = Some(format!("STATE-CHANGED-ON-FAILURE: {}", err.unwrap_or_default()));
    }
    StepOut { coq: Some(coq), ok, err, minted: None, is_minter_step: true }
}

fn wl_admin_msg(cop: &COp, k: &str, ledger_t0: u64) -> Value {
    match cop {
        COp::WlLimit { stage, limit } => {
            if is_tiered(k) {
                json!({"update_stage_config": {"stage_id": stage, "name": null, "start_time": null, "end_time": null,
                    "mint_price": null, "per_address_limit": limit, "mint_count_limit": null}})
            } else {
                json!({"update_per_address_limit": limit})
            }
        }
        COp::WlCap { stage, cap } => json!({"update_stage_config": {"stage_id": stage, "name": null, "start_time": null,
            "end_time": null, "mint_price": null, "per_address_limit": null, "mint_count_limit": cap}}),
        COp::WlAdd { stage, who, count } => {
            let m = if is_flex(k) { json!([{"address": who, "mint_count": count}]) } else { json!([who]) };
            if is_tiered(k) {
                json!({"add_members": {"to_add": m, "stage_id": stage}})
            } else {
                json!({"add_members": {"to_add": m}})
            }
        }
        COp::WlRemove { stage, who } => {
            if is_tiered(k) {
                json!({"remove_members": {"to_remove": [who], "stage_id": stage}})
            } else {
                json!({"remove_members": {"to_remove": [who]}})
            }
        }
        COp::WlAddStage { stage } => {
            let t0 = ledger_t0;
            let mut sg = json!({"name": "added", "start_time": (t0 + stage.start * NS).to_string(), "end_time": (t0 + stage.end * NS).to_string(),
                "mint_price": {"amount": WL_PRICE.to_string(), "denom": NATIVE}, "mint_count_limit": stage.cap});
            let members: Vec<Value> = if is_flex(k) {
                stage.members.iter().map(|m| json!({"address": m.0, "mint_count": m.1})).collect()
            } else {
                sg["per_address_limit"] = json!(stage.limit);
                stage.members.iter().map(|m| json!(m.0)).collect()
            };
            json!({"add_stage": {"stage": sg, "members": members}})
        }
        COp::WlRemoveStage { stage } => json!({"remove_stage": {"stage_id": stage}}),
        COp::WlIncreaseMemberLimit { limit } => json!({"increase_member_limit": limit}),
        COp::WlUpdateStage { stage, name, start, end, price, limit, cap } => {
            let t0 = ledger_t0;
            let mut m = json!({"stage_id": stage});
            if let Some(x) = name {
                m["name"] = json!(x);
            }
            if let Some(x) = start {
                m["start_time"] = json!((t0 + x * NS).to_string());
            }
            if let Some(x) = end {
                m["end_time"] = json!((t0 + x * NS).to_string());
            }
            if let Some(x) = price {
                m["mint_price"] = json!({"amount": x.to_string(), "denom": NATIVE});
            }
            if let Some(x) = limit {
                m["per_address_limit"] = json!(x);
            }
            if let Some(x) = cap {
                m["mint_count_limit"] = json!(x);
            }
            json!({"update_stage_config": m})
        }
        _ => json!({}),
    }
}

/// run one whitelist admin op on the whitelist the minter points at; an accepted op goes into the ledger, and the
/// whitelist's own report of its stages / members is compared with the ledger right away
fn do_wl_admin(app: &mut chain::App, mon: &mut Mon, wl: &str, cop: &COp) -> bool {
    let k = mon.kinds.get(wl).cloned().unwrap_or_default();
    let t0 = mon.ledgers.get(wl).map_or(0, |l| l.t0);
    let admin = mon.specs.get(wl).and_then(|sp| sp.admin.clone()).unwrap_or(CREATOR.to_string());
    let (sender, inner): (String, &COp) = match cop {
        COp::By { who, op } => (who.clone(), op.as_ref()),
        _ => (admin.clone(), cop),
    };
    let msg = wl_admin_msg(inner, &k, t0);
    let funds = match inner {
        COp::WlIncreaseMemberLimit { .. } => vec![cosmwasm_std::coin(100_000_000, NATIVE)],
        _ => vec![],
    };
    let r = chain::exec(app, &sender, &Addr::unchecked(wl), &msg, &funds);
    if r.is_ok() {
        if sender == admin {
            // only what the ADMIN sent (and the whitelist accepted) is what the admin set
            if let Some(l) = mon.ledgers.get_mut(wl) {
                l.apply(inner);
            }
            mon.readback(app, wl, &format!("{:?}", inner));
        } else if !matches!(inner, COp::WlIncreaseMemberLimit { .. }) {
            // the ledger stays as it was: the mint monitors will judge later mints against the admin's settings
            mon.violations.push((
                "C03:whitelist-op-by-non-admin-accepted".into(),
                format!("{} + {} whitelist (admin {}): {:?} sent by {} was accepted", mon.fam.name, k, admin, inner, sender),
            ));
        }
    }
    r.is_ok()
}
fn wl_code_key(kind: &str) -> &'static str {
    match kind {
        "plain" => "plain",
        "tiered" => "tiered",
        "flex" => "flex",
        "tiered-flex" => "tiered-flex",
        "merkle" => "merkle",
        _ => "tiered-merkle",
    }
}
fn dbg_err(vname: &str, kind_now: &str, cop: &COp, e: &str) {
    if std::env::var("C03_DEBUG").is_ok() {
        eprintln!("ERR {} [{}] {}: {}", vname, kind_now, op_kind(cop), e.lines().last().unwrap_or("").chars().take(220).collect::<String>());
    }
}

pub fn run_case(c: &Case) -> CaseResult {
    if c.variant >= 6 {
        run_case_oe(c)
    } else {
        run_case_vending(c)
    }
}

fn run_case_vending(c: &Case) -> CaseResult {
    let mut res = CaseResult { coq: None, steps: 0, ok_steps: 0, ok_mints: 0, violations: vec![], hist: BTreeMap::new() };
    let f = fam(c.variant);
    let vname = f.name;
    let init_kind = c.init_wl.as_ref().map(|i| i.kind.clone()).unwrap_or("none".into());
    let mut w = match SaleWorld::new(cfg_of(c)) {
        Ok(w) => w,
        Err(e) => {
            if std::env::var("C03_DEBUG").is_ok() {
                eprintln!("create failed: {} {}: {}", vname, init_kind, e);
            }
            *res.hist.entry(format!("{}:create[{}]:err", vname, init_kind)).or_insert(0) += 1;
            return res;
        }
    };
    *res.hist.entry(format!("{}:create[{}]:ok", vname, init_kind)).or_insert(0) += 1;
    let init = w.init_state_coq();
    let init_bal = w.balances_coq();
    let mut steps: Vec<String> = vec![];
    let mut mon = Mon::new(f);
    if let (Some(a), Some(i)) = (w.whitelist.clone(), &c.init_wl) {
        mon.kinds.insert(a.to_string(), i.kind.clone());
        mon.ledgers.insert(a.to_string(), Ledger::from_init(i, w.t0));
    }
    let mut spare: Option<Addr> = None;
    let accounts = w.count_accounts();
    let mut pending: Vec<COp> = c.ops.iter().rev().cloned().collect();
    let mut sellout_budget = c.num_tokens + 2;
    while let Some(cop_owned) = pending.pop() {
        let cop = &cop_owned;
        if let COp::SellOut = cop {
            if w.mintable() > 0 && sellout_budget > 0 {
                sellout_budget -= 1;
                pending.push(COp::SellOut);
                pending.push(COp::S(Op::MintTo { who: CREATOR.into(), recipient: BUYERS[1].into(), funds: vec![] }));
            }
            continue;
        }
        let kind_now: String = w.minter_config()["whitelist"].as_str().and_then(|a| mon.kinds.get(a).cloned()).unwrap_or("none".into());
        let hkey = |ok: bool| format!("{}[{}]:{}:{}", vname, kind_now, op_kind(cop), if ok { "ok" } else { "err" });
        let out = match cop {
            COp::MakeWl(sp) => {
                let (msg, fee) = sp.msg(w.t0);
                let before = w.balances_raw();
                let r = w.make_whitelist_raw(wl_code_key(&sp.kind), &msg, fee);
                record_drift(&mut w, &before);
                *res.hist.entry(hkey(r.is_ok())).or_insert(0) += 1;
                if let Ok(a) = r {
                    mon.specs.insert(a.to_string(), sp.clone());
                    mon.kinds.insert(a.to_string(), sp.kind.clone());
                    mon.ledgers.insert(a.to_string(), Ledger::from_spec(sp, w.t0));
                    mon.readback(&w.app, a.as_str(), "instantiate");
                    spare = Some(a);
                }
                continue;
            }
            COp::WlLimit { .. } | COp::WlCap { .. } | COp::WlAdd { .. } | COp::WlRemove { .. } | COp::WlAddStage { .. } | COp::WlRemoveStage { .. } | COp::WlUpdateStage { .. } | COp::WlIncreaseMemberLimit { .. } | COp::By { .. } => {
                let Some(a) = w.minter_config()["whitelist"].as_str().map(|s| s.to_string()) else { continue };
                let before = w.balances_raw();
                let ok = do_wl_admin(&mut w.app, &mut mon, &a, cop);
                record_drift(&mut w, &before);
                *res.hist.entry(hkey(ok)).or_insert(0) += 1;
                if mon.violations.len() > 5 {
                    break;
                }
                continue;
            }
            COp::Attach { who } => {
                let Some(a) = spare.clone() else { continue };
                attach_step(&mut w, who, &a)
            }
            COp::SellOut => unreachable!(),
            COp::E(_) => continue,
            COp::S(op) => {
                let pre = match op {
                    Op::Mint { who, .. } | Op::MintM { who, .. } | Op::MintTo { who, .. } | Op::MintFor { who, .. } | Op::Purge { who } => {
                        Some((who.clone(), snapshot(&w.app, &w.minter_config(), Some(w.mintable()), who)))
                    }
                    _ => None,
                };
                if let Some((_, p)) = &pre {
                    mon.consistent(p);
                }
                let out = w.run(op);
                if out.ok {
                    match (op, &pre) {
                        (Op::Mint { .. }, Some((who, p))) => {
                            res.ok_mints += 1;
                            mon.mint_ok(who, p, None, false, None, &format!("{:?}", op));
                        }
                        (Op::MintM { stage, proof, allocation, .. }, Some((who, p))) => {
                            res.ok_mints += 1;
                            mon.mint_ok(who, p, *stage, proof.is_some(), *allocation, &format!("{:?}", op));
                        }
                        (Op::MintTo { .. } | Op::MintFor { .. }, Some((who, _))) => mon.airdrop_ok(who),
                        (Op::Purge { .. }, Some((_, p))) => mon.purge_ok(p),
                        _ => {}
                    }
                }
                out
            }
        };
        if !out.is_minter_step {
            continue;
        }
        res.steps += 1;
        if out.ok {
            res.ok_steps += 1;
        }
        *res.hist.entry(hkey(out.ok)).or_insert(0) += 1;
        if let Some(s) = out.coq {
            steps.push(s);
        }
        if let Some(e) = &out.err {
            dbg_err(vname, &kind_now, cop, e);
            if e.starts_with("STATE-CHANGED-ON-FAILURE") {
                mon.violations.push(("C03:failed-call-changed-state".into(), format!("{}: {:?}: {}", vname, cop, e)));
            }
        }
        let reported: Vec<(String, (u64, u64))> = accounts.iter().map(|a| (a.clone(), w.mint_count(a))).collect();
        mon.counts(&reported, &format!("{:?}", cop));
        if mon.violations.len() > 5 {
            break;
        }
    }
    res.violations = mon.violations;
    res.coq = Some(case_coq(&mut w, &init, &init_bal, &steps));
    res
}

const OE_AIRDROP: u128 = 40;

fn run_case_oe(c: &Case) -> CaseResult {
    let mut res = CaseResult { coq: None, steps: 0, ok_steps: 0, ok_mints: 0, violations: vec![], hist: BTreeMap::new() };
    let f = fam(c.variant);
    let vname = f.name;
    let mut cfg = OeCfg::basic(c.variant - 6);
    cfg.fp.max_token_limit = 100;
    cfg.fp.airdrop_price = OE_AIRDROP;
    cfg.num_tokens = if c.unlimited { None } else { Some(c.num_tokens) };
    cfg.end_in_secs = c.end_in;
    cfg.pal = c.pal;
    cfg.price = c.price;
    cfg.start_in_secs = c.start_in;
    let mut w = match OeWorld::new(cfg) {
        Ok(w) => w,
        Err(e) => {
            if std::env::var("C03_DEBUG").is_ok() {
                eprintln!("create failed: {}: {}", vname, e);
            }
            *res.hist.entry(format!("{}:create[none]:err", vname)).or_insert(0) += 1;
            return res;
        }
    };
    *res.hist.entry(format!("{}:create[none]:ok", vname)).or_insert(0) += 1;
    let mut mon = Mon::new(f);
    // the open-edition world has no drift bookkeeping: every whitelist of the case is created (and paid
    // for) right now, before the initial balance snapshot; stage times are absolute anyway
    let mut made: Vec<Option<Addr>> = vec![];
    for cop in &c.ops {
        if let COp::MakeWl(sp) = cop {
            let (msg, fee) = sp.msg(w.t0);
            let code_id = w.wl_code[wl_code_key(&sp.kind)];
            let r = crate::util::catch(|| {
                w.app.instantiate_contract(code_id, Addr::unchecked(CREATOR), &msg, &[cosmwasm_std::coin(fee, NATIVE)], "wl", None)
            });
            let a = match r {
                Ok(Ok(a)) => Some(a),
                _ => None,
            };
            *res.hist.entry(format!("{}[none]:make_whitelist:{}", vname, if a.is_some() { "ok" } else { "err" })).or_insert(0) += 1;
            if let Some(a) = &a {
                w.addrs.id(a.as_str());
                mon.specs.insert(a.to_string(), sp.clone());
                mon.kinds.insert(a.to_string(), sp.kind.clone());
                mon.ledgers.insert(a.to_string(), Ledger::from_spec(sp, w.t0));
                mon.readback(&w.app, a.as_str(), "instantiate");
            }
            made.push(a);
        }
    }
    let init = w.init_state_coq();
    let init_bal = w.balances_coq();
    let mut steps: Vec<String> = vec![];
    let mut spare: Option<Addr> = None;
    let mut made_i = 0usize;
    let accounts = w.count_accounts();
    let mut pending: Vec<COp> = c.ops.iter().rev().cloned().collect();
    let mut sellout_budget = c.num_tokens + 2;
    while let Some(cop_owned) = pending.pop() {
        let cop = &cop_owned;
        if let COp::SellOut = cop {
            if w.mintable().map_or(false, |m| m > 0) && sellout_budget > 0 {
                sellout_budget -= 1;
                pending.push(COp::SellOut);
                pending.push(COp::S(Op::MintTo { who: CREATOR.into(), recipient: BUYERS[1].into(), funds: native(OE_AIRDROP) }));
            }
            continue;
        }
        let kind_now: String = w.minter_config()["whitelist"].as_str().and_then(|a| mon.kinds.get(a).cloned()).unwrap_or("none".into());
        let hkey = |ok: bool| format!("{}[{}]:{}:{}", vname, kind_now, op_kind(cop), if ok { "ok" } else { "err" });
        let oe_op: Option<OeOp> = match cop {
            COp::MakeWl(_) => {
                spare = made.get(made_i).cloned().flatten();
                made_i += 1;
                continue;
            }
            COp::WlLimit { .. } | COp::WlCap { .. } | COp::WlAdd { .. } | COp::WlRemove { .. } | COp::WlAddStage { .. } | COp::WlRemoveStage { .. } | COp::WlUpdateStage { .. } | COp::WlIncreaseMemberLimit { .. } | COp::By { .. } => {
                if matches!(cop, COp::WlIncreaseMemberLimit { .. }) || matches!(cop, COp::By { op, .. } if matches!(op.as_ref(), COp::WlIncreaseMemberLimit { .. })) {
                    continue; // its fee would be a balance change this world does not track
                }
                let Some(a) = w.minter_config()["whitelist"].as_str().map(|s| s.to_string()) else { continue };
                let ok = do_wl_admin(&mut w.app, &mut mon, &a, cop);
                *res.hist.entry(hkey(ok)).or_insert(0) += 1;
                if mon.violations.len() > 5 {
                    break;
                }
                continue;
            }
            COp::Attach { .. } => None,
            COp::SellOut => unreachable!(),
            COp::E(op) => Some(op.clone()),
            COp::S(op) => match op {
                Op::At { secs, nanos } => Some(OeOp::At { secs: *secs, nanos: *nanos }),
                Op::Mint { who, funds } => Some(OeOp::MintM { who: who.clone(), funds: funds.clone(), stage: None, proof: None, allocation: None }),
                Op::MintM { who, funds, stage, proof, allocation } => {
                    Some(OeOp::MintM { who: who.clone(), funds: funds.clone(), stage: *stage, proof: proof.clone(), allocation: *allocation })
                }
                Op::MintTo { who, recipient, funds } => Some(OeOp::MintTo { who: who.clone(), recipient: recipient.clone(), funds: funds.clone() }),
                Op::Purge { who } => Some(OeOp::Purge { who: who.clone() }),
                Op::BurnRemaining { who } => Some(OeOp::BurnRemaining { who: who.clone() }),
                Op::UpdatePerAddressLimit { who, limit } => Some(OeOp::UpdatePerAddressLimit { who: who.clone(), limit: *limit }),
                Op::Migrate { who, stored } => Some(OeOp::Migrate { who: who.clone(), stored: stored.clone() }),
                _ => continue,
            },
        };
        let out = match (&oe_op, cop) {
            (None, COp::Attach { who }) => {
                let Some(a) = spare.clone() else { continue };
                attach_step_oe(&mut w, who, &a)
            }
            (Some(op), _) => {
                let pre = match op {
                    OeOp::MintM { who, .. } | OeOp::MintTo { who, .. } | OeOp::Purge { who } => {
                        Some((who.clone(), snapshot(&w.app, &w.minter_config(), w.mintable(), who)))
                    }
                    _ => None,
                };
                if let Some((_, p)) = &pre {
                    mon.consistent(p);
                }
                let out = w.run(op);
                if out.ok {
                    match (op, &pre) {
                        (OeOp::MintM { stage, proof, allocation, .. }, Some((who, p))) => {
                            res.ok_mints += 1;
                            let (st, pr, al) = if f.merkle { (*stage, proof.is_some(), *allocation) } else { (None, false, None) };
                            mon.mint_ok(who, p, st, pr, al, &format!("{:?}", op));
                        }
                        (OeOp::MintTo { .. }, Some((who, _))) => mon.airdrop_ok(who),
                        (OeOp::Purge { .. }, Some((_, p))) => mon.purge_ok(p),
                        _ => {}
                    }
                }
                out
            }
            _ => continue,
        };
        if !out.is_minter_step {
            continue;
        }
        res.steps += 1;
        if out.ok {
            res.ok_steps += 1;
        }
        *res.hist.entry(hkey(out.ok)).or_insert(0) += 1;
        if let Some(s) = out.coq {
            steps.push(s);
        }
        if let Some(e) = &out.err {
            dbg_err(vname, &kind_now, cop, e);
            if e.starts_with("STATE-CHANGED-ON-FAILURE") {
                mon.violations.push(("C03:failed-call-changed-state".into(), format!("{}: {:?}: {}", vname, cop, e)));
            }
        }
        let reported: Vec<(String, (u64, u64))> = accounts.iter().map(|a| (a.clone(), w.mint_count(a))).collect();
        mon.counts(&reported, &format!("{:?}", cop));
        if mon.violations.len() > 5 {
            break;
        }
    }
    res.violations = mon.violations;
    res.coq = Some(w.case_coq(&init, &init_bal, &steps));
    res
}

// ---------- builders ----------
fn native(a: u128) -> Vec<(String, u128)> {
    vec![(NATIVE.to_string(), a)]
}
fn at(secs: u64, nanos: i64) -> COp {
    COp::S(Op::At { secs, nanos })
}
fn mint(who: &str, amt: u128) -> COp {
    COp::S(Op::Mint { who: who.into(), funds: native(amt) })
}
fn mintm(who: &str, amt: u128, stage: Option<u32>, proof: Option<Vec<String>>, allocation: Option<u32>) -> COp {
    COp::S(Op::MintM { who: who.into(), funds: native(amt), stage, proof, allocation })
}
fn junk_proof(tiered: bool) -> Vec<String> {
    vec![if tiered { "ab".repeat(16) } else { "cd".repeat(32) }]
}

pub const KINDS: [&str; 6] = ["plain", "tiered", "flex", "tiered-flex", "merkle", "tiered-merkle"];
fn compatible(v: &Fam, kind: &str) -> bool {
    if v.flex {
        is_flex(kind)
    } else if v.merkle && v.oe {
        // a proof is mandatory on the open-edition Merkle minter
        is_merkle(kind)
    } else if v.merkle {
        !is_flex(kind)
    } else {
        kind == "plain" || kind == "tiered"
    }
}

/// one mint by `who` against `sp` (the attached whitelist) with honest arguments for stage index `i`
fn honest_mint(v: &Fam, sp: &WlSpec, i: usize, who: &str, amt: u128) -> COp {
    if !v.merkle {
        return mint(who, amt);
    }
    if !is_merkle(&sp.kind) {
        return mintm(who, amt, None, None, None);
    }
    let tiered = is_tiered(&sp.kind);
    let st = if tiered { Some(i as u32) } else { None };
    match sp.stages[i].alloc_of(who) {
        Some(al) => {
            let pr = sp.tree(i).proof(&leaf(st, who, al));
            mintm(who, amt, st, pr, al)
        }
        // not a member: tries with somebody else's proof and own name
        None => match sp.stages[i].members.first().cloned() {
            Some((o, _)) => {
                let al = sp.stages[i].alloc_of(&o).unwrap();
                mintm(who, amt, st, sp.tree(i).proof(&leaf(st, &o, al)), al)
            }
            None => mintm(who, amt, st, Some(vec![]), Some(1)),
        },
    }
}

/// numbers to declare as `allocation`: every integer literal of the minter / whitelist sources (and its
/// neighbours) that fits u32, plus the extremes
fn alloc_pool() -> &'static Vec<u32> {
    static POOL: std::sync::OnceLock<Vec<u32>> = std::sync::OnceLock::new();
    POOL.get_or_init(|| {
        let lits = harvest_literals(&[
            "contracts/minters/vending-minter-merkle-wl/src/contract.rs",
            "contracts/minters/vending-minter-merkle-wl-featured/src/contract.rs",
            "contracts/minters/open-edition-minter-merkle-wl/src/contract.rs",
            "contracts/whitelists/whitelist/src/contract.rs",
            "contracts/whitelists/whitelist-merkletree/src/contract.rs",
            "contracts/whitelists/tiered-whitelist-merkletree/src/contract.rs",
        ]);
        let mut v: BTreeSet<u32> = [0u32, 1, 2, 3, 4, 5, 9, u32::MAX - 1, u32::MAX].into_iter().collect();
        for l in lits {
            for d in [-1i128, 0, 1] {
                let x = l as i128 + d;
                if x >= 0 && x <= u32::MAX as i128 {
                    v.insert(x as u32);
                }
            }
        }
        v.into_iter().collect()
    })
}

/// adversarial argument menus for a Merkle-variant minter
fn adversarial_mint(rng: &mut Rng, sp: &WlSpec, i: usize, who: &str, amt: u128) -> COp {
    let tiered = is_tiered(&sp.kind);
    let st = if tiered { Some(i as u32) } else { None };
    let me: Option<u32> = sp.stages[i].alloc_of(who).flatten(); // own allocation, if the leaf binds one
    let al_of = |st: &StageSpec, a: &str| st.alloc_of(a).flatten();
    if !is_merkle(&sp.kind) {
        return match rng.below(5) {
            0 => mintm(who, amt, None, None, Some(5)),
            4 => mintm(who, amt, Some(u32::MAX), None, Some(*rng.pick(alloc_pool()))),
            1 => mintm(who, amt, Some(rng.below(3) as u32), None, Some(rng.range(2, 30) as u32)),
            2 => mintm(who, amt, None, Some(junk_proof(false)), Some(5)),
            _ => mintm(who, amt, Some(1), Some(vec![]), Some(7)),
        };
    }
    let tree = sp.tree(i);
    match rng.below(7) {
        // no proof, declared allocation
        0 => mintm(who, amt, st, None, Some(5)),
        // own proof, larger allocation
        1 => {
            let al = me;
            mintm(who, amt, st, tree.proof(&leaf(st, who, al)), Some(me.unwrap_or(0).saturating_add(1 + rng.below(3) as u32)))
        }
        // proof of another member (their leaf, their allocation)
        2 => {
            let o = sp.stages[i].members.iter().find(|m| m.0 != who).cloned();
            match o {
                Some((o, _)) => {
                    let oa = al_of(&sp.stages[i], &o);
                    mintm(who, amt, st, tree.proof(&leaf(st, &o, oa)), oa)
                }
                None => mintm(who, amt, st, Some(vec![]), Some(3)),
            }
        }
        // stage of another tree (proof and leaf of stage j != i)
        3 if tiered && sp.stages.len() > 1 => {
            let j = (i + 1 + rng.below(sp.stages.len() as u64 - 1) as usize) % sp.stages.len();
            let n = al_of(&sp.stages[j], who).or(Some(3));
            mintm(who, amt, Some(j as u32), sp.tree(j).proof(&leaf(Some(j as u32), who, n)).or(Some(vec![])), n)
        }
        // own proof, stage argument changed / dropped
        4 => {
            let al = me;
            mintm(who, amt, if tiered { None } else { Some(0) }, tree.proof(&leaf(st, who, al)), al)
        }
        // empty / junk / malformed proof with a big allocation
        5 => mintm(
            who,
            amt,
            st,
            Some(match rng.below(3) {
                0 => vec![],
                1 => junk_proof(tiered),
                _ => vec!["zz-not-hex".to_string()],
            }),
            Some(*rng.pick(alloc_pool())),
        ),
        // own proof, allocation dropped
        _ => {
            let al = me;
            mintm(who, amt, st, tree.proof(&leaf(st, who, al)), None)
        }
    }
}

pub struct Plan {
    pub variant: usize,
    pub kind: &'static str, // "none" = no whitelist
    pub nstages: usize,
    pub limits: [u32; 3],
    pub caps: [Option<u32>; 3],
    pub counts: [[u32; 3]; 3], // per stage, per buyer: flex count / allocation (0 = not a member)
    pub pal: u32,
    pub num_tokens: u32,
    pub use_init: bool,
    pub swap: bool,
    pub contiguous: bool,
    pub noise: bool,
    pub second_wl: bool,
    pub sell_out: bool,
    pub end_in: Option<u64>,
    pub unlimited: bool,
}

const WL_PRICE: u128 = 60;
const PUB_PRICE: u128 = 100;
const START: u64 = 3000;

const ALLOC_ZERO: u32 = 7;
const ALLOC_MAX: u32 = 8;

fn plan_spec(p: &Plan, base: u64) -> WlSpec {
    let tiered = is_tiered(p.kind);
    let n = if tiered { p.nstages } else { 1 };
    let mut stages = vec![];
    for i in 0..n {
        let start = base + 400 * i as u64;
        let end = if p.contiguous && i + 1 < n { start + 400 } else { start + 300 };
        let mut members = vec![];
        let mut noalloc = vec![];
        for b in 0..3 {
            let cnt = p.counts[i][b];
            if cnt > 0 {
                // counts 7 / 8 stand for the boundary allocations 0 / u32::MAX on the Merkle kinds
                let nn = match (is_merkle(p.kind), cnt) {
                    (true, ALLOC_ZERO) => 0,
                    (true, ALLOC_MAX) => u32::MAX,
                    (false, ALLOC_ZERO) => 1,
                    (false, ALLOC_MAX) => 3,
                    (_, c) => c,
                };
                // a leaf without allocation: buyer 2 when its count is 3
                if is_merkle(p.kind) && b == 1 && cnt == 3 {
                    noalloc.push(BUYERS[b].to_string());
                }
                members.push((BUYERS[b].to_string(), nn));
            }
        }
        stages.push(StageSpec { start, end, limit: p.limits[i], cap: if tiered { p.caps[i] } else { None }, members, noalloc });
    }
    WlSpec { kind: p.kind.to_string(), price: WL_PRICE, ibc: false, lists_delta: 0, admin: None, stages }
}

/// the entitlement the generator expects for buyer b in stage i (only to size the bursts)
fn expected_ent(p: &Plan, sp: &WlSpec, i: usize, b: usize) -> u32 {
    match sp.stages[i].members.iter().find(|m| m.0 == BUYERS[b]) {
        None => 0,
        Some((a, n)) => {
            if is_flex(&sp.kind) || (is_merkle(&sp.kind) && !sp.stages[i].noalloc.contains(a)) {
                *n
            } else {
                p.limits[i]
            }
        }
    }
}

fn burst(rng: &mut Rng, p: &Plan, v: &Fam, sp: &WlSpec, i: usize, ops: &mut Vec<COp>, full: bool) {
    // buyer order rotates; the first buyer always tries entitlement + 1 (the boundary), the others fewer unless `full`
    let order: Vec<usize> = {
        let r = rng.below(3) as usize;
        vec![r, (r + 1) % 3, (r + 2) % 3]
    };
    let mut queue: Vec<usize> = vec![];
    for (k, b) in order.iter().enumerate() {
        let ent = expected_ent(p, sp, i, *b);
        let tries = if k == 0 || full { ent.saturating_add(1) } else { rng.range(1, (ent.max(1)) as u64) as u32 };
        for _ in 0..tries.min(4) {
            queue.push(*b);
        }
    }
    // interleave (in the probes the first buyer runs into its own limit before a stage cap can bind)
    let keep = if p.noise { 0 } else { expected_ent(p, sp, i, order[0]).saturating_add(1).min(4) as usize };
    for k in (keep + 1..queue.len()).rev() {
        let j = keep + rng.below((k - keep) as u64 + 1) as usize;
        queue.swap(k, j);
    }
    for b in queue {
        let who = BUYERS[b];
        let amt = if p.noise && rng.chance(1, 12) { WL_PRICE + 1 } else { WL_PRICE };
        if v.merkle && rng.chance(if p.noise { 2 } else { 1 }, 5) {
            ops.push(adversarial_mint(rng, sp, i, who, amt));
        }
        ops.push(honest_mint(v, sp, i, who, amt));
    }
    if !p.noise || rng.chance(1, 2) {
        ops.push(honest_mint(v, sp, i, STRANGER, WL_PRICE));
    }
}

fn history(rng: &mut Rng, p: &Plan, tag: &str) -> Case {
    let v = fam(p.variant);
    let mut ops: Vec<COp> = vec![];
    let mut init_wl = None;
    let mut cur: Option<WlSpec> = None;
    if p.kind != "none" {
        let sp = plan_spec(p, 1000);
        if p.use_init && !is_merkle(p.kind) && !v.oe {
            // the sale world's helper: one limit / cap / member list for all stages
            let n = if is_tiered(p.kind) { p.nstages } else { 1 };
            let windows: Vec<(u64, u64)> = (0..n).map(|i| (1000 + 400 * i as u64, 1300 + 400 * i as u64)).collect();
            let members: Vec<String> = (0..3).filter(|b| p.counts[0][*b] > 0).map(|b| BUYERS[b].to_string()).collect();
            init_wl = Some(InitWl { kind: p.kind.into(), windows: windows.clone(), limit: p.limits[0], cap: p.caps[0], flex_count: p.limits[0], members: members.clone(), price: WL_PRICE });
            // what that helper builds, as a spec (for sizing the bursts and honest arguments)
            let stages = windows
                .iter()
                .map(|(s, e)| StageSpec { start: *s, end: *e, limit: p.limits[0], cap: p.caps[0], members: members.iter().map(|m| (m.clone(), p.limits[0])).collect(), noalloc: vec![] })
                .collect();
            cur = Some(WlSpec { kind: p.kind.into(), price: WL_PRICE, ibc: false, lists_delta: 0, admin: None, stages });
        }
        if cur.is_none() || p.swap {
            if p.swap && cur.is_none() {
                // a first whitelist that is swapped out again before it starts
                let mut first = sp.clone();
                for s in first.stages.iter_mut() {
                    s.limit = 3;
                    for m in s.members.iter_mut() {
                        m.1 = 3;
                    }
                }
                ops.push(COp::MakeWl(first));
                ops.push(COp::Attach { who: CREATOR.into() });
            }
            ops.push(at(10, 0));
            ops.push(COp::MakeWl(sp.clone()));
            if p.noise && rng.chance(1, 3) {
                ops.push(COp::Attach { who: STRANGER.into() });
            }
            ops.push(COp::Attach { who: CREATOR.into() });
            cur = Some(sp);
        }
    }
    // a mint before anything is open
    ops.push(at(500, 0));
    ops.push(mint(BUYERS[0], PUB_PRICE));
    if let Some(sp) = cur.clone() {
        let pp = Plan { limits: if p.use_init && !is_merkle(p.kind) && !v.oe { [p.limits[0]; 3] } else { p.limits }, ..clone_plan(p) };
        let n = sp.stages.len();
        for i in 0..n {
            let st = &sp.stages[i];
            ops.push(at(st.start, -1));
            ops.push(honest_mint(&v, &sp, i, BUYERS[0], WL_PRICE));
            ops.push(at(st.start, 0));
            if i > 0 && sp.stages[i - 1].end == st.start {
                // the shared instant of two touching stages: the EARLIER stage is still the active one; members of
                // either stage try with either stage's arguments, then the new stage starts one nanosecond later
                for b in BUYERS {
                    ops.push(honest_mint(&v, &sp, i - 1, b, WL_PRICE));
                    if is_merkle(&sp.kind) {
                        ops.push(honest_mint(&v, &sp, i, b, WL_PRICE));
                    }
                }
                ops.push(at(st.start, 1));
            }
            burst(rng, &pp, &v, &sp, i, &mut ops, !p.noise);
            if p.noise && rng.chance(1, 2) {
                // whitelist-side limit changes mid-stage, then another round
                match rng.below(6) {
                    // a stage update that only renames / re-sends the end: cap and per-address limit stay
                    4 => ops.push(COp::WlUpdateStage { stage: i as u32, name: Some("noise".into()), start: None, end: None, price: None, limit: None, cap: None }),
                    5 => ops.push(COp::WlUpdateStage { stage: i as u32, name: None, start: None, end: Some(st.end), price: if rng.chance(1, 2) { Some(WL_PRICE) } else { None }, limit: None, cap: None }),
                    0 => ops.push(COp::WlLimit { stage: i as u32, limit: rng.range(1, 3) as u32 }),
                    1 => ops.push(COp::WlCap { stage: i as u32, cap: if rng.chance(1, 4) { None } else { Some(rng.range(1, 6) as u32) } }),
                    2 => ops.push(COp::WlAdd { stage: i as u32, who: (*rng.pick(&[BUYERS[2], STRANGER, BUYERS[0]])).into(), count: rng.range(1, 3) as u32 }),
                    _ => ops.push(COp::WlRemove { stage: i as u32, who: (*rng.pick(&BUYERS)).into() }),
                }
                if rng.chance(1, 3) {
                    // ... or somebody who is not the admin tries the same
                    let last = ops.pop().unwrap();
                    ops.push(by(*rng.pick(&[BUYERS[0], BUYERS[1], BUYERS[2], STRANGER]), last));
                }
                ops.push(at(st.start + 50, rng.below(1000) as i64));
                burst(rng, &pp, &v, &sp, i, &mut ops, false);
            }
            if p.noise && rng.chance(1, 3) {
                ops.push(COp::S(Op::UpdatePerAddressLimit { who: CREATOR.into(), limit: rng.range(1, 3) as u32 }));
            }
            ops.push(at(st.end, -1));
            ops.push(honest_mint(&v, &sp, i, *rng.pick(&BUYERS), WL_PRICE));
            ops.push(at(st.end, 0));
            ops.push(honest_mint(&v, &sp, i, *rng.pick(&BUYERS), WL_PRICE));
        }
        if p.second_wl {
            // whitelist over, sale not started: swap in a second whitelist with its own window
            let last = sp.stages[n - 1].end;
            ops.push(at(last + 20, 0));
            let k2 = *rng.pick(&KINDS.iter().filter(|k| compatible(&v, k)).cloned().collect::<Vec<_>>());
            let p2 = Plan { kind: k2, nstages: 1, contiguous: false, ..clone_plan(p) };
            let mut sp2 = plan_spec(&p2, last + 100);
            sp2.stages[0].end = sp2.stages[0].start + 200;
            ops.push(COp::MakeWl(sp2.clone()));
            ops.push(COp::Attach { who: CREATOR.into() });
            ops.push(at(sp2.stages[0].start, 0));
            burst(rng, &p2, &v, &sp2, 0, &mut ops, false);
            ops.push(at(sp2.stages[0].end, 0));
            ops.push(honest_mint(&v, &sp2, 0, BUYERS[0], WL_PRICE));
        }
    }
    // ---- public phase ----
    let pm = |who: &str, amt: u128| if v.merkle { mintm(who, amt, None, None, None) } else { mint(who, amt) };
    ops.push(at(START, -1));
    ops.push(pm(BUYERS[1], PUB_PRICE));
    ops.push(at(START, 0));
    let mut pal = p.pal;
    for round in 0..2 {
        let r = rng.below(3) as usize;
        for k in 0..3 {
            let b = (r + k) % 3;
            let tries = if k == 0 || !p.noise { pal + 1 } else { rng.range(1, pal as u64 + 1) as u32 };
            for _ in 0..tries.min(4) {
                if v.merkle && rng.chance(1, 4) {
                    ops.push(mintm(BUYERS[b], PUB_PRICE, Some(0), None, Some(9)));
                } else {
                    ops.push(pm(BUYERS[b], if p.noise && rng.chance(1, 15) { PUB_PRICE - 1 } else { PUB_PRICE }));
                }
            }
        }
        if round == 0 {
            // limit update mid-history (by a stranger first, must fail), then the next round against the new limit
            ops.push(COp::S(Op::UpdatePerAddressLimit { who: STRANGER.into(), limit: 3 }));
            let newpal = if p.noise { rng.range(1, 4) as u32 } else { (pal % 3) + 1 };
            ops.push(COp::S(Op::UpdatePerAddressLimit { who: CREATOR.into(), limit: newpal }));
            if newpal <= 3 || v.flex || v.oe {
                pal = newpal;
            }
            ops.push(at(START + 100, 7));
        }
    }
    // admin mints count for the admin and are not limited
    let air = || if v.oe { native(OE_AIRDROP) } else { vec![] };
    for _ in 0..(p.pal + 1) {
        ops.push(COp::S(Op::MintTo { who: CREATOR.into(), recipient: BUYERS[0].into(), funds: air() }));
    }
    if !v.oe {
        ops.push(COp::S(Op::MintFor { who: CREATOR.into(), token_id: p.num_tokens, recipient: BUYERS[2].into(), funds: vec![] }));
    }
    ops.push(pm(CREATOR, PUB_PRICE));
    ops.push(COp::S(Op::MintTo { who: STRANGER.into(), recipient: STRANGER.into(), funds: air() }));
    // purge while the sale is on must fail and change nothing
    ops.push(COp::S(Op::Purge { who: STRANGER.into() }));
    ops.push(pm(BUYERS[0], PUB_PRICE));
    if p.sell_out && !p.unlimited {
        ops.push(COp::SellOut);
        ops.push(COp::S(Op::Purge { who: STRANGER.into() }));
        ops.push(pm(BUYERS[0], PUB_PRICE));
        ops.push(COp::S(Op::MintTo { who: CREATOR.into(), recipient: BUYERS[1].into(), funds: air() }));
    }
    if let Some(end) = p.end_in {
        // open edition: the end time, one nanosecond around it; a purge only after it; nothing mints afterwards
        if p.noise && rng.chance(1, 3) {
            ops.push(COp::E(OeOp::UpdateEndTime { who: CREATOR.into(), secs: end, nanos: 0 }));
        }
        ops.push(at(end, -1));
        ops.push(pm(BUYERS[2], PUB_PRICE));
        ops.push(COp::S(Op::Purge { who: STRANGER.into() }));
        ops.push(at(end, 0));
        ops.push(pm(BUYERS[2], PUB_PRICE));
        ops.push(COp::S(Op::Purge { who: STRANGER.into() }));
        ops.push(at(end, 1));
        ops.push(COp::S(Op::Purge { who: STRANGER.into() }));
        ops.push(pm(BUYERS[2], PUB_PRICE));
        ops.push(COp::S(Op::MintTo { who: CREATOR.into(), recipient: BUYERS[1].into(), funds: air() }));
        ops.push(COp::E(OeOp::UpdateEndTime { who: CREATOR.into(), secs: end + 500, nanos: 0 }));
        ops.push(pm(BUYERS[1], PUB_PRICE));
    }
    // migrations of the minter at random places (~3 % of the operations), also inside the boundary
    // probes: a counter lost by a migration lets the "+1" attempt through
    {
        let pool = migrate_version_pool();
        let mut i = 0;
        while i <= ops.len() {
            if rng.below(1000) < 30 {
                let (who, stored) = gen_migrate_args(rng, &pool);
                ops.insert(i, COp::S(Op::Migrate { who, stored }));
                i += 1;
            }
            i += 1;
        }
    }
    Case { tag: tag.into(), variant: p.variant, num_tokens: p.num_tokens, pal: p.pal, price: PUB_PRICE, start_in: START, init_wl, end_in: p.end_in, unlimited: p.unlimited, ops }
}

impl Plan {
    /// open edition: either a token count or an end time (or both); sometimes no count at all
    fn fix_oe(mut self, rng: &mut Rng) -> Plan {
        if self.variant >= 6 {
            if self.end_in.is_some() && rng.chance(1, 3) {
                self.unlimited = true;
            }
            self.use_init = false;
        }
        self
    }
}

fn clone_plan(p: &Plan) -> Plan {
    Plan { variant: p.variant, kind: p.kind, nstages: p.nstages, limits: p.limits, caps: p.caps, counts: p.counts, pal: p.pal, num_tokens: p.num_tokens, use_init: p.use_init, swap: p.swap, contiguous: p.contiguous, noise: p.noise, second_wl: p.second_wl, sell_out: p.sell_out, end_in: p.end_in, unlimited: p.unlimited }
}

fn random_plan(rng: &mut Rng, variant: usize, kind: &'static str) -> Plan {
    let mut counts = [[0u32; 3]; 3];
    for i in 0..3 {
        for b in 0..3 {
            counts[i][b] = if rng.chance(1, 6) {
                0
            } else if is_merkle(kind) && rng.chance(1, 4) {
                *rng.pick(&[ALLOC_ZERO, ALLOC_ZERO, ALLOC_MAX])
            } else {
                rng.range(1, 3) as u32
            };
        }
    }
    let mut caps = [None; 3];
    for c in caps.iter_mut() {
        *c = if rng.chance(1, 3) { None } else { Some(rng.range(1, 5) as u32) };
    }
    Plan {
        variant,
        kind,
        nstages: rng.range(1, 3) as usize,
        limits: [rng.range(1, 3) as u32, rng.range(1, 3) as u32, rng.range(1, 3) as u32],
        caps,
        counts,
        pal: rng.range(1, 3) as u32,
        num_tokens: rng.range(24, 40) as u32,
        use_init: rng.chance(1, 4),
        swap: rng.chance(1, 4),
        contiguous: rng.chance(1, 2),
        noise: true,
        second_wl: rng.chance(1, 5),
        sell_out: rng.chance(1, 3),
        end_in: if variant >= 6 && rng.chance(3, 4) { Some(6000) } else { None },
        unlimited: false,
    }
    .fix_oe(rng)
}

/// the guard-boundary probes: every variant x every compatible kind, entitlement + 1 attempts by a
/// member in every stage, stage caps reached by several buyers, per-address limit + 1 public mints
fn probe_plans() -> Vec<(String, Plan)> {
    let mut v = vec![];
    for variant in 0..9 {
        let var = fam(variant);
        let mut k = 0u32;
        for kind in ["none", "plain", "tiered", "flex", "tiered-flex", "merkle", "tiered-merkle"] {
            if kind != "none" && !compatible(&var, kind) {
                continue;
            }
            k += 1;
            let l = 1 + (variant as u32 + k) % 3;
            let tiered = is_tiered(kind);
            // stage limits differ; caps: stage 0 binds before the per-address limits do (cap < members * limit),
            // stage 1 has no cap, stage 2 cap equals one buyer's entitlement
            let limits = [l, 1 + l % 3, 1 + (l + 1) % 3];
            let caps = if tiered { [Some(limits[0] + 1), Some(limits[1] + 1), Some(limits[2])] } else { [None; 3] };
            // flex counts / Merkle allocations: three different figures per stage (none equal to all limits)
            let cn = |x: u32| [x, x % 3 + 1, (x + 1) % 3 + 1];
            let mut counts = [cn(limits[0]), cn(limits[1]), cn(limits[2])];
            if is_merkle(kind) {
                counts[0][2] = ALLOC_ZERO;
                counts[1][2] = ALLOC_MAX;
                counts[2][1] = ALLOC_ZERO;
            }
            v.push((
                format!("probe:{}:{}", var.name, kind),
                Plan {
                    variant,
                    kind,
                    nstages: if tiered { 3 } else { 1 },
                    limits,
                    caps,
                    counts,
                    pal: if var.flex { 3 } else { 1 + (variant as u32 + k + 1) % 3 },
                    num_tokens: 30,
                    use_init: false,
                    swap: k % 2 == 0,
                    contiguous: variant % 2 == 0,
                    noise: false,
                    second_wl: false,
                    sell_out: k == 1,
                    end_in: if variant >= 6 && k != 1 { Some(6000) } else { None },
                    unlimited: variant >= 6 && k == 3,
                },
            ));
        }
    }
    v
}

/// curated minimal histories (always first)
fn corpus() -> Vec<Case> {
    let mut v = vec![];
    // --- a migration of the minter between reaching a limit and the next attempt ---
    for variant in 0..9usize {
        let var = fam(variant);
        let mig = |who: &str, stored: Option<(&str, &str)>| COp::S(Op::Migrate { who: who.into(), stored: stored.map(|(a, b)| (a.to_string(), b.to_string())) });
        // public sale, per-address limit 2
        v.push(Case {
            tag: format!("corpus:migrate-at-public-limit:{}", var.name),
            variant,
            num_tokens: 10,
            pal: 2,
            price: PUB_PRICE,
            start_in: START,
            end_in: if variant >= 6 { Some(6000) } else { None },
            unlimited: false,
            init_wl: None,
            ops: vec![
                mig(CREATOR, Some(("@own", "3.8.9"))),
                at(START, 0),
                mint("buyer1", PUB_PRICE),
                mint("buyer1", PUB_PRICE),
                mint("buyer1", PUB_PRICE),                      // at the limit: refused
                mig(CREATOR, Some(("@own", "3.8.9"))),
                mint("buyer1", PUB_PRICE),                      // still refused
                mig(CREATOR, None),
                mig(STRANGER, Some(("@own", "3.0.0"))),
                mint("buyer1", PUB_PRICE),
                mint("buyer2", PUB_PRICE),
                mig(CREATOR, Some(("@own", "3.9.0"))),
                mint("buyer2", PUB_PRICE),
                mint("buyer2", PUB_PRICE),                      // refused
                mig(CREATOR, Some(("@own", "99.0.0"))),
                mig(CREATOR, Some(("crates.io:something-else", "3.0.0"))),
                mint("buyer2", PUB_PRICE),
            ],
        });
        // whitelist phase, entitlement 1 (flex: the member's own count 1), then the public phase
        if !var.merkle || !var.oe {
            let kind = if var.flex { "flex" } else { "plain" };
            v.push(Case {
                tag: format!("corpus:migrate-at-whitelist-limit:{}", var.name),
                variant,
                num_tokens: 10,
                pal: 1,
                price: PUB_PRICE,
                start_in: START,
                end_in: if variant >= 6 { Some(6000) } else { None },
                unlimited: false,
                init_wl: Some(InitWl { kind: kind.into(), windows: vec![(1000, 2000)], limit: 1, cap: None, flex_count: 1, members: vec!["buyer1".into(), "buyer2".into()], price: WL_PRICE }),
                ops: vec![
                    at(1000, 0),
                    mint("buyer1", WL_PRICE),
                    mint("buyer1", WL_PRICE),                   // entitlement used: refused
                    mig(CREATOR, Some(("@own", "3.8.9"))),
                    mint("buyer1", WL_PRICE),                   // still refused
                    mint("buyer2", WL_PRICE),
                    mig(CREATOR, Some(("@own", "3.10.0"))),
                    mint("buyer2", WL_PRICE),                   // refused
                    at(START, 0),
                    mint("buyer1", PUB_PRICE),
                    mig(CREATOR, Some(("@own", "2.0.0"))),
                    mint("buyer1", PUB_PRICE),                  // per-address limit 1: refused (flex: counted separately)
                    mint("buyer3", PUB_PRICE),
                    mint("buyer3", PUB_PRICE),
                ],
            });
        }
    }
    // --- the repaired defect C03:merkle-unproven-allocation, both Merkle variants ---
    for variant in [4usize, 5, 8] {
        // plain whitelist, per_address_limit 1: Mint{proof_hashes: None, allocation: Some(5)} four times => exactly one
        if variant < 6 {
        v.push(Case {
            tag: "corpus:unproven-allocation:plain-whitelist".into(),
            variant,
            num_tokens: 10,
            pal: 3,
            price: PUB_PRICE,
            start_in: START,
            end_in: None,
            unlimited: false,
            init_wl: Some(InitWl { kind: "plain".into(), windows: vec![(1000, 2000)], limit: 1, cap: None, flex_count: 1, members: vec!["buyer1".into(), "buyer2".into()], price: WL_PRICE }),
            ops: vec![
                at(1000, 0),
                mintm("buyer1", WL_PRICE, None, None, Some(5)),
                mintm("buyer1", WL_PRICE, None, None, Some(5)),
                mintm("buyer1", WL_PRICE, None, None, Some(5)),
                mintm("buyer1", WL_PRICE, None, None, Some(5)),
                mintm("buyer2", WL_PRICE, Some(2), Some(junk_proof(false)), Some(5)),
                mintm("buyer2", WL_PRICE, Some(2), Some(vec![]), Some(5)),
                mintm("buyer3", WL_PRICE, None, None, Some(5)),
            ],
        });
        }
        // Merkle whitelist, leaf (buyer1, 1): a proof for allocation 1 presented with allocation 5, four times; then
        // no proof at all; then honestly: exactly one
        let sp = WlSpec {
            kind: "merkle".into(),
            price: WL_PRICE,
            ibc: false, lists_delta: 0, admin: None,
            stages: vec![StageSpec { start: 1000, end: 2000, limit: 1, cap: None, members: vec![("buyer1".into(), 1), ("buyer2".into(), 2), ("stranger".into(), 0)], noalloc: vec!["stranger".into()] }],
        };
        let t = sp.tree(0);
        let p1 = t.proof(&leaf(None, "buyer1", Some(1)));
        let p2 = t.proof(&leaf(None, "buyer2", Some(2)));
        let ps = t.proof(&leaf(None, "stranger", None));
        v.push(Case {
            tag: "corpus:unproven-allocation:merkle-whitelist".into(),
            variant,
            num_tokens: 12,
            pal: 3,
            price: PUB_PRICE,
            start_in: START,
            end_in: if variant >= 6 { Some(6000) } else { None },
            unlimited: false,
            init_wl: None,
            ops: vec![
                COp::MakeWl(sp.clone()),
                COp::Attach { who: CREATOR.into() },
                at(1000, 0),
                mintm("buyer1", WL_PRICE, None, p1.clone(), Some(5)),
                mintm("buyer1", WL_PRICE, None, p1.clone(), Some(5)),
                mintm("buyer1", WL_PRICE, None, p1.clone(), Some(5)),
                mintm("buyer1", WL_PRICE, None, p1.clone(), Some(5)),
                mintm("buyer1", WL_PRICE, None, None, Some(5)),
                mintm("buyer1", WL_PRICE, None, None, None),
                mintm("buyer1", WL_PRICE, None, p1.clone(), Some(1)),
                mintm("buyer1", WL_PRICE, None, p1.clone(), Some(1)),
                // buyer2 holds allocation 2 (above the Config limit 1): two mints, not three
                mintm("buyer2", WL_PRICE, None, p2.clone(), Some(2)),
                mintm("buyer2", WL_PRICE, None, p2.clone(), Some(2)),
                mintm("buyer2", WL_PRICE, None, p2.clone(), Some(2)),
                // buyer3 with buyer2's proof; buyer2 with buyer1's proof and a bigger number
                mintm("buyer3", WL_PRICE, None, p2.clone(), Some(2)),
                mintm("buyer2", WL_PRICE, None, p1.clone(), Some(3)),
                // a leaf without allocation: the Config limit (1) applies
                mintm("stranger", WL_PRICE, None, ps.clone(), None),
                mintm("stranger", WL_PRICE, None, ps.clone(), None),
                mintm("stranger", WL_PRICE, None, ps.clone(), Some(4)),
            ],
        });
    }
    // --- boundary allocations proven by the tree: 0, 1, limit-1, limit, limit+1, well above, u32::MAX, and a leaf
    //     without allocation, on all three Merkle minters and both Merkle whitelist kinds; every member mints up
    //     to and past its allocation (allocation 0 => no whitelist mint at all; above the Config limit => that
    //     many); on the tiered kind the stage argument takes Some(0), Some(active), Some(other), None ---
    for variant in [4usize, 5, 8] {
        let var = fam(variant);
        let l = 3u32; // the whitelist's per_address_limit
        let end_in = if variant >= 6 { Some(6000) } else { None };
        let mk_case = |tag: &str, sp: &WlSpec, ops: Vec<COp>| Case {
            tag: format!("corpus:boundary-allocations:{}", tag),
            variant,
            num_tokens: 40,
            pal: 2,
            price: PUB_PRICE,
            start_in: START,
            end_in,
            unlimited: false,
            init_wl: None,
            ops: {
                let mut o = vec![COp::MakeWl(sp.clone()), COp::Attach { who: CREATOR.into() }];
                o.extend(ops);
                o
            },
        };
        // flat Merkle whitelist, two trees
        let flat = |members: Vec<(&str, u32)>, noalloc: Vec<&str>| WlSpec {
            kind: "merkle".into(),
            price: WL_PRICE,
            ibc: false, lists_delta: 0, admin: None,
            stages: vec![StageSpec {
                start: 1000,
                end: 2000,
                limit: l,
                cap: None,
                members: members.into_iter().map(|(a, n)| (a.to_string(), n)).collect(),
                noalloc: noalloc.into_iter().map(|a| a.to_string()).collect(),
            }],
        };
        let spa = flat(vec![("buyer1", 0), ("buyer2", 1), ("buyer3", l - 1), ("stranger", l), ("creator", l + 1)], vec![]);
        let spb = flat(vec![("buyer1", 2 * l + 1), ("buyer2", u32::MAX), ("buyer3", 0), ("stranger", 5)], vec!["stranger"]);
        for (tag, sp) in [("flat-a", &spa), ("flat-b", &spb)] {
            let mut ops = vec![at(1000, 0)];
            for (who, n) in sp.stages[0].members.clone() {
                let ent = match sp.stages[0].alloc_of(&who).unwrap() {
                    Some(a) => a,
                    None => l,
                };
                // honest calls up to and past the entitlement
                for _ in 0..ent.saturating_add(2).min(9) {
                    ops.push(honest_mint(&var, sp, 0, &who, WL_PRICE));
                }
                // the same proof with the allocation dropped / nudged, and a stage argument the flat tree does not bind
                let al = sp.stages[0].alloc_of(&who).unwrap();
                let pr = sp.tree(0).proof(&leaf(None, &who, al));
                ops.push(mintm(&who, WL_PRICE, None, pr.clone(), None));
                ops.push(mintm(&who, WL_PRICE, None, pr.clone(), Some(n.wrapping_add(1))));
                ops.push(mintm(&who, WL_PRICE, Some(0), pr.clone(), al));
                ops.push(mintm(&who, WL_PRICE, None, None, al));
            }
            v.push(mk_case(tag, sp, ops));
        }
        // tiered Merkle whitelist: the leaf binds the stage label (0-based index here)
        let tst = |s: u64, e: u64, members: Vec<(&str, u32)>, noalloc: Vec<&str>| StageSpec {
            start: s,
            end: e,
            limit: l,
            cap: None,
            members: members.into_iter().map(|(a, n)| (a.to_string(), n)).collect(),
            noalloc: noalloc.into_iter().map(|a| a.to_string()).collect(),
        };
        let spt = WlSpec {
            kind: "tiered-merkle".into(),
            price: WL_PRICE,
            ibc: false, lists_delta: 0, admin: None,
            stages: vec![
                tst(1000, 1300, vec![("buyer1", 0), ("buyer2", 1), ("buyer3", l + 1), ("stranger", 2)], vec!["stranger"]),
                tst(1300, 1600, vec![("buyer1", l), ("buyer2", 0), ("buyer3", u32::MAX), ("stranger", l - 1)], vec![]),
                tst(1700, 2000, vec![("buyer1", 2 * l), ("buyer2", 2), ("buyer3", 0)], vec!["buyer2"]),
            ],
        };
        let mut ops = vec![];
        for i in 0..3usize {
            ops.push(at(spt.stages[i].start, 0));
            for (who, _) in spt.stages[i].members.clone() {
                let al = spt.stages[i].alloc_of(&who).unwrap();
                let ent = al.unwrap_or(l);
                for _ in 0..ent.saturating_add(2).min(8) {
                    ops.push(honest_mint(&var, &spt, i, &who, WL_PRICE));
                }
                // stage argument: None, Some(0), Some(other) with the proof of the active stage's leaf ...
                let pr = spt.tree(i).proof(&leaf(Some(i as u32), &who, al));
                for st in [None, Some(0u32), Some((i as u32 + 1) % 3), Some(i as u32 + 1)] {
                    if st != Some(i as u32) {
                        ops.push(mintm(&who, WL_PRICE, st, pr.clone(), al));
                    }
                }
                // ... and the leaf + proof + stage label of another stage's tree (a bigger allocation there)
                let j = (i + 1) % 3;
                if let Some(alj) = spt.stages[j].alloc_of(&who) {
                    ops.push(mintm(&who, WL_PRICE, Some(j as u32), spt.tree(j).proof(&leaf(Some(j as u32), &who, alj)), alj));
                }
            }
        }
        v.push(mk_case("tiered", &spt, ops));
    }
    // --- tiered hand-over with the counters per stage, plain and Merkle minters ---
    for variant in 0..6usize {
        let var = fam(variant);
        let kind = if var.flex { "tiered-flex" } else { "tiered" };
        let sp = WlSpec {
            kind: kind.into(),
            price: WL_PRICE,
            ibc: false, lists_delta: 0, admin: None,
            stages: vec![
                StageSpec { start: 1000, end: 1300, limit: 1, cap: Some(2), members: vec![("buyer1".into(), 1), ("buyer2".into(), 1), ("buyer3".into(), 1)], noalloc: vec![] },
                StageSpec { start: 1300, end: 1600, limit: 2, cap: Some(3), members: vec![("buyer1".into(), 2), ("buyer2".into(), 2)], noalloc: vec![] },
                StageSpec { start: 1700, end: 2000, limit: 3, cap: None, members: vec![("buyer1".into(), 3), ("buyer3".into(), 1)], noalloc: vec![] },
            ],
        };
        let hm = |i: usize, who: &str| honest_mint(&var, &sp, i, who, WL_PRICE);
        v.push(Case {
            tag: "corpus:tiered-hand-over".into(),
            variant,
            num_tokens: 20,
            pal: 2,
            price: PUB_PRICE,
            start_in: START,
            end_in: None,
            unlimited: false,
            init_wl: None,
            ops: vec![
                COp::MakeWl(sp.clone()),
                COp::Attach { who: CREATOR.into() },
                at(1000, 0),
                hm(0, "buyer1"),
                hm(0, "buyer1"),
                hm(0, "buyer2"),
                hm(0, "buyer3"), // stage cap 2 reached
                at(1300, -1),
                hm(0, "buyer3"),
                at(1300, 0),
                hm(1, "buyer1"),
                hm(1, "buyer1"),
                hm(1, "buyer1"),
                hm(1, "buyer2"),
                hm(1, "buyer2"), // stage cap 3 reached
                hm(1, "buyer3"),
                at(1600, 0), // gap: no stage active, sale not started
                hm(1, "buyer2"),
                at(1700, 0),
                hm(2, "buyer1"),
                hm(2, "buyer1"),
                hm(2, "buyer1"),
                hm(2, "buyer1"),
                hm(2, "buyer3"),
                hm(2, "buyer3"),
                at(2000, 0),
                hm(2, "buyer1"),
                at(START, 0),
                hm(2, "buyer1"),
                hm(2, "buyer1"),
                hm(2, "buyer1"),
            ],
        });
    }
    v
}

/// touching stages (end(i) == start(i+1)) with different per-address limits, caps and member sets, both orders
/// (3 -> 1 -> 3), on every minter family with its tiered whitelist kind(s); A-only = buyer1 (stages 1 and 3),
/// B-only = buyer2 (stage 2), both = buyer3; mints at T-1ns, T, T+1ns of both shared instants and of the first
/// start and the last end, up to and past each limit
fn touching_stage_cases() -> Vec<Case> {
    let mut v = vec![];
    for variant in 0..9usize {
        let var = fam(variant);
        let kinds: Vec<&str> = if var.flex {
            vec!["tiered-flex"]
        } else if var.merkle && var.oe {
            vec!["tiered-merkle"]
        } else if var.merkle {
            vec!["tiered-merkle", "tiered"]
        } else {
            vec!["tiered"]
        };
        for kind in kinds {
            let st = |s: u64, e: u64, limit: u32, cap: Option<u32>, m: Vec<(&str, u32)>| StageSpec {
                start: s,
                end: e,
                limit,
                cap,
                members: m.into_iter().map(|(a, n)| (a.to_string(), n)).collect(),
                noalloc: vec![],
            };
            let sp = WlSpec {
                kind: kind.into(),
                price: WL_PRICE,
                ibc: false, lists_delta: 0, admin: None,
                stages: vec![
                    st(1000, 1300, 3, Some(7), vec![("buyer1", 3), ("buyer3", 3)]),
                    st(1300, 1600, 1, Some(2), vec![("buyer2", 1), ("buyer3", 1)]),
                    st(1600, 1900, 3, None, vec![("buyer1", 3), ("buyer3", 2)]),
                ],
            };
            let merkle = is_merkle(kind);
            // one attempt of `who` with the arguments of stage i (and, on the Merkle kind, also those of stage j)
            let go = |ops: &mut Vec<COp>, who: &str, i: usize, j: Option<usize>, times: usize| {
                for _ in 0..times {
                    ops.push(honest_mint(&var, &sp, i, who, WL_PRICE));
                    if let (true, Some(j)) = (merkle, j) {
                        ops.push(honest_mint(&var, &sp, j, who, WL_PRICE));
                    }
                }
            };
            let mut ops = vec![COp::MakeWl(sp.clone()), COp::Attach { who: CREATOR.into() }];
            ops.push(at(1000, -1));
            for b in BUYERS {
                go(&mut ops, b, 0, None, 1);
            }
            ops.push(at(1000, 0)); // first start: inclusive
            go(&mut ops, "buyer1", 0, None, 4);
            go(&mut ops, "buyer3", 0, None, 2);
            go(&mut ops, "buyer2", 0, Some(1), 1);
            ops.push(at(1300, -1));
            go(&mut ops, "buyer3", 0, None, 1);
            go(&mut ops, "buyer2", 0, Some(1), 1);
            ops.push(at(1300, 0)); // T1: stage 1 (limit 3) is still the active one; buyer1 and buyer3 are at their limit
            go(&mut ops, "buyer2", 1, Some(0), 3);
            go(&mut ops, "buyer3", 0, Some(1), 2);
            go(&mut ops, "buyer1", 0, Some(1), 1);
            ops.push(at(1300, 1)); // stage 2: limit 1, cap 2
            go(&mut ops, "buyer2", 1, None, 2);
            go(&mut ops, "buyer3", 1, None, 2);
            go(&mut ops, "buyer1", 1, Some(0), 1);
            ops.push(at(1600, -1));
            go(&mut ops, "buyer2", 1, None, 1);
            ops.push(at(1600, 0)); // T2: stage 2 (limit 1) is still the active one
            go(&mut ops, "buyer1", 2, Some(1), 2);
            go(&mut ops, "buyer3", 1, Some(2), 2);
            go(&mut ops, "buyer2", 1, Some(2), 1);
            ops.push(at(1600, 1)); // stage 3: limit 3, no cap
            go(&mut ops, "buyer1", 2, None, 4);
            go(&mut ops, "buyer3", 2, None, 3);
            go(&mut ops, "buyer2", 2, Some(1), 1);
            ops.push(at(1900, 0)); // last end: inclusive
            go(&mut ops, "buyer1", 2, None, 1);
            go(&mut ops, "buyer2", 2, None, 1);
            ops.push(at(1900, 1));
            go(&mut ops, "buyer3", 2, None, 1);
            v.push(Case {
                tag: format!("corpus:touching-stages:{}:{}", var.name, kind),
                variant,
                num_tokens: 30,
                pal: 2,
                price: PUB_PRICE,
                start_in: START,
                end_in: if variant >= 6 { Some(6000) } else { None },
                unlimited: false,
                init_wl: None,
                ops,
            });
        }
    }
    v
}

/// every whitelist admin op of `ops` is first tried by somebody who is not an admin of the whitelist (the buyers
/// in turn, members included, and the stranger): must be rejected and change nothing
fn with_intruders(ops: Vec<COp>, intruders: &[&str]) -> Vec<COp> {
    let mut out = vec![];
    let mut k = 0usize;
    for op in ops {
        if matches!(op, COp::WlLimit { .. } | COp::WlCap { .. } | COp::WlAdd { .. } | COp::WlRemove { .. } | COp::WlAddStage { .. } | COp::WlRemoveStage { .. } | COp::WlUpdateStage { .. } | COp::WlIncreaseMemberLimit { .. }) {
            out.push(COp::By { who: intruders[k % intruders.len()].to_string(), op: Box::new(op.clone()) });
            k += 1;
        }
        out.push(op);
    }
    out
}
fn by(who: &str, op: COp) -> COp {
    COp::By { who: who.into(), op: Box::new(op) }
}

/// whitelist ADMIN operations between the mints, for every minter family x list-based whitelist kind: members
/// added / removed / re-added (flex: with a smaller or larger allowance), stages removed (last and non-last) and
/// rebuilt with different lists, limits, caps and allowances, UpdateStageConfig with every subset of its optional
/// fields (most of them omit the cap and the per-address limit), instantiate with a surplus / a missing member list
fn wl_admin_cases() -> Vec<Case> {
    let mut v = vec![];
    let st = |s: u64, e: u64, limit: u32, cap: Option<u32>, m: Vec<(&str, u32)>| StageSpec {
        start: s,
        end: e,
        limit,
        cap,
        members: m.into_iter().map(|(a, n)| (a.to_string(), n)).collect(),
        noalloc: vec![],
    };
    for variant in 0..9usize {
        let var = fam(variant);
        let kinds: Vec<&str> = if var.flex {
            vec!["flex", "tiered-flex"]
        } else if var.merkle && var.oe {
            vec![]
        } else if var.merkle {
            vec!["plain"] // (a Merkle minter cannot mint from the list-based tiered kind at all)
        } else {
            vec!["plain", "tiered"]
        };
        for kind in kinds {
            let flex = is_flex(kind);
            let mk = |tag: &str, ops: Vec<COp>| Case {
                tag: format!("corpus:whitelist-admin:{}:{}:{}", tag, var.name, kind),
                variant,
                num_tokens: 40,
                pal: 2,
                price: PUB_PRICE,
                start_in: START,
                end_in: if variant >= 6 { Some(6000) } else { None },
                unlimited: false,
                init_wl: None,
                ops,
            };
            if !is_tiered(kind) {
                let sp = WlSpec { kind: kind.into(), price: WL_PRICE, ibc: false, lists_delta: 0, admin: None, stages: vec![st(1000, 1600, 2, None, vec![("buyer1", 2), ("buyer2", 3)])] };
                let go = |ops: &mut Vec<COp>, who: &str, times: usize| {
                    for _ in 0..times {
                        ops.push(honest_mint(&var, &sp, 0, who, WL_PRICE));
                    }
                };
                let mut ops = vec![COp::MakeWl(sp.clone()), COp::Attach { who: CREATOR.into() }, at(100, 0)];
                ops.push(COp::WlAdd { stage: 0, who: "buyer3".into(), count: 1 });
                ops.push(COp::WlAdd { stage: 0, who: "buyer1".into(), count: 3 }); // already listed: its allowance stays
                ops.push(COp::WlRemove { stage: 0, who: "buyer2".into() });
                ops.push(COp::WlAdd { stage: 0, who: "buyer2".into(), count: 1 }); // re-listed with a smaller allowance
                ops.push(COp::WlRemove { stage: 0, who: STRANGER.into() }); // not listed: rejected
                if !flex {
                    ops.push(COp::WlLimit { stage: 0, limit: 3 });
                    ops.push(COp::WlLimit { stage: 0, limit: 1 });
                    ops.push(COp::WlLimit { stage: 0, limit: 31 }); // above the maximum: rejected
                }
                ops.push(at(1000, 0));
                go(&mut ops, "buyer1", 3);
                go(&mut ops, "buyer2", 2);
                go(&mut ops, "buyer3", 2);
                ops.push(at(1200, 0));
                if !flex {
                    ops.push(COp::WlLimit { stage: 0, limit: 3 });
                }
                ops.push(COp::WlAdd { stage: 0, who: STRANGER.into(), count: 2 });
                ops.push(COp::WlAdd { stage: 0, who: "buyer3".into(), count: 3 }); // larger allowance for a listed address: stays 1
                ops.push(COp::WlRemove { stage: 0, who: "buyer3".into() }); // already started: rejected
                go(&mut ops, "buyer1", 3);
                go(&mut ops, STRANGER, 4);
                go(&mut ops, "buyer3", 2);
                v.push(mk("members", with_intruders(ops, &["buyer1", "buyer2", "buyer3", STRANGER])));
                // a member raises the limit / lists a friend itself, then both mint: the admin's figures (limit 1,
                // allowances buyer1: 1, buyer2: 2; buyer3 and the stranger not listed) stay in force
                let sp1 = WlSpec { kind: kind.into(), price: WL_PRICE, ibc: false, lists_delta: 0, admin: None, stages: vec![st(1000, 1600, 1, None, vec![("buyer1", 1), ("buyer2", 2)])] };
                let mut ops = vec![COp::MakeWl(sp1.clone()), COp::Attach { who: CREATOR.into() }, at(100, 0)];
                ops.push(by("buyer1", COp::WlLimit { stage: 0, limit: 3 }));
                ops.push(by("buyer2", COp::WlAdd { stage: 0, who: "buyer3".into(), count: 2 }));
                ops.push(by(STRANGER, COp::WlRemove { stage: 0, who: "buyer2".into() }));
                ops.push(by("buyer3", COp::WlIncreaseMemberLimit { limit: 1001 }));
                ops.push(COp::WlIncreaseMemberLimit { limit: 2001 });
                ops.push(at(1000, 0));
                go(&mut ops, "buyer1", 2);
                ops.push(by("buyer1", COp::WlLimit { stage: 0, limit: 3 }));
                ops.push(by("buyer3", COp::WlAdd { stage: 0, who: "buyer3".into(), count: 3 }));
                ops.push(by("buyer1", COp::WlAdd { stage: 0, who: STRANGER.into(), count: 1 }));
                go(&mut ops, "buyer1", 3);
                go(&mut ops, "buyer2", 3);
                go(&mut ops, "buyer3", 2);
                go(&mut ops, STRANGER, 1);
                v.push(mk("non-admin", ops));
                // the whitelist is administered by somebody else: the minter's creator is an outsider there
                let mut spx = sp1.clone();
                spx.admin = Some(STRANGER.into());
                let mut ops = vec![COp::MakeWl(spx.clone()), COp::Attach { who: CREATOR.into() }, at(100, 0)];
                ops.push(by(CREATOR, COp::WlLimit { stage: 0, limit: 3 }));
                ops.push(by(CREATOR, COp::WlAdd { stage: 0, who: "buyer3".into(), count: 2 }));
                ops.push(COp::WlAdd { stage: 0, who: "buyer3".into(), count: 1 }); // its admin (the stranger) does
                ops.push(at(1000, 0));
                ops.push(by(CREATOR, COp::WlLimit { stage: 0, limit: 3 }));
                go(&mut ops, "buyer1", 2);
                go(&mut ops, "buyer3", 2);
                v.push(mk("foreign-admin", ops));
                continue;
            }
            // ---- tiered kinds ----
            let base = |delta: i8| WlSpec {
                kind: kind.into(),
                price: WL_PRICE,
                ibc: false,
                lists_delta: delta, admin: None,
                stages: vec![
                    st(1000, 1300, 2, Some(3), vec![("buyer1", 2), ("buyer2", 2)]),
                    st(1400, 1700, 2, Some(3), vec![("buyer1", 2), ("buyer3", 2)]),
                    st(1800, 2100, 3, None, vec![("buyer1", 3), ("buyer2", 2)]),
                ],
            };
            let sp = base(1);
            let go = |ops: &mut Vec<COp>, who: &str, times: usize| {
                for _ in 0..times {
                    ops.push(honest_mint(&var, &sp, 0, who, WL_PRICE));
                }
            };
            // --- stages removed and rebuilt ---
            let mut ops = vec![COp::MakeWl(base(-1)), COp::MakeWl(sp.clone()), COp::Attach { who: CREATOR.into() }, at(100, 0)];
            ops.push(COp::WlRemoveStage { stage: 2 }); // the last one
            ops.push(COp::WlAddStage { stage: st(1800, 2100, 3, None, vec![("buyer1", 3), ("buyer2", 2)]) });
            ops.push(COp::WlRemoveStage { stage: 1 }); // not the last one: stages 2 and 3 go, with members and allowances
            ops.push(COp::WlAddStage { stage: st(1400, 1700, 1, Some(2), vec![("buyer2", 1), ("buyer3", 1)]) });
            ops.push(COp::WlAddStage { stage: st(1800, 2100, 1, Some(4), vec![("buyer1", 1), ("buyer3", 2)]) }); // buyer1 re-listed smaller, buyer2 left off
            ops.push(COp::WlAddStage { stage: st(2200, 2300, 1, None, vec![("buyer1", 1)]) }); // a fourth stage: rejected
            ops.push(COp::WlAdd { stage: 0, who: "buyer3".into(), count: 1 });
            ops.push(COp::WlAdd { stage: 0, who: "buyer1".into(), count: 3 }); // already listed: stays 2
            ops.push(COp::WlRemove { stage: 0, who: "buyer2".into() });
            ops.push(COp::WlAdd { stage: 0, who: "buyer2".into(), count: 1 });
            ops.push(COp::WlRemove { stage: 0, who: STRANGER.into() }); // rejected
            ops.push(COp::WlUpdateStage { stage: 0, name: None, start: None, end: Some(1350), price: None, limit: None, cap: None });
            ops.push(COp::WlUpdateStage { stage: 1, name: Some("renamed".into()), start: None, end: None, price: None, limit: None, cap: None });
            ops.push(COp::WlUpdateStage { stage: 2, name: None, start: Some(1750), end: None, price: None, limit: None, cap: None });
            ops.push(at(1000, 0));
            go(&mut ops, "buyer1", 3);
            go(&mut ops, "buyer2", 2);
            ops.push(at(1200, 0));
            // mid-stage: only the end moves; cap (3) and per-address limit stay
            ops.push(COp::WlUpdateStage { stage: 0, name: None, start: None, end: Some(1360), price: None, limit: None, cap: None });
            go(&mut ops, "buyer3", 2);
            go(&mut ops, "buyer2", 2);
            go(&mut ops, "buyer1", 1);
            ops.push(at(1400, 0));
            go(&mut ops, "buyer2", 2);
            go(&mut ops, "buyer3", 2);
            go(&mut ops, "buyer1", 1);
            ops.push(at(1750, 0));
            go(&mut ops, "buyer1", 3);
            go(&mut ops, "buyer2", 2);
            go(&mut ops, "buyer3", 3);
            let mut ops = with_intruders(ops, &["buyer2", "buyer3", STRANGER, "buyer1"]);
            // members try to help themselves with figures of their own while stage 3 runs
            ops.push(by("buyer2", COp::WlUpdateStage { stage: 2, name: None, start: None, end: None, price: None, limit: if flex { None } else { Some(3) }, cap: Some(30) }));
            ops.push(by("buyer2", COp::WlAdd { stage: 2, who: "buyer2".into(), count: 3 }));
            ops.push(by("buyer1", COp::WlAddStage { stage: st(2200, 2300, 3, None, vec![("buyer1", 3)]) }));
            ops.push(by("buyer1", COp::WlRemoveStage { stage: 2 }));
            ops.push(by(STRANGER, COp::WlCap { stage: 2, cap: Some(30) }));
            if !flex {
                ops.push(by("buyer3", COp::WlLimit { stage: 2, limit: 3 }));
            }
            go(&mut ops, "buyer3", 2);
            go(&mut ops, "buyer2", 2);
            v.push(mk("rebuild", ops));
            // --- UpdateStageConfig with every subset of its optional fields, on the middle stage ---
            let sp2 = base(0);
            let mut ops = vec![COp::MakeWl(sp2.clone()), COp::Attach { who: CREATOR.into() }, at(100, 0)];
            ops.push(COp::WlAdd { stage: 1, who: "buyer2".into(), count: 1 });
            for mask in 0u32..64 {
                if flex && mask & 16 != 0 {
                    continue; // the flex stage has no per_address_limit
                }
                ops.push(COp::WlUpdateStage {
                    stage: 1,
                    name: if mask & 1 != 0 { Some(format!("m{}", mask)) } else { None },
                    start: if mask & 2 != 0 { Some(1390 + 10 * ((mask >> 2) & 1) as u64) } else { None },
                    end: if mask & 4 != 0 { Some(1700 + 10 * ((mask >> 3) & 1) as u64) } else { None },
                    price: if mask & 8 != 0 { Some(WL_PRICE) } else { None },
                    limit: if mask & 16 != 0 { Some(1 + (mask & 1)) } else { None },
                    cap: if mask & 32 != 0 { Some(2 + ((mask >> 1) & 1)) } else { None },
                });
            }
            ops.push(COp::WlUpdateStage { stage: 1, name: Some("final".into()), start: Some(1400), end: Some(1700), price: Some(WL_PRICE), limit: if flex { None } else { Some(1) }, cap: Some(2) });
            ops.push(COp::WlUpdateStage { stage: 1, name: None, start: None, end: Some(1705), price: None, limit: None, cap: None });
            ops.push(COp::WlUpdateStage { stage: 1, name: Some("again".into()), start: None, end: None, price: Some(WL_PRICE), limit: None, cap: None });
            ops.push(at(1400, 0));
            go(&mut ops, "buyer1", 2);
            go(&mut ops, "buyer3", 2);
            ops.push(at(1500, 0));
            ops.push(COp::WlUpdateStage { stage: 1, name: None, start: None, end: Some(1710), price: None, limit: None, cap: None });
            go(&mut ops, "buyer2", 2);
            go(&mut ops, "buyer3", 1);
            v.push(mk("update-subsets", with_intruders(ops, &["buyer3", STRANGER])));
        }
    }
    v
}

/// pairings the wire formats do not admit: creation with / SetWhitelist to an incompatible kind, then mints
fn incompatible_cases() -> Vec<Case> {
    let mut v = vec![];
    for variant in 0..6usize {
        let var = fam(variant);
        for kind in KINDS {
            if compatible(&var, kind) {
                continue;
            }
            let tiered = is_tiered(kind);
            let mk = |s: u64, e: u64| StageSpec { start: s, end: e, limit: 1, cap: None, members: vec![("buyer1".into(), 2), ("buyer2".into(), 1)], noalloc: vec![] };
            let sp = WlSpec { kind: kind.into(), price: WL_PRICE, ibc: false, lists_delta: 0, admin: None, stages: if tiered { vec![mk(1000, 1300), mk(1300, 1600)] } else { vec![mk(1000, 1600)] } };
            let pm = |who: &str, amt: u128| if var.merkle { mintm(who, amt, None, None, None) } else { mint(who, amt) };
            let mut ops = vec![COp::MakeWl(sp.clone()), COp::Attach { who: CREATOR.into() }, at(1000, 0)];
            for who in ["buyer1", "buyer1", "buyer2", "buyer3"] {
                ops.push(pm(who, WL_PRICE));
                if var.merkle && who != "buyer2" {
                    ops.push(mintm(who, WL_PRICE, None, None, Some(5)));
                }
            }
            ops.push(at(1300, 0));
            for who in ["buyer1", "buyer1"] {
                ops.push(pm(who, WL_PRICE));
            }
            ops.push(at(START, 0));
            for who in ["buyer1", "buyer1", "buyer1"] {
                ops.push(pm(who, PUB_PRICE));
            }
            v.push(Case { tag: format!("incompatible:{}:{}", var.name, kind), variant, num_tokens: 12, pal: 2, price: PUB_PRICE, start_in: START, init_wl: None, end_in: None, unlimited: false, ops: ops.clone() });
            // the same whitelist kind given at creation (only the kinds the sale world's helper builds)
            if !is_merkle(kind) {
                let windows = if tiered { vec![(1000, 1300), (1300, 1600)] } else { vec![(1000, 1600)] };
                v.push(Case {
                    tag: format!("incompatible-at-creation:{}:{}", var.name, kind),
                    variant,
                    num_tokens: 12,
                    pal: 2,
                    price: PUB_PRICE,
                    start_in: START,
                    end_in: None,
                    unlimited: false,
                    init_wl: Some(InitWl { kind: kind.into(), windows, limit: 1, cap: None, flex_count: 2, members: vec!["buyer1".into(), "buyer2".into()], price: WL_PRICE }),
                    ops: ops[2..].to_vec(),
                });
            }
        }
    }
    v
}

/// smallest prefix that still shows a violation with the same key, then one greedy pass dropping single ops
fn shrink(c: &Case, key: &str) -> Case {
    let shows = |ops: &[COp]| -> bool {
        let mut t = c.clone();
        t.ops = ops.to_vec();
        run_case(&t).violations.iter().any(|v| v.0 == key)
    };
    let (mut lo, mut hi) = (0usize, c.ops.len());
    if !shows(&c.ops) {
        return c.clone();
    }
    while lo < hi {
        let mid = (lo + hi) / 2;
        if shows(&c.ops[..mid]) {
            hi = mid;
        } else {
            lo = mid + 1;
        }
    }
    let mut ops: Vec<COp> = c.ops[..hi].to_vec();
    let mut i = ops.len();
    let mut budget = 120;
    while i > 0 && budget > 0 {
        i -= 1;
        budget -= 1;
        let mut t = ops.clone();
        t.remove(i);
        if shows(&t) {
            ops = t;
        }
    }
    let mut out = c.clone();
    out.ops = ops;
    out.tag = format!("{} (shrunk)", c.tag);
    out
}

fn all_cases(a: &Args) -> Vec<Case> {
    let mut rng = Rng::new(a.seed);
    let mut v = corpus();
    v.extend(touching_stage_cases());
    v.extend(wl_admin_cases());
    for (tag, p) in probe_plans() {
        v.push(history(&mut rng, &p, &tag));
    }
    v.extend(incompatible_cases());
    let per_pair = if a.thorough() { 12 } else { 2 };
    for variant in 0..9 {
        let var = fam(variant);
        for kind in ["none", "plain", "tiered", "flex", "tiered-flex", "merkle", "tiered-merkle"] {
            if kind != "none" && !compatible(&var, kind) {
                continue;
            }
            for _ in 0..per_pair {
                let p = random_plan(&mut rng, variant, kind);
                v.push(history(&mut rng, &p, &format!("random:{}:{}", var.name, kind)));
            }
        }
    }
    v
}

pub fn run(a: &Args) {
    let out = OutDir::new(&a.out);
    let mut rep = Report { property: "C03".into(), tier: a.tier.clone(), seed: a.seed, ..Default::default() };
    let cases: Vec<Case> = if let Some(p) = &a.replay {
        #[derive(Deserialize)]
        struct ReplayFile {
            case: Case,
        }
        let rf: ReplayFile = serde_json::from_str(&std::fs::read_to_string(p).expect("replay file")).expect("replay json");
        vec![rf.case]
    } else {
        all_cases(a)
    };
    let mut coq_cases = vec![];
    let mut oe_cases = vec![];
    let mut nviol = 0;
    for (i, c) in cases.iter().enumerate() {
        let r = run_case(c);
        rep.evaluations += r.steps;
        rep.distinct_nontrivial += r.ok_mints;
        for (k, v) in &r.hist {
            *rep.histogram.entry(k.clone()).or_insert(0) += v;
        }
        for (key, what) in r.violations.iter().take(3) {
            nviol += 1;
            if nviol <= 20 {
                let small = if nviol <= 3 && a.replay.is_none() { shrink(c, key) } else { c.clone() };
                let body = format!(
                    "{{\n \"property\": \"C03\",\n \"case\": {},\n \"violation\": {}\n}}\n",
                    serde_json::to_string(&small).unwrap(),
                    serde_json::to_string(what).unwrap()
                );
                let path = out.write_replay(&format!("C03-{}.json", nviol), &body);
                rep.violations.push(Violation { key: key.clone(), what: what.clone(), replay: path });
            }
        }
        if rep.samples.len() < 3 && i % 23 == 5 {
            rep.samples.push(serde_json::json!({"tag": c.tag, "variant": fam(c.variant).name, "num_tokens": c.num_tokens, "pal": c.pal,
                "first_ops": c.ops.iter().take(8).map(|o| format!("{:?}", o)).collect::<Vec<_>>(), "steps": r.steps, "ok_steps": r.ok_steps, "ok_mints": r.ok_mints}));
        }
        if let Some(cq) = r.coq {
            if c.variant >= 6 {
                oe_cases.push(cq);
            } else {
                coq_cases.push(cq);
            }
        }
    }
    rep.rule = "histories of Mint (with stage/proof/allocation arguments on the Merkle variants), MintTo, MintFor, Purge, UpdatePerAddressLimit and SetWhitelist by three buyers, a stranger and the admin on every (minter variant x whitelist kind) pairing of the six vending and three open-edition minters, whitelist-side limit/cap/member updates and the clock at every stage edge in between; evaluations = minter steps executed on the real contracts; distinct_nontrivial = Mint calls that completed (each one checked against the limit or entitlement in force)".into();
    if !coq_cases.is_empty() {
        out.write_cases("C03", "From LP Require Import Num Pay Sg1 Bank MinterVending SaleCorr.", "scase", "sale_check", &coq_cases, 4, &mut rep);
    }
    if !oe_cases.is_empty() {
        out.write_cases("C03oe", "From LP Require Import Num Pay Sg1 Bank MinterVending MinterOpen SaleOeCorr.", "oecase", "sale_oe_check", &oe_cases, 2, &mut rep);
    }
    out.finish(&rep);
    println!("C03 harness: {} cases, {} steps, {} monitor violations", cases.len(), rep.evaluations, nviol);
}
