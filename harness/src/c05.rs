//! C05 — privileged operations succeed only for the principal that owns them.
//!
//! The full (contract x ExecuteMsg variant x caller role x state) table against the REAL
//! contracts: every factory, every minter created through its factory, the four
//! collection codes (instantiated by, and owned by, a real minter contract's address),
//! the seven whitelists, sg-splits with a real cw4-group (with and without admin).
//! A row = one (contract, state, message) with otherwise valid arguments; the message is
//! sent by every role, non-principals first, from the same state (the world is rebuilt
//! after any call that succeeded).  Recorded per call: ok/err, the principal-relevant
//! queries afterwards, and whether storage of every contract of the world and every
//! tracked balance stayed the same.
//!
//! Monitors are written from the property sentence (`reserved`), know the principals
//! from the history that built the state (never from the contract's answers) and share
//! nothing with coq/model/Auth.v.
#[path = "c05_worlds.rs"]
mod worlds;

use crate::chain;
use crate::util::*;
use crate::w_factory::*;
use crate::Args;
use cosmwasm_std::{coin, Addr};
use serde::{Deserialize, Serialize};
use serde_json::{json, Value};
use std::collections::{BTreeMap, BTreeSet};
use worlds::*;

/// Who owns an operation, from the PROPERTY SENTENCE.  None = the sentence reserves it to
/// nobody (public mint, purge, shuffle, operator grants on one's own tokens, paying to
/// raise a whitelist's capacity, creating a minter).
pub fn reserved(ck: CK, kind: &str) -> Option<P> {
    match ck {
        CK::Factory(_) => None,
        CK::Minter(MinterKind::Base) => match kind {
            // "base-minter mints only for the collection creator"; its one configuration
            // message belongs to "the minter admin (the collection creator)"
            "mint" | "update_start_trading_time" => Some(P::BaseMinterCreator),
            _ => None,
        },
        CK::Minter(_) => match kind {
            // "minter configuration, airdrops and burn-remaining only for the minter admin"
            "set_whitelist" | "update_mint_price" | "update_start_time" | "update_end_time" | "update_start_trading_time"
            | "update_per_address_limit" | "update_discount_price" | "remove_discount_price" => Some(P::MinterAdmin),
            "mint_to" | "mint_for" => Some(P::MinterAdmin),
            "burn_remaining" => Some(P::MinterAdmin),
            _ => None, // mint, purge, shuffle, receive_nft
        },
        CK::Coll(_) => match kind {
            // "token minting and trading-time updates on a collection only for its minter"
            "mint" | "update_start_trading_time" => Some(P::CollMinter),
            // handing the minter role over is the minter's; taking it, the proposed minter's
            "update_ownership_transfer" | "update_ownership_renounce" => Some(P::CollMinter),
            "update_ownership_accept" => Some(P::CollPendingMinter),
            // "collection-info, freeze and token-metadata updates only for the collection creator"
            "update_collection_info" | "update_collection_info_creator" | "freeze_collection_info" | "freeze_token_metadata"
            | "update_token_metadata" | "enable_updatable" => Some(P::Creator),
            // a token moves or burns only for who holds it (or was approved by the holder)
            "transfer_nft" | "send_nft" | "burn" => Some(P::TokenSender),
            "approve" | "revoke" => Some(P::TokenApprover),
            _ => None, // approve_all / revoke_all concern the sender's own tokens; extension
        },
        CK::Wl(WlKind::Immutable) => Some(P::WlAdmin), // nobody holds it: the list is immutable
        CK::Wl(_) => match kind {
            // "admin-list changes only for whitelist admins (and never once frozen)"
            "update_admins" | "freeze" => Some(P::WlAdminWhileMutable),
            // capacity is not "membership, schedule or admin list" (DESIGN §7 C05)
            "increase_member_limit" => None,
            // "whitelist membership, schedule ... only for whitelist admins"
            _ => Some(P::WlAdmin),
        },
        CK::Splits(_) => match kind {
            "distribute" => Some(P::SplitsDistributor),
            _ => Some(P::SplitsAdmin),
        },
        CK::Airdrop => Some(P::ClaimWallet),
    }
}

/// the holders of a principal role for this message in this state, per the history;
/// "freeze" means what it says: once collection info / token metadata is frozen, the
/// corresponding update belongs to nobody
fn holders(w: &World, p: P, kind: &str) -> Vec<String> {
    if let CK::Coll(_) = w.ck {
        if w.state == "info-frozen" && kind.starts_with("update_collection_info") {
            return vec![];
        }
        if w.state == "metadata-frozen" && kind == "update_token_metadata" {
            return vec![];
        }
    }
    w.principals.get(&p).cloned().unwrap_or_default()
}

#[derive(Clone, Debug, Serialize, Deserialize)]
pub struct RowId {
    pub ck: CK,
    pub state: String,
    pub kind: String,
    /// replay only: the role whose call violated
    pub role: Option<String>,
}

struct CallRec {
    role: String,
    sender: String,
    principal: bool,
    ok: bool,
    err: Option<String>,
    post: String,
}

struct RowOut {
    coq: String,
    calls: Vec<CallRec>,
    reserved: Option<P>,
    exercised: bool,
}

struct Ctx<'a> {
    out: &'a OutDir,
    rep: Report,
    cases: Vec<String>,
    nviol: usize,
    seen_keys: BTreeSet<String>,
    nontrivial: BTreeSet<String>,
    /// (contract, msg) -> exercised in some state
    exercised: BTreeMap<(String, String), bool>,
    verbose: bool,
}

impl<'a> Ctx<'a> {
    fn violation(&mut self, key: String, what: String, row: &RowId) {
        if !self.seen_keys.insert(key.clone()) {
            return;
        }
        let body = serde_json::to_string_pretty(&json!({"row": row, "key": key, "what": what})).unwrap();
        let path = self.out.write_replay(&format!("C05-{}.json", self.nviol), &body);
        self.nviol += 1;
        if self.verbose {
            println!("VIOLATION {}: {}", key, what);
        }
        self.rep.violations.push(Violation { key, what, replay: path });
    }
}

fn trivial_rejection(e: &str) -> bool {
    let l = e.to_lowercase();
    l.contains("parsing") || l.contains("parse") || l.contains("unknown variant") || l.contains("no funds") || l.contains("payment") || l.contains("sent funds")
}

/// "Factory parameters and minter status change only through governance (sudo), never
/// through a user message": after any message sent by any account, the minter's Status and
/// the factory's Params must be what governance last set.  `excepted` = the one documented
/// exception (C20): the wasm admin's factory migrate WITH an explicit parameter message.
fn gov_monitor(cx: &mut Ctx, w: &World, row: &RowId, what: &str, excepted: bool) {
    let (st, pa) = gov_view(w);
    if let (Some(exp), Some(now)) = (w.gov_status, st) {
        if exp != now {
            cx.violation(
                format!("C05:{}:status-changed-by-user-message", w.ck.contract()),
                format!(
                    "{}: governance had set Status bits (verified,blocked,explicit) = {:03b}; after {} the Status query answers {:03b}",
                    w.ck.name(), exp, what, now
                ),
                row,
            );
        }
    }
    if let (Some(exp), Some(now)) = (&w.gov_params, &pa) {
        if exp != now && !excepted {
            cx.violation(
                format!("C05:{}:params-changed-by-user-message", w.ck.contract()),
                format!("{}: governance had set Params {}; after {} the Params query answers {}", w.ck.name(), exp, what, now),
                row,
            );
        }
    }
}

/// run one row; `full` = every role, otherwise the principals and two outsiders
fn run_row(cx: &mut Ctx, ck: CK, state: &str, kind: &str, full: bool) -> Result<Option<RowOut>, String> {
    let mut w = build(ck, state)?;
    let msgs = messages(&mut w);
    let Some(msg) = msgs.into_iter().find(|m| m.kind == kind) else { return Ok(None) };
    let res = reserved(ck, kind);
    let hold: Vec<String> = res.map(|p| holders(&w, p, kind)).unwrap_or_default();
    let init = observe(&mut w);
    let env = w.env_coq();
    // non-principals first, principals last; each principal starts from the pristine state
    let mut order: Vec<(String, String, bool)> = vec![];
    let mut outsiders = 0;
    for (r, a) in w.roles.clone() {
        let pr = res.is_some() && hold.contains(&a);
        if !pr {
            outsiders += 1;
            if !full && outsiders > 2 {
                continue;
            }
            order.push((r, a, false));
        }
    }
    for (r, a) in w.roles.clone() {
        if res.is_some() && hold.contains(&a) {
            order.push((r, a, true));
        }
    }
    let contract = ck.contract();
    let mut calls = vec![];
    let mut dirty = false;
    for (role, sender, principal) in order {
        if dirty {
            let ids = w.ids.clone();
            w = build(ck, state)?;
            w.ids = ids;
            dirty = false;
        }
        let pre = w.snapshot();
        let funds = if msg.funds > 0 { vec![coin(msg.funds, NATIVE)] } else { vec![] };
        let target = w.target.clone();
        let r = exec_json(&mut w.app, &sender, &target, &msg.json, &funds);
        let ok = r.is_ok();
        let post = observe(&mut w);
        let row = RowId { ck, state: state.to_string(), kind: kind.to_string(), role: Some(role.clone()) };
        cx.rep.evaluations += 1;
        let class = if res.is_none() { "open" } else if principal { "principal" } else { "outsider" };
        cx.rep.bump(&format!("{}|{}|{}|{}", contract, kind, class, if ok { "ok" } else { "err" }));
        if ok || !trivial_rejection(r.as_ref().err().map(|s| s.as_str()).unwrap_or("")) {
            cx.nontrivial.insert(format!("{}|{}|{}|{}", ck.name(), state, kind, role));
        }
        // ---- monitors (property sentence; principals from the history)
        if ok && res.is_some() && !principal {
            cx.violation(
                format!("C05:{}:{}:{}-succeeded", contract, kind, role),
                format!(
                    "{} in state `{}`: {} sent by {} ({}) succeeded, but the operation is reserved to {:?} = {:?}",
                    ck.name(), state, msg.json, role, sender, res.unwrap(), hold
                ),
                &row,
            );
        }
        if !ok && w.snapshot() != pre {
            cx.violation(
                format!("C05:{}:{}:rejected-call-changed-state", contract, kind),
                format!("{} in state `{}`: {} by {} was rejected but storage or balances changed", ck.name(), state, msg.json, role),
                &row,
            );
        }
        if !ok && post != init {
            cx.violation(
                format!("C05:{}:{}:rejected-call-changed-queries", contract, kind),
                format!("{} in state `{}`: {} by {} was rejected but the queries moved from {} to {}", ck.name(), state, msg.json, role, init, post),
                &row,
            );
        }
        gov_monitor(cx, &w, &row, &format!("{} sent through execute by {} ({})", msg.json, role, sender), false);
        if matches!(ck, CK::Factory(_) | CK::Minter(_)) && post != init {
            // admin, Params and Status are all the queries of these kinds show: no execute may move them
            cx.violation(
                format!("C05:{}:{}:params-or-status-changed-by-execute", contract, kind),
                format!("{} in state `{}`: after {} by {} the admin/Params/Status answers moved from {} to {}", ck.name(), state, msg.json, role, init, post),
                &row,
            );
        }
        if ok {
            dirty = true;
        }
        calls.push(CallRec { role, sender, principal, ok, err: r.err(), post });
    }
    let exercised = calls.iter().any(|c| c.principal && c.ok);
    let guards_ok = res.is_some() && exercised;
    let call_terms: Vec<String> = calls.iter().map(|c| format!("mkCall {} {} {}", w.ids.id(&c.sender), coq_bool(c.ok), c.post)).collect();
    let coq = format!("CRow {} {} {} {} {}", env, init, msg.coq, coq_bool(guards_ok), coq_list(&call_terms));
    if res.is_some() {
        let e = cx.exercised.entry((ck.name(), kind.to_string())).or_insert(false);
        *e = *e || exercised;
    }
    Ok(Some(RowOut { coq, calls, reserved: res, exercised }))
}

/// sudo-shaped JSON through `execute`: must not deserialize, nothing moves
fn run_sudo_shaped(cx: &mut Ctx, ck: CK) -> Result<(), String> {
    let shapes = sudo_shaped(ck);
    if shapes.is_empty() {
        return Ok(());
    }
    let mut w = build(ck, "fresh")?;
    let init = observe(&mut w);
    let env = w.env_coq();
    for (kind, js) in shapes {
        let mut terms = vec![];
        for (role, sender) in w.roles.clone() {
            if !matches!(role.as_str(), "creator" | "governance" | "stranger") {
                continue;
            }
            let pre = w.snapshot();
            let target = w.target.clone();
            let r = exec_json(&mut w.app, &sender, &target, &js, &[]);
            let post = observe(&mut w);
            cx.rep.evaluations += 1;
            cx.rep.bump(&format!("{}|{}|malformed|{}", ck.contract(), kind, if r.is_ok() { "ok" } else { "err" }));
            let row = RowId { ck, state: "fresh".into(), kind: kind.to_string(), role: Some(role.clone()) };
            if r.is_ok() {
                cx.violation(
                    format!("C05:{}:{}-via-execute-succeeded", ck.contract(), kind),
                    format!("{}: the governance message {} sent through execute by {} was accepted", ck.name(), js, role),
                    &row,
                );
            }
            if w.snapshot() != pre || post != init {
                cx.violation(
                    format!("C05:{}:{}-via-execute-changed-state", ck.contract(), kind),
                    format!("{}: {} through execute by {} changed state ({} -> {})", ck.name(), js, role, init, post),
                    &row,
                );
            }
            terms.push(format!("mkCall {} {} {}", w.ids.id(&sender), coq_bool(r.is_ok()), post));
            if r.is_ok() {
                let ids = w.ids.clone();
                w = build(ck, "fresh")?;
                w.ids = ids;
            }
        }
        cx.cases.push(format!("CRow {} {} XUndecodable false {}", env, init, coq_list(&terms)));
    }
    Ok(())
}

/// number of contracts on the chain (addresses are contract0, contract1, ... in creation order)
fn n_contracts(app: &chain::App) -> usize {
    let mut i = 0;
    while app.wrap().query_wasm_contract_info(format!("contract{}", i)).is_ok() {
        i += 1;
    }
    i
}
fn is_contract(app: &chain::App, a: &str) -> bool {
    app.wrap().query_wasm_contract_info(a.to_string()).is_ok()
}

/// One instantiation attempt and everything the property sentence says about it: "a
/// minter or collection can only be instantiated by a contract, never directly by a user
/// account".  The SENDER decides; what the message names (a collection's `minter`, a
/// minter's creator) is varied independently so that a check made against the wrong
/// party shows.
#[allow(clippy::too_many_arguments)]
fn inst_probe(
    cx: &mut Ctx,
    w: &mut World,
    ck: CK,
    target: &str,
    code: u64,
    sender_role: &str,
    sender: &str,
    named_role: &str,
    named: &str,
    msg: &Value,
    sender_answers_params: bool,
    args_ok: bool,
) {
    let sender_contract = is_contract(&w.app, sender);
    let named_contract = is_contract(&w.app, named);
    let pre = w.snapshot();
    let n0 = n_contracts(&w.app);
    let r = instantiate_json(&mut w.app, code, sender, msg, "direct");
    let ok = r.is_ok();
    let n1 = n_contracts(&w.app);
    cx.rep.evaluations += 1;
    let who = if sender_contract { "contract" } else { "user" };
    cx.rep.bump(&format!("{}|instantiate|by-{}:{}|naming-{}|{}", ck.contract(), who, sender_role, named_role, if ok { "ok" } else { "err" }));
    cx.nontrivial.insert(format!("{}|instantiate|{}|{}", ck.contract(), sender_role, named_role));
    let row = RowId { ck, state: "fresh".into(), kind: "instantiate".into(), role: Some(format!("{} naming {}", sender_role, named_role)) };
    if cx.verbose {
        println!(
            "  instantiate {:<32} by {:<22} ({:<9} {}) naming {:<20} ({:<9} {}) -> {}",
            ck.contract(), sender_role, sender, if sender_contract { "contract" } else { "user" }, named_role, named,
            if named_contract { "contract" } else { "no contract" }, if ok { "ok" } else { "err" }
        );
    }
    // ---- monitors (property sentence)
    if ok && !sender_contract {
        cx.violation(
            format!("C05:{}:instantiated-by-user", ck.contract()),
            format!(
                "{}: code {} was instantiated directly by the user account {} ({}); the message named {} = {} ({}) as {}",
                ck.contract(), code, sender, sender_role, named_role, named,
                if named_contract { "an existing contract" } else { "not a contract" }, target
            ),
            &row,
        );
    }
    if ok && target == "creator" && !sender_answers_params {
        // a minter code instantiated by a contract that is not a factory
        cx.violation(
            format!("C05:{}:instantiated-by-non-factory", ck.contract()),
            format!("{}: code {} was instantiated by {} ({}), which does not answer the Params query", ck.contract(), code, sender, sender_role),
            &row,
        );
    }
    if !ok && (w.snapshot() != pre || n1 != n0) {
        cx.violation(
            format!("C05:{}:instantiate:rejected-call-changed-state", ck.contract()),
            format!("{}: a rejected instantiate by {} changed state or created a contract ({} -> {} contracts)", ck.contract(), sender, n0, n1),
            &row,
        );
    }
    if !ok && sender_contract && args_ok && (target == "minter" || sender_answers_params) {
        cx.rep.notes.push(format!("unexercised: {} instantiate by {} naming {} failed: {}", ck.contract(), sender_role, named_role, r.as_ref().err().unwrap().chars().rev().take(160).collect::<String>().chars().rev().collect::<String>()));
    }
    let t = if target == "minter" { "ICollection" } else { "IMinter" };
    cx.cases.push(format!(
        "CInst {} (mkIP {} {} {}) {} {}",
        t, coq_bool(sender_contract), coq_bool(sender_answers_params), coq_bool(named_contract), coq_bool(args_ok), coq_bool(ok)
    ));
}

/// (ii) a minter or a collection can only be instantiated by a contract
fn run_instantiate_probes(cx: &mut Ctx) -> Result<(), String> {
    // ---------------- the four collection codes
    for k in CollKind::ALL {
        let ck = CK::Coll(k);
        let mut w = build(ck, "fresh")?;
        let code = w.num("code");
        let minter = w.addr("minter");
        let factory = w.addr("minter2");
        let receiver = w.addr("receiver");
        // an unrelated contract: a plain whitelist
        let wl_code = w.app.store_code(WlKind::Plain.code());
        let now = chain::now(&w.app);
        let (wmsg, fee) = wl_instantiate_json(WlKind::Plain, now + 10 * S, now + 90 * S, 50_000_000, &["creator"], true);
        let wl = {
            use cw_multi_test::Executor;
            w.app.instantiate_contract(wl_code, Addr::unchecked("creator"), &wmsg, &[coin(fee, NATIVE)], "wl", None).map_err(|e| format!("{:#}", e))?
        };
        w.contracts.push(wl.clone());
        let wl = wl.to_string();
        // BY A USER ACCOUNT, the `minter` field naming ...: all must fail and create nothing
        for (srole, sender) in [("stranger", "stranger"), ("creator", "creator")] {
            let named: Vec<(&str, String)> = vec![
                ("itself", sender.to_string()),
                ("another-user", "buyer1".to_string()),
                ("a-minter-contract", minter.clone()),
                ("a-factory-contract", factory.clone()),
                ("an-unrelated-contract", wl.clone()),
                ("a-nonexistent-address", "nobody999".to_string()),
            ];
            for (nrole, n) in named {
                let msg = coll_instantiate_json(&n, "creator");
                inst_probe(cx, &mut w, ck, "minter", code, srole, sender, nrole, &n, &msg, false, true);
            }
        }
        // BY A CONTRACT, naming itself / a different contract / a user: the sentence allows all of them
        for (srole, sender, answers) in [("minter-contract", minter.clone(), false), ("factory-contract", factory.clone(), true), ("receiver-contract", receiver.clone(), false)] {
            let named: Vec<(&str, String)> =
                vec![("itself", sender.clone()), ("a-different-contract", wl.clone()), ("a-user", "stranger".to_string())];
            for (nrole, n) in named {
                let msg = coll_instantiate_json(&n, "creator");
                inst_probe(cx, &mut w, ck, "minter", code, srole, &sender, nrole, &n, &msg, answers, true);
            }
        }
    }
    // ---------------- the eleven minter codes (the message names no factory: the factory IS
    // the sender; what it names is the creator of the collection to be made)
    for mk in MinterKind::ALL {
        let ck = CK::Minter(mk);
        let fk = mk.factory();
        let mut w = build(ck, "fresh")?;
        let minter = w.addr("minter");
        let factory = w.addr("factory");
        let collection = w.addr("collection");
        let unrelated = w.aux.get("spare_whitelist").cloned().unwrap_or_else(|| collection.clone());
        let code = w.app.wrap().query_wasm_contract_info(minter.clone()).map_err(|e| e.to_string())?.code_id;
        let ccode = w.app.wrap().query_wasm_contract_info(collection.clone()).map_err(|e| e.to_string())?.code_id;
        let mut req = CreateReq::standard(fk, ccode, &(NATIVE.to_string(), 0));
        if fk == FactoryKind::OpenEdition {
            req.num_tokens = Some(100);
        }
        let mk_msg = |w: &World, creator: &str| create_msg_json(&w.app, fk, creator, &req)["create_minter"].clone();
        for (srole, sender) in [("stranger", "stranger"), ("creator", "creator")] {
            let named: Vec<(&str, String)> = vec![
                ("itself", sender.to_string()),
                ("another-user", "buyer1".to_string()),
                ("a-minter-contract", minter.clone()),
                ("a-factory-contract", factory.clone()),
                ("an-unrelated-contract", unrelated.clone()),
                ("a-nonexistent-address", "nobody999".to_string()),
            ];
            for (nrole, n) in named {
                let msg = mk_msg(&w, &n);
                inst_probe(cx, &mut w, ck, "creator", code, srole, sender, nrole, &n, &msg, false, true);
            }
        }
        // by contracts that are not a factory: must fail too (nobody answers the Params query)
        for (srole, sender) in [("collection-contract", collection.clone()), ("minter-contract", minter.clone()), ("unrelated-contract", unrelated.clone())] {
            for (nrole, n) in [("a-user", "creator".to_string()), ("the-sender", sender.clone())] {
                let msg = mk_msg(&w, &n);
                inst_probe(cx, &mut w, ck, "creator", code, srole, &sender, nrole, &n, &msg, false, true);
            }
        }
        // by the factory: the ordinary flow (creator a user), and naming a contract as creator
        for (nrole, n, args_ok) in [("a-user", "creator".to_string(), true), ("a-minter-contract", minter.clone(), false)] {
            let msg = mk_msg(&w, &n);
            inst_probe(cx, &mut w, ck, "creator", code, "factory-contract", &factory, nrole, &n, &msg, true, args_ok);
        }
    }
    Ok(())
}

/// "the minter admin (the collection creator)": right after creation, with every secondary
/// address a distinct account, the minter's Config.admin and the collection's creator are
/// the creator named in the collection parameters - not the payer, the payment address,
/// the royalty address or the factory.
fn run_creation_checks(cx: &mut Ctx) -> Result<(), String> {
    for mk in MinterKind::ALL {
        let w = build(CK::Minter(mk), "fresh")?;
        let minter = w.target.clone();
        let coll = Addr::unchecked(w.addr("collection"));
        let row = RowId { ck: CK::Minter(mk), state: "fresh".into(), kind: "create_minter".into(), role: Some("payer".into()) };
        cx.rep.evaluations += 1;
        cx.nontrivial.insert(format!("{}|creation-check", mk.name()));
        let cfg = query_json(&w.app, &minter, &json!({"config": {}})).unwrap_or(Value::Null);
        if mk != MinterKind::Base {
            let admin = cfg.get("admin").and_then(|a| a.as_str()).unwrap_or("<none>").to_string();
            cx.rep.bump(&format!("{}|creation|config-admin-is-creator|{}", mk.name(), admin == CREATOR));
            if admin != CREATOR {
                cx.violation(
                    format!("C05:{}:admin-is-not-the-collection-creator", mk.name()),
                    format!("{}: created by payer {} for creator {} with payment address {}: Config.admin is {}", mk.name(), PAYER, CREATOR, PAYADDR, admin),
                    &row,
                );
            }
        }
        let ci = query_json(&w.app, &coll, &json!({"collection_info": {}})).unwrap_or(Value::Null);
        let creator = ci.get("creator").and_then(|a| a.as_str()).unwrap_or("<none>").to_string();
        if creator != CREATOR {
            cx.violation(
                format!("C05:{}:collection-creator-is-not-the-named-creator", mk.name()),
                format!("{}: the collection created for creator {} (royalties to {}) answers creator = {}", mk.name(), CREATOR, ROYALTY, creator),
                &row,
            );
        }
    }
    Ok(())
}

/// MsgMigrateContract as a row of the table: every contract with a migrate entry point,
/// from states where governance has set non-default Status / Params, from stored cw2
/// versions across the accepted range (and two refused pairs), sent by the wasm admin
/// and by accounts that are not.
fn run_migrate(cx: &mut Ctx, thorough: bool) -> Result<(), String> {
    use crate::w_migrate::{get_cw2, set_cw2};
    let versions = |cur: &str| -> Vec<(String, Option<String>, bool)> {
        // (version, other name, expected acceptable)
        let mut v: Vec<(String, Option<String>, bool)> =
            ["2.4.0", "2.9.9", "3.0.0", "3.1.0"].iter().map(|x| (x.to_string(), None, true)).collect();
        v.push((cur.to_string(), None, true));
        v.push(("99.0.0".to_string(), None, false));
        v.push((cur.to_string(), Some("crates.io:something-else".to_string()), false));
        v
    };
    let migrate = |w: &mut World, sender: &str, msg: &Value| -> Result<(), String> {
        let target = w.target.clone();
        let code = w.app.wrap().query_wasm_contract_info(target.to_string()).map_err(|e| e.to_string())?.code_id;
        let app = &mut w.app;
        use cw_multi_test::Executor;
        match crate::util::catch(|| app.migrate_contract(Addr::unchecked(sender), target.clone(), msg, code)) {
            Ok(Ok(_)) => Ok(()),
            Ok(Err(e)) => Err(format!("{:#}", e)),
            Err(p) => Err(p),
        }
    };
    // one migrate call with everything the property says about it
    #[allow(clippy::too_many_arguments)]
    fn one(
        cx: &mut Ctx,
        w: &mut World,
        migrate: &dyn Fn(&mut World, &str, &Value) -> Result<(), String>,
        state: &str,
        role: &str,
        sender: &str,
        msg: &Value,
        explicit: bool,
        version_ok: bool,
        label: &str,
    ) {
        let is_admin = w.wasm_admin.as_deref() == Some(sender);
        let init = observe(w);
        let pre = w.snapshot();
        let r = migrate(w, sender, msg);
        let ok = r.is_ok();
        let post = observe(w);
        cx.rep.evaluations += 1;
        cx.rep.bump(&format!("{}|migrate{}|{}|{}", w.ck.contract(), if explicit { "-with-params" } else { "" }, if is_admin { "wasm-admin" } else { "outsider" }, if ok { "ok" } else { "err" }));
        cx.nontrivial.insert(format!("{}|migrate|{}|{}|{}", w.ck.name(), state, label, role));
        let row = RowId { ck: w.ck, state: state.to_string(), kind: "migrate".into(), role: Some(format!("{} {}", role, label)) };
        if cx.verbose {
            println!("  migrate {:<34} [{}] {} by {:<20} -> {}", w.ck.name(), state, label, role, if ok { "ok".to_string() } else { format!("err [{}]", r.as_ref().err().unwrap().replace('\n', " ").chars().rev().take(90).collect::<String>().chars().rev().collect::<String>()) });
        }
        if ok && !is_admin {
            cx.violation(
                format!("C05:{}:migrate:{}-succeeded", w.ck.contract(), role),
                format!("{}: a migrate sent by {} ({}), who is not the wasm admin {:?}, went through", w.ck.name(), role, sender, w.wasm_admin),
                &row,
            );
        }
        if !ok && w.snapshot() != pre {
            cx.violation(format!("C05:{}:migrate:rejected-call-changed-state", w.ck.contract()), format!("{}: rejected migrate by {} changed state", w.ck.name(), role), &row);
        }
        gov_monitor(cx, w, &row, &format!("a migrate ({}, message {}) sent by {} ({})", label, msg, role, sender), explicit && is_admin);
        let ex = if explicit {
            let (_, pa) = gov_view(w);
            format!("(Some {})", w.ids.id(&format!("params:{}", pa.unwrap_or_default())))
        } else {
            "None".to_string()
        };
        cx.cases.push(format!("CMig {} {} {} {} {} {}", init, coq_bool(is_admin), ex, coq_bool(version_ok), coq_bool(ok), post));
    }

    // ---------------- minters: all eight Status triples x the version range
    for mk in MinterKind::ALL {
        let mut w = build(CK::Minter(mk), "fresh")?;
        let minter = w.target.clone();
        let (name, cur) = get_cw2(&w.app, &minter);
        let admin = w.wasm_admin.clone().unwrap_or_default();
        for bits in 0..8u64 {
            let (v, b, e) = (bits & 4 != 0, bits & 2 != 0, bits & 1 != 0);
            sudo_update_status(&mut w.app, &minter, v, b, e).map_err(|x| format!("governance UpdateStatus: {}", x))?;
            w.gov_status = Some(bits);
            for (ver, other, acc) in versions(&cur) {
                // the base minter has no migrate entry point at all
                let acc = acc && mk != MinterKind::Base;
                let label = format!("status={:03b} cw2=({}, {})", bits, other.clone().unwrap_or_else(|| name.clone()), ver);
                let senders: Vec<(&str, String)> = if thorough || ver == "2.4.0" || ver == cur {
                    vec![("stranger", "stranger".to_string()), ("buyer", "buyer1".to_string()), ("governance-account", GOV.to_string()), ("creator-minter-admin", CREATOR.to_string()), ("payment-address", PAYADDR.to_string()), ("wasm-admin-payer", admin.clone())]
                } else {
                    vec![("creator-minter-admin", CREATOR.to_string()), ("wasm-admin-payer", admin.clone())]
                };
                for (role, sender) in senders {
                    set_cw2(&mut w.app, &minter, other.as_deref().unwrap_or(&name), &ver);
                    one(cx, &mut w, &migrate, "governed", role, &sender, &json!({}), false, acc, &label);
                }
            }
        }
        set_cw2(&mut w.app, &minter, &name, &cur);
    }
    // ---------------- factories: migrate without a parameter message must leave Params
    // alone; with one, only the wasm admin gets through and that is the documented exception
    for fk in FactoryKind::ALL {
        let mut w = factory_migrate_world(fk)?;
        let factory = w.target.clone();
        let (name, cur) = get_cw2(&w.app, &factory);
        let explicit = sudo_shaped(CK::Factory(fk))[0].1["update_params"].clone();
        for (ver, other, acc) in versions(&cur) {
            let label = format!("cw2=({}, {})", other.clone().unwrap_or_else(|| name.clone()), ver);
            for (role, sender) in w.roles.clone() {
                set_cw2(&mut w.app, &factory, other.as_deref().unwrap_or(&name), &ver);
                one(cx, &mut w, &migrate, "governed", &role, &sender, &Value::Null, false, acc, &label);
            }
        }
        for (role, sender) in w.roles.clone() {
            if role == "wasm-admin" {
                continue;
            }
            set_cw2(&mut w.app, &factory, &name, "3.0.0");
            one(cx, &mut w, &migrate, "governed", &role, &sender, &explicit, true, true, "with an explicit parameter message");
        }
        set_cw2(&mut w.app, &factory, &name, "3.0.0");
        one(cx, &mut w, &migrate, "governed", "wasm-admin", "fadmin", &explicit, true, true, "with an explicit parameter message");
    }
    // ---------------- the other contracts with a migrate entry point: only the wasm admin,
    // and nothing the principal queries show may move
    let others = [
        CK::Coll(CollKind::Updatable),
        CK::Coll(CollKind::Metadata),
        CK::Coll(CollKind::Nt),
        CK::Wl(WlKind::Merkle),
        CK::Wl(WlKind::TieredMerkle),
        CK::Splits(true),
        CK::Splits(false),
    ];
    for ck in others {
        let states: Vec<&str> = match ck {
            CK::Coll(_) => vec!["fresh", "creator-handover"],
            CK::Wl(_) => vec!["fresh", "frozen"],
            _ => vec!["fresh"],
        };
        for st in states {
            let mut w = build(ck, st)?;
            let target = w.target.clone();
            let (name, cur) = get_cw2(&w.app, &target);
            let admin = w.wasm_admin.clone().unwrap_or_default();
            for (ver, other, _) in versions(&cur) {
                let label = format!("cw2=({}, {})", other.clone().unwrap_or_else(|| name.clone()), ver);
                for (role, sender) in [("stranger", "stranger".to_string()), ("new-creator", "creator2".to_string()), ("wasm-admin", admin.clone())] {
                    set_cw2(&mut w.app, &target, other.as_deref().unwrap_or(&name), &ver);
                    // which stored pairs each of these contracts accepts is C20's subject: not asserted here
                    one(cx, &mut w, &migrate, st, role, &sender, &json!({}), false, false, &label);
                }
            }
        }
    }
    Ok(())
}

/// random interleavings of the messages whose outcome Auth.v decides completely
fn run_history(cx: &mut Ctx, rng: &mut Rng, ck: CK, steps: usize) -> Result<(), String> {
    let mut w = build(ck, "fresh")?;
    let init = observe(&mut w);
    let mut terms = vec![];
    let mut cur = init.clone();
    for _ in 0..steps {
        if rng.chance(1, 6) {
            let t = chain::now(&w.app) + rng.range(1, 40) * S;
            chain::set_time(&mut w.app, t);
        }
        if let CK::Splits(_) = ck {
            chain::mint_coins(&mut w.app, w.target.as_str(), 3_000_000, NATIVE);
        }
        let msgs: Vec<Msg> = messages(&mut w).into_iter().filter(|m| m.complete).collect();
        if msgs.is_empty() {
            return Ok(());
        }
        let m = &msgs[rng.below(msgs.len() as u64) as usize];
        let roles = w.roles.clone();
        // the principals of the fresh state come last in the role list: favour them
        let pick = if rng.chance(3, 5) { roles.len() - 1 - rng.below(4.min(roles.len() as u64)) as usize } else { rng.below(roles.len() as u64) as usize };
        let (role, sender) = roles[pick].clone();
        let pre = w.snapshot();
        let env = w.env_coq();
        let funds = if m.funds > 0 { vec![coin(m.funds, NATIVE)] } else { vec![] };
        let target = w.target.clone();
        let r = exec_json(&mut w.app, &sender, &target, &m.json, &funds);
        let post = observe(&mut w);
        cx.rep.evaluations += 1;
        cx.rep.bump(&format!("{}|history:{}|{}", ck.contract(), m.kind, if r.is_ok() { "ok" } else { "err" }));
        if r.is_err() && (w.snapshot() != pre || post != cur) {
            let row = RowId { ck, state: "history".into(), kind: m.kind.to_string(), role: Some(role.clone()) };
            cx.violation(
                format!("C05:{}:{}:rejected-call-changed-state", ck.contract(), m.kind),
                format!("{} history: {} by {} was rejected but state changed", ck.name(), m.json, role),
                &row,
            );
        }
        terms.push(format!("mkH {} {} {} {} {}", env, w.ids.id(&sender), m.coq, coq_bool(r.is_ok()), post));
        cur = post;
    }
    cx.cases.push(format!("CHist {} {}", init, coq_list(&terms)));
    Ok(())
}

// ------------------------------------------------------------------ sg-eth-airdrop
mod airdrop {
    use super::*;
    use ethers_core::k256::ecdsa::SigningKey;
    use ethers_core::rand::thread_rng;
    use ethers_signers::{LocalWallet, Signer, Wallet};

    pub const PLAINTEXT: &str = "My Stargaze address is {wallet} and I want a Winter Pal.";

    pub struct Drop {
        pub w: World,
        pub eth_addr: String,
        pub wallet: Wallet<SigningKey>,
    }

    pub fn sign(wallet: &Wallet<SigningKey>, stargaze_wallet: &str) -> String {
        let text = PLAINTEXT.replace("{wallet}", stargaze_wallet);
        let sig = async_std::task::block_on(wallet.sign_message(text)).unwrap();
        sig.to_string()
    }

    /// vending minter + plain whitelist whose admin list holds the airdrop contract + the
    /// airdrop contract (which instantiates its whitelist-immutable of eligible eth addresses)
    pub fn build() -> Result<Drop, String> {
        let mw = setup_minter_c05(MinterKind::Vending, |_, _| {})?;
        let mut app = mw.app;
        for a in ACCOUNTS {
            chain::mint_coins(&mut app, a, 1_000_000_000_000, NATIVE);
        }
        let wallet = LocalWallet::new(&mut thread_rng());
        let eth_addr = format!("{:?}", wallet.address());
        let wl_code = app.store_code(chain::whitelist());
        let imm_code = app.store_code(chain::whitelist_immutable());
        let air_code = app.store_code(chain::eth_airdrop());
        let now = chain::now(&app);
        // contracts so far: factory 0, minter 1, collection 2; next: whitelist 3, airdrop 4, immutable 5
        let airdrop_addr = "contract4";
        let (msg, fee) = wl_instantiate_json(WlKind::Plain, now + 10 * S, now + 90 * S, 50_000_000, &["creator", airdrop_addr], true);
        let wl = {
            use cw_multi_test::Executor;
            app.instantiate_contract(wl_code, Addr::unchecked("creator"), &msg, &[coin(fee, NATIVE)], "wl", None).map_err(|e| format!("{:#}", e))?
        };
        exec_json(&mut app, "creator", &mw.minter, &json!({"set_whitelist": {"whitelist": wl}}), &[]).map_err(|e| format!("set_whitelist: {}", e))?;
        let imsg = json!({"admin": "airadmin", "claim_msg_plaintext": PLAINTEXT, "airdrop_amount": "30000000",
            "addresses": [eth_addr], "whitelist_code_id": imm_code, "minter_address": mw.minter, "per_address_limit": 1});
        let air = {
            use cw_multi_test::Executor;
            app.instantiate_contract(air_code, Addr::unchecked("airadmin"), &imsg, &[coin(100_000_000, NATIVE)], "airdrop", None)
                .map_err(|e| format!("airdrop instantiate: {:#}", e))?
        };
        if air.as_str() != airdrop_addr {
            return Err(format!("airdrop landed at {}", air));
        }
        chain::mint_coins(&mut app, air.as_str(), 1_000_000_000, NATIVE);
        let w = World {
            app,
            ck: CK::Airdrop,
            state: "fresh".into(),
            target: air.clone(),
            roles: vec![
                ("stranger".to_string(), "stranger".to_string()),
                ("airdrop-admin".to_string(), "airadmin".to_string()),
                ("minter-payment-address".to_string(), PAYADDR.to_string()),
                ("creator".to_string(), "creator".to_string()),
                ("minter-contract".to_string(), mw.minter.to_string()),
                ("airdrop-itself".to_string(), air.to_string()),
                ("claim-wallet".to_string(), "buyer1".to_string()),
            ],
            contracts: vec![air, wl, mw.minter, mw.factory, mw.collection, Addr::unchecked("contract5")],
            accounts: ACCOUNTS.iter().map(|s| s.to_string()).collect(),
            principals: BTreeMap::from([(P::ClaimWallet, vec!["buyer1".to_string()])]),
            aux: BTreeMap::new(),
            ids: fresh_ids(),
            gov_status: None,
            gov_params: None,
            wasm_admin: None,
        };
        Ok(Drop { w, eth_addr, wallet })
    }
}

fn run_airdrop(cx: &mut Ctx) -> Result<(), String> {
    // the signature names buyer1: only buyer1 may claim with it
    let mut d = airdrop::build()?;
    let sig = airdrop::sign(&d.wallet, "buyer1");
    let msg = json!({"claim_airdrop": {"eth_address": d.eth_addr, "eth_sig": sig}});
    let signed = d.w.ids.id("buyer1");
    let env = d.w.env_coq();
    let mut terms = vec![];
    let mut exercised = false;
    for (role, sender) in d.w.roles.clone() {
        let principal = sender == "buyer1";
        let pre = d.w.snapshot();
        let target = d.w.target.clone();
        let r = exec_json(&mut d.w.app, &sender, &target, &msg, &[]);
        cx.rep.evaluations += 1;
        cx.rep.bump(&format!("sg-eth-airdrop|claim_airdrop|{}|{}", if principal { "principal" } else { "outsider" }, if r.is_ok() { "ok" } else { "err" }));
        cx.nontrivial.insert(format!("sg-eth-airdrop|claim|{}", role));
        let row = RowId { ck: CK::Airdrop, state: "fresh".into(), kind: "claim_airdrop".into(), role: Some(role.clone()) };
        if r.is_ok() && !principal {
            cx.violation(
                format!("C05:sg-eth-airdrop:claim_airdrop:{}-succeeded", role),
                format!("sg-eth-airdrop: a claim signed for buyer1 was accepted from {} ({})", role, sender),
                &row,
            );
        }
        if r.is_err() && d.w.snapshot() != pre {
            cx.violation("C05:sg-eth-airdrop:claim_airdrop:rejected-call-changed-state".into(), "rejected claim changed state".into(), &row);
        }
        if principal && r.is_ok() {
            exercised = true;
        }
        if principal && r.is_err() {
            cx.rep.notes.push(format!("unexercised: sg-eth-airdrop claim by the signed wallet failed: {}", r.as_ref().err().unwrap()));
        }
        terms.push(format!("mkCall {} {} AAirdrop", d.w.ids.id(&sender), coq_bool(r.is_ok())));
    }
    cx.exercised.insert(("sg-eth-airdrop".into(), "claim_airdrop".into()), exercised);
    cx.cases.push(format!("CRow {} AAirdrop (AClaim {}) {} {}", env, signed, coq_bool(exercised), coq_list(&terms)));
    Ok(())
}

// ------------------------------------------------------------------ vending minters: full handler model
/// Sender sweeps over the ten reserved handlers of each of the six vending minters in the
/// sale world (payment address set), before and after the start; every step is printed
/// as a SaleCorr `sstep`, so MinterVending.step — the model the Part 1 theorems are about
/// — is compared with the real handler on exactly these calls.
fn run_vending_handler_tie(cx: &mut Ctx, sale_cases: &mut Vec<String>) {
    use crate::w_sale::{self as ws, Op, SaleCfg, SaleWorld};
    let native = |a: u128| vec![(NATIVE.to_string(), a)];
    for variant in 0..6usize {
        let mut cfg = SaleCfg::basic(variant);
        cfg.payment_address = true;
        let mut w = match SaleWorld::new(cfg) {
            Ok(w) => w,
            Err(e) => {
                cx.rep.notes.push(format!("unexercised: sale world for variant {}: {}", variant, e));
                continue;
            }
        };
        let vname = w.v.name;
        let flex = vname.contains("flex");
        let init = w.init_state_coq();
        let init_bal = w.balances_coq();
        let who: [(&str, &str); 5] =
            [("stranger", ws::STRANGER), ("buyer", ws::BUYERS[0]), ("second-buyer", ws::BUYERS[1]), ("payment-address", ws::PAYADDR), ("creator", ws::CREATOR)];
        let mk = |kind: &str, w: &str| -> Op {
            let who = w.to_string();
            match kind {
                "update_mint_price" => Op::UpdateMintPrice { who, price: 90 },
                "update_mint_price_lower" => Op::UpdateMintPrice { who, price: 85 },
                "update_start_time" => Op::UpdateStartTime { who, secs: 3100, nanos: 0 },
                "update_start_trading_time" => Op::UpdateStartTradingTime { who, t: Some((3300, 0)) },
                "update_start_trading_time_none" => Op::UpdateStartTradingTime { who, t: None },
                "update_per_address_limit" => Op::UpdatePerAddressLimit { who, limit: 2 },
                "set_whitelist" => Op::SetWhitelist { who, kind: if flex { 2 } else { 0 }, start_in: 500, end_in: 900, price: 60, ibc: false },
                "mint_to" => Op::MintTo { who, recipient: ws::BUYERS[1].into(), funds: vec![] },
                "mint_for" => Op::MintFor { who, token_id: 3, recipient: ws::BUYERS[1].into(), funds: vec![] },
                "mint_for_later" => Op::MintFor { who, token_id: 5, recipient: ws::BUYERS[1].into(), funds: vec![] },
                "update_discount_price" => Op::UpdateDiscountPrice { who, price: 80 },
                "remove_discount_price" => Op::RemoveDiscountPrice { who },
                "burn_remaining" => Op::BurnRemaining { who },
                _ => unreachable!(),
            }
        };
        let phases: [(u64, &[&str]); 3] = [
            (100, &["update_mint_price", "update_start_time", "update_start_trading_time", "update_per_address_limit", "set_whitelist", "mint_to", "mint_for"]),
            (3200, &["update_discount_price", "update_mint_price_lower", "update_start_trading_time_none", "update_per_address_limit", "mint_to", "mint_for_later", "set_whitelist"]),
            (3200 + 4000, &["remove_discount_price", "burn_remaining"]),
        ];
        let mut steps = vec![];
        for (at, kinds) in phases {
            w.run(&Op::At { secs: at, nanos: 0 });
            let _ = native(0);
            for kind in kinds {
                for (role, addr) in who {
                    let op = mk(kind, addr);
                    let out = w.run(&op);
                    if !out.is_minter_step {
                        continue;
                    }
                    cx.rep.evaluations += 1;
                    let principal = addr == ws::CREATOR;
                    cx.rep.bump(&format!("{}|handler-model:{}|{}|{}", vname, kind, if principal { "principal" } else { "outsider" }, if out.ok { "ok" } else { "err" }));
                    cx.nontrivial.insert(format!("{}|handler-model|{}|{}|{}", vname, at, kind, role));
                    let base_kind = kind.trim_end_matches("_lower").trim_end_matches("_later").trim_end_matches("_none");
                    let row = RowId { ck: CK::Minter(MinterKind::ALL[variant + 1]), state: if at == 100 { "fresh".into() } else { "started".into() }, kind: base_kind.to_string(), role: Some(role.to_string()) };
                    if out.ok && !principal {
                        cx.violation(
                            format!("C05:{}:{}:{}-succeeded", vname, base_kind, role),
                            format!("{} (sale world, t0+{}s): {:?} succeeded, but the operation is reserved to the minter admin (creator)", vname, at, op),
                            &row,
                        );
                    }
                    if let Some(e) = &out.err {
                        if e.starts_with("STATE-CHANGED-ON-FAILURE") {
                            cx.violation(format!("C05:{}:{}:rejected-call-changed-state", vname, base_kind), format!("{}: {:?}: {}", vname, op, e), &row);
                        }
                    }
                    if principal {
                        let e = cx.exercised.entry((format!("{} (handler model)", vname), base_kind.to_string())).or_insert(false);
                        *e = *e || out.ok;
                    }
                    if let Some(s) = out.coq {
                        steps.push(s);
                    }
                }
            }
        }
        sale_cases.push(ws::case_coq(&mut w, &init, &init_bal, &steps));
    }
}

/// which states get the full role sweep for a message in the quick tier; elsewhere the
/// principals and two outsiders are tried
fn full_sweep(ck: CK, state: &str, kind: &str, thorough: bool) -> bool {
    if thorough {
        return true;
    }
    match ck {
        CK::Minter(_) => match state {
            "fresh" => !matches!(kind, "update_discount_price" | "mint" | "burn_remaining_oe"),
            "started" => matches!(kind, "update_discount_price" | "remove_discount_price" | "mint" | "mint_to" | "mint_for" | "update_mint_price"),
            "ended" => kind == "burn_remaining",
            _ => matches!(kind, "mint" | "update_start_trading_time" | "mint_to"),
        },
        CK::Coll(_) => match state {
            "fresh" => true,
            "creator-handover" => matches!(kind, "update_collection_info" | "freeze_collection_info" | "freeze_token_metadata" | "update_token_metadata"),
            "info-frozen" => kind.starts_with("update_collection_info"),
            "ownership-pending" | "ownership-pending-expired" => kind.starts_with("update_ownership") || kind == "mint",
            "ownership-pending-before-deadline" | "ownership-pending-height" | "ownership-pending-height-expired" => kind == "update_ownership_accept",
            "ownership-accepted" | "ownership-renounced" => kind.starts_with("update_ownership") || kind == "mint" || kind == "update_start_trading_time",
            "metadata-frozen" => kind == "update_token_metadata" || kind == "freeze_token_metadata",
            "updatable-disabled" => kind == "enable_updatable" || kind == "update_token_metadata",
            _ => false,
        },
        CK::Wl(_) => match state {
            "fresh" | "admins-updated" => true,
            "frozen" | "instantiated-immutable" => matches!(kind, "update_admins" | "freeze" | "add_members"),
            _ => matches!(kind, "update_end_time" | "add_members"),
        },
        _ => true,
    }
}

fn all_rows(thorough: bool) -> Vec<(CK, String, String)> {
    let mut rows = vec![];
    for ck in CK::all() {
        if ck == CK::Airdrop {
            continue;
        }
        for st in states(ck, thorough) {
            // message kinds do not depend on the state
            let kinds: Vec<&'static str> = match build(ck, "fresh") {
                Ok(mut w) => messages(&mut w).into_iter().map(|m| m.kind).collect(),
                Err(e) => panic!("C05: world {} does not build: {}", ck.name(), e),
            };
            for k in kinds {
                rows.push((ck, st.to_string(), k.to_string()));
            }
        }
    }
    rows
}

pub fn run(a: &Args) {
    let out = OutDir::new(&a.out);
    let mut cx = Ctx {
        out: &out,
        rep: Report { property: "C05".into(), tier: a.tier.clone(), seed: a.seed, ..Default::default() },
        cases: vec![],
        nviol: 0,
        seen_keys: BTreeSet::new(),
        nontrivial: BTreeSet::new(),
        exercised: BTreeMap::new(),
        verbose: a.replay.is_some(),
    };
    let mut rng = Rng::new(a.seed);

    if let Some(p) = &a.replay {
        let v: Value = serde_json::from_str(&std::fs::read_to_string(p).expect("replay file")).expect("replay json");
        let row: RowId = serde_json::from_value(v["row"].clone()).expect("replay row");
        println!("replaying {} / state {} / message {}", row.ck.name(), row.state, row.kind);
        let r = match (row.ck, row.kind.as_str()) {
            (CK::Airdrop, _) => run_airdrop(&mut cx).map(|_| None),
            (_, "instantiate") => run_instantiate_probes(&mut cx).map(|_| None),
            (_, "migrate") => run_migrate(&mut cx, true).map(|_| None),
            (_, "create_minter") if row.role.as_deref() == Some("payer") => run_creation_checks(&mut cx).map(|_| None),
            (ck, k) if k.starts_with("sudo_") => run_sudo_shaped(&mut cx, ck).map(|_| None),
            (ck, _) if row.state == "history" => run_history(&mut cx, &mut rng, ck, 60).map(|_| None),
            (ck, k) => run_row(&mut cx, ck, &row.state, k, true),
        };
        match r {
            Ok(Some(o)) => {
                for c in &o.calls {
                    println!(
                        "  {:<24} {:<12} {} -> {}{}",
                        c.role,
                        c.sender,
                        if c.principal { "(principal)" } else { "" },
                        if c.ok { "ok".to_string() } else { "err".to_string() },
                        c.err.as_ref().map(|e| format!("  [{}]", e.replace(char::from(10), " ").chars().rev().take(110).collect::<String>().chars().rev().collect::<String>())).unwrap_or_default()
                    );
                }
                cx.cases.push(o.coq);
            }
            Ok(None) => {}
            Err(e) => println!("replay could not run: {}", e),
        }
        cx.rep.distinct_nontrivial = cx.nontrivial.len() as u64;
        cx.rep.rule = "replay".into();
        let Ctx { mut rep, cases, .. } = cx;
        out.write_cases("C05", "From LP Require Import Auth C05Corr.", "c05_case", "c05_check", &cases, 1, &mut rep);
        out.finish(&rep);
        println!("C05 replay: {} calls, {} violations", rep.evaluations, rep.violations.len());
        return;
    }

    let thorough = a.thorough();
    // ---- A. the table
    let rows = all_rows(thorough);
    let mut nrows = 0;
    let mut handover_obs: BTreeSet<&'static str> = BTreeSet::new();
    for (ck, st, kind) in &rows {
        let full = full_sweep(*ck, st, kind, thorough);
        match run_row(&mut cx, *ck, st, kind, full) {
            Ok(Some(o)) => {
                nrows += 1;
                if cx.rep.samples.len() < 3 && nrows % 97 == 5 {
                    cx.rep.samples.push(json!({"contract": ck.name(), "state": st, "message": kind, "reserved_to": format!("{:?}", o.reserved),
                        "calls": o.calls.iter().map(|c| json!({"role": c.role, "sender": c.sender, "principal": c.principal, "ok": c.ok})).collect::<Vec<_>>()}));
                }
                if let (CK::Minter(mk), "creator-handover", Some(P::MinterAdmin)) = (*ck, st.as_str(), o.reserved) {
                    let ok_of = |role: &str| o.calls.iter().find(|c| c.role == role).map(|c| c.ok);
                    if o.exercised && ok_of("creator") == Some(true) && ok_of("new-creator") == Some(false) {
                        handover_obs.insert(mk.name());
                    }
                }
                cx.cases.push(o.coq);
            }
            Ok(None) => {}
            Err(e) => cx.rep.notes.push(format!("row {} / {} / {} could not be built: {}", ck.name(), st, kind, e)),
        }
    }
    // ---- (i) governance messages through execute
    for ck in CK::all() {
        if let Err(e) = run_sudo_shaped(&mut cx, ck) {
            cx.rep.notes.push(format!("sudo-shaped probes on {}: {}", ck.name(), e));
        }
    }
    // ---- (ii) instantiation
    if let Err(e) = run_instantiate_probes(&mut cx) {
        cx.rep.notes.push(format!("instantiate probes: {}", e));
    }
    if let Err(e) = run_creation_checks(&mut cx) {
        cx.rep.notes.push(format!("creation checks: {}", e));
    }
    // ---- migrate, the other user message
    if let Err(e) = run_migrate(&mut cx, thorough) {
        cx.rep.notes.push(format!("migrate rows: {}", e));
    }
    // ---- sg-eth-airdrop
    if let Err(e) = run_airdrop(&mut cx) {
        cx.rep.notes.push(format!("unexercised: sg-eth-airdrop world: {}", e));
    }
    // ---- random interleavings of hand-over operations
    let (nh, len) = if thorough { (40, 60) } else { (3, 30) };
    for ck in CK::all() {
        if matches!(ck, CK::Coll(_) | CK::Wl(_) | CK::Splits(_)) {
            for _ in 0..nh {
                if let Err(e) = run_history(&mut cx, &mut rng, ck, len) {
                    cx.rep.notes.push(format!("history on {}: {}", ck.name(), e));
                }
            }
        }
    }
    // ---- Part 1 tie: the reserved handlers of the vending minters against MinterVending.step
    let mut sale_cases = vec![];
    run_vending_handler_tie(&mut cx, &mut sale_cases);
    // ---- rows whose principal never succeeded teach nothing: say so
    let un: Vec<String> = cx.exercised.iter().filter(|(_, v)| !**v).map(|((c, m), _)| format!("{}:{}", c, m)).collect();
    cx.rep.notes.push(format!(
        "{} table rows, {} reserved (contract, message) pairs, {} of them never exercised by a principal in any state: {:?}",
        nrows,
        cx.exercised.len(),
        un.len(),
        un
    ));
    cx.rep.notes.push(
        "open by design, not reported (DESIGN §7 C05): IncreaseMemberLimit on the four list whitelists has no admin check (anyone may pay to raise capacity); \
         Mint, Purge and Shuffle on minters; token-merge ReceiveNft (gated on the sending collection, not on a role); ApproveAll/RevokeAll (the sender's own tokens); \
         CreateMinter on factories; sg721 Extension panics (todo!/unreachable!) for every sender"
            .into(),
    );
    cx.rep.notes.push(format!(
        "observation (not a violation: the sentence reserves these to the minter admin): after the collection's creator is handed over with \
         UpdateCollectionInfo{{creator}}, the admin of a vending / open-edition / token-merge minter stays the account it was created with - the old \
         creator's reserved calls still succeed and the new creator's are refused (seen on {:?}); only the base minter follows the collection's current creator",
        handover_obs
    ));
    cx.rep.distinct_nontrivial = cx.nontrivial.len() as u64;
    cx.rep.rule = "distinct (contract, state, message, role) calls that succeeded or were rejected for a reason other than parsing / attached funds".into();
    let Ctx { mut rep, cases, .. } = cx;
    out.write_cases("C05", "From LP Require Import Auth C05Corr.", "c05_case", "c05_check", &cases, 5, &mut rep);
    out.write_cases("C05v", "From LP Require Import Num Pay Sg1 Bank MinterVending SaleCorr.", "scase", "sale_check", &sale_cases, 2, &mut rep);
    out.finish(&rep);
    println!("C05: {} rows, {} cases, {} calls, {} violations", nrows, cases.len(), rep.evaluations, rep.violations.len());
}
