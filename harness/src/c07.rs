//! C07 — price rules: floor, no post-launch increase, honest price query (vending family).
//! Sale histories of UpdateMintPrice / UpdateDiscountPrice / RemoveDiscountPrice /
//! SetWhitelist / governance minimum-price changes / mints on the six vending minters,
//! at the exact instants start±1ns, last discount change + 12h (−1ns, 0, +1ns) and + 1h
//! (−1ns, 0, +1ns), with prices at min−1/min/min+1 and old−1/old/old+1; after price
//! changes a *probe* compares the MintPrice query with real mints at quoted−1, quoted+1,
//! every other advertised price, and exactly the quote.  Creation probes send
//! create_minter to the real vending factory with the price / denom at the boundary.
//! The monitors evaluate the property text on Config / MintPrice / factory Params read
//! before and after each step; every minter step is also printed for the Coq model.
use crate::chain;
use crate::util::*;
use crate::oe_world::*;
use crate::w_sale::*;
use crate::Args;
use cosmwasm_std::coin;
use serde::{Deserialize, Serialize};
use serde_json::{json, Value};
use std::collections::{BTreeMap, BTreeSet};

const S: u64 = 1_000_000_000;
const H12: u64 = 43_200 * S; // 12 hours, from the property text
const H1: u64 = 3_600 * S; // 1 hour, from the property text
const KEY_D4: &str = "C07:discount-above-lowered-price";
const KEY_D8: &str = "C07:non-native-min-price-governance";

const KEY_GOV_FLOOR: &str = "C07:price-below-governance-minimum";
const KEY_GOV_PARAMS: &str = "C07:factory-minimum-differs-from-governance";

/// One governance proposal (sudo UpdateParams on the factory): any subset of the optional
/// fields.  Sent by this harness itself so that every field of the message can be set.
#[derive(Clone, Debug, Default, Serialize, Deserialize, PartialEq, Eq)]
pub struct Gov {
    /// (amount, denom is IBC)
    pub min_price: Option<(u128, bool)>,
    pub creation_fee: Option<u128>,
    pub mint_fee_bps: Option<u64>,
    pub offset: Option<u64>,
    pub airdrop_price: Option<u128>,
    pub airdrop_fee_bps: Option<u64>,
    pub max_pal: Option<u32>,
    pub max_token_limit: Option<u32>,
    /// vending factory only
    pub shuffle_fee: Option<u128>,
}

/// The harness's own record of what governance last decided about the minimum mint price:
/// the value of the factory's instantiate message, then the last value supplied by a
/// proposal that was accepted (a proposal that does not mention it keeps it).  Never read
/// back from the factory.
#[derive(Clone, Debug)]
pub struct Ledger {
    pub min: u128,
    pub denom: String,
}

fn coinj(amount: u128, denom: &str) -> Value {
    json!({"amount": amount.to_string(), "denom": denom})
}

fn gov_msg(g: &Gov, vending: bool, airdrop_denom: &str) -> Value {
    let ext = if vending {
        json!({"max_token_limit": g.max_token_limit, "max_per_address_limit": g.max_pal,
               "airdrop_mint_price": g.airdrop_price.map(|p| coinj(p, NATIVE)),
               "airdrop_mint_fee_bps": g.airdrop_fee_bps,
               "shuffle_fee": g.shuffle_fee.map(|p| coinj(p, NATIVE))})
    } else {
        json!({"max_token_limit": g.max_token_limit, "max_per_address_limit": g.max_pal,
               "min_mint_price": null,
               "airdrop_mint_price": g.airdrop_price.map(|p| coinj(p, airdrop_denom)),
               "airdrop_mint_fee_bps": g.airdrop_fee_bps,
               "dev_fee_address": null})
    };
    json!({"update_params": {
        "code_id": null, "add_sg721_code_ids": null, "rm_sg721_code_ids": null, "frozen": null,
        "creation_fee": g.creation_fee.map(|f| coinj(f, NATIVE)),
        "min_mint_price": g.min_price.map(|(p, ibc)| coinj(p, denom_name(ibc))),
        "mint_fee_bps": g.mint_fee_bps, "max_trading_offset_secs": g.offset,
        "extension": ext}})
}

/// bookkeeping shared by the vending and open-edition drivers after a proposal was sent:
/// updates the ledger, returns the Coq `CGov` case and the violation if the factory now
/// reports another minimum than governance decided
fn gov_after(ledger: &mut Ledger, g: &Gov, ok: bool, params_after: &Value, denoms: &mut Ids) -> (String, Option<String>) {
    let before = format!("(mkCoin {} {})", denoms.id(&ledger.denom), ledger.min);
    let supplied = match g.min_price {
        Some((p, ibc)) => format!("(Some (mkCoin {} {}))", denoms.id(denom_name(ibc)), p),
        None => "None".to_string(),
    };
    if ok {
        if let Some((p, ibc)) = g.min_price {
            ledger.min = p;
            ledger.denom = denom_name(ibc).to_string();
        }
    }
    let rep_min = amount_of(&params_after["min_mint_price"]);
    let rep_denom = denom_of(&params_after["min_mint_price"]);
    let coq = format!("(CGov {} {} {} (mkCoin {} {}))", before, supplied, coq_bool(ok), denoms.id(&rep_denom), rep_min);
    let viol = if rep_min != ledger.min || rep_denom != ledger.denom {
        Some(format!(
            "after governance proposal {:?} ({}): the factory reports a minimum of {} {} but governance last set {} {}",
            g,
            if ok { "accepted" } else { "rejected" },
            rep_min,
            rep_denom,
            ledger.min,
            ledger.denom
        ))
    } else {
        None
    };
    (coq, viol)
}

/// a random proposal: the minimum (around `min`) in 3 of 4, each other field in 1 of 4
fn gen_gov(rng: &mut Rng, min_choices: &[u128], vending: bool) -> Gov {
    let mut g = Gov::default();
    if rng.chance(3, 4) {
        g.min_price = Some((*rng.pick(min_choices), rng.chance(1, 12)));
    }
    if rng.chance(1, 3) {
        g.creation_fee = Some(*rng.pick(&[5_000u128, 6_000, 1, 4_999]));
    }
    if rng.chance(1, 5) {
        g.mint_fee_bps = Some(*rng.pick(&[500u64, 1000, 2000]));
    }
    if rng.chance(1, 5) {
        g.offset = Some(*rng.pick(&[604_800u64, 86_400]));
    }
    if rng.chance(1, 6) {
        g.airdrop_price = Some(*rng.pick(&[10u128, 40, 41]));
    }
    if rng.chance(1, 6) {
        g.airdrop_fee_bps = Some(*rng.pick(&[5000u64, 10000]));
    }
    if rng.chance(1, 6) {
        g.max_pal = Some(*rng.pick(&[10u32, 50, 40]));
    }
    if rng.chance(1, 6) {
        g.max_token_limit = Some(*rng.pick(&[100u32, 10000, 5000]));
    }
    if vending && rng.chance(1, 6) {
        g.shuffle_fee = Some(*rng.pick(&[500u128, 600]));
    }
    g
}

#[derive(Clone, Debug, Serialize, Deserialize, PartialEq, Eq)]
pub enum Step {
    Op(Op),
    /// governance proposal on the factory
    Gov(Gov),
    /// move the clock to t0 + ns (absolute, only forward)
    AtNs { ns: u64 },
    /// read MintPrice; `who` mints attaching quoted-1, quoted+1, every other advertised
    /// price (public / discount / whitelist), and finally exactly the quote
    Probe { who: String },
}

#[derive(Clone, Debug, Serialize, Deserialize)]
pub struct SaleCase {
    pub variant: usize,
    pub ibc: bool,
    pub min_price: u128,
    pub price: u128,
    pub start_in: u64,
    pub num_tokens: u32,
    pub pal: u32,
    pub wl: bool,
    pub wl_price: u128,
    /// whitelist window relative to creation in seconds (default: inside the first two thirds
    /// of the time before the public start); may overlap the public sale
    #[serde(default)]
    pub wl_window: Option<(u64, u64)>,
    /// tiered kind (one stage) instead of the plain / flex kind
    #[serde(default)]
    pub wl_tiered: bool,
    pub steps: Vec<Step>,
}

#[derive(Clone, Debug, Serialize, Deserialize)]
pub struct CreateCase {
    pub variant: usize,
    pub ibc: bool,
    pub min_price: u128,
    /// price the world's own minter is created with (SaleWorld::new must fail iff below the minimum)
    pub world_price: u128,
    /// governance change of the minimum before the probes
    pub sudo_min: Option<u128>,
    /// ... in the same proposal as a new creation fee
    #[serde(default)]
    pub sudo_fee: Option<u128>,
    /// (price, denom is IBC) of further create_minter messages sent to the same factory
    pub probes: Vec<(u128, bool)>,
}

#[derive(Clone, Debug, Serialize, Deserialize)]
pub enum Case {
    Sale(SaleCase),
    Create(CreateCase),
    OeSale(OeSaleCase),
    OeCreate(OeCreateCase),
}

// ---- part 2: open edition ----
#[derive(Clone, Debug, Serialize, Deserialize, PartialEq, Eq)]
pub enum OStep {
    Op(OeOp),
    Gov(Gov),
    AtNs { ns: u64 },
    /// read MintPrice; `who` mints attaching quoted-1, quoted+1, every other advertised
    /// price (public / whitelist), and finally exactly the quote
    Probe { who: String },
}

#[derive(Clone, Debug, Serialize, Deserialize)]
pub struct OeSaleCase {
    pub cfg: OeCfg,
    pub steps: Vec<OStep>,
}

#[derive(Clone, Debug, Serialize, Deserialize)]
pub struct OeCreateCase {
    pub variant: usize,
    pub ibc: bool,
    pub min_price: u128,
    pub world_price: u128,
    pub world_capped: bool,
    pub sudo_min: Option<u128>,
    #[serde(default)]
    pub sudo_fee: Option<u128>,
    /// (price, denom is IBC, has a token cap) of further create_minter messages
    pub probes: Vec<(u128, bool, bool)>,
}

pub struct CaseResult {
    pub coq: Vec<String>,
    /// cases of the second set (`oecase`, checked by sale_oe_check)
    pub coq_oe: Vec<String>,
    /// further cases of the first set produced inside a sale history (governance proposals)
    pub coq_extra: Vec<String>,
    pub steps: u64,
    pub ok_steps: u64,
    pub violations: Vec<(String, String, usize)>, // (key, what, index of the step that showed it)
    pub hist: BTreeMap<String, u64>,
    pub executed: Vec<Step>,
    pub executed_oe: Vec<OStep>,
}

fn op_kind(op: &Op) -> &'static str {
    match op {
        Op::At { .. } => "at",
        Op::Mint { .. } => "mint",
        Op::MintM { .. } => "mint_merkle",
        Op::MintTo { .. } => "mint_to",
        Op::MintFor { .. } => "mint_for",
        Op::Purge { .. } => "purge",
        Op::Shuffle { .. } => "shuffle",
        Op::BurnRemaining { .. } => "burn_remaining",
        Op::UpdateMintPrice { .. } => "update_mint_price",
        Op::UpdateStartTime { .. } => "update_start_time",
        Op::UpdateStartTradingTime { .. } => "update_start_trading_time",
        Op::UpdatePerAddressLimit { .. } => "update_per_address_limit",
        Op::SetWhitelist { .. } => "set_whitelist",
        Op::UpdateDiscountPrice { .. } => "update_discount_price",
        Op::RemoveDiscountPrice { .. } => "remove_discount_price",
        Op::SudoParams { .. } => "sudo_params",
        Op::WlAddMember { .. } => "wl_add_member",
        Op::Migrate { .. } => "migrate",
        Op::Burn { .. } => "holder_burn",
        Op::TransferNft { .. } => "holder_transfer",
    }
}

fn denom_name(ibc: bool) -> &'static str {
    if ibc {
        IBC
    } else {
        NATIVE
    }
}

fn cfg_of(c: &SaleCase) -> SaleCfg {
    let mut cfg = SaleCfg::basic(c.variant);
    cfg.fp.min_price = c.min_price;
    cfg.fp.denom = denom_name(c.ibc).into();
    cfg.num_tokens = c.num_tokens;
    cfg.pal = c.pal;
    cfg.price = c.price;
    cfg.start_in_secs = c.start_in;
    if c.wl {
        cfg.wl = match (VARIANTS[c.variant].flex, c.wl_tiered) {
            (true, false) => WlKind::Flex,
            (true, true) => WlKind::TieredFlex,
            (false, false) => WlKind::Plain,
            (false, true) => WlKind::Tiered,
        };
        cfg.wl_price = c.wl_price;
        cfg.wl_windows = vec![c.wl_window.unwrap_or((c.start_in / 3, 2 * c.start_in / 3))];
        cfg.wl_limit = 3;
        cfg.wl_flex_count = 3;
    }
    cfg
}

fn amount_of(v: &Value) -> u128 {
    v["amount"].as_str().and_then(|s| s.parse().ok()).unwrap_or(0)
}
fn denom_of(v: &Value) -> String {
    v["denom"].as_str().unwrap_or("").to_string()
}

/// what the monitors read before a step
struct Before {
    now: u64,
    cfg: Value,
    min: Value,
    wl_active: bool,
}

/// Runs steps on a world and evaluates the property text on what the contracts answer.
/// Monitor state below is the monitors' own trace of the history (no model code).
pub struct Driver {
    pub w: SaleWorld,
    pub res: CaseResult,
    vname: &'static str,
    created_min_denom: String,
    gov_min_changed: bool,
    /// what governance last decided (independent of the factory's answers)
    pub ledger: Ledger,
    /// block time of the last accepted discount change (set or removal) in this history
    pub last_change: Option<u64>,
    /// discount standing according to the accepted operations seen
    standing_discount: Option<u128>,
    /// an accepted UpdateMintPrice went below the discount standing at that moment: (discount, new price)
    cut_below: Option<(u128, u128)>,
    /// public price observed at the first step at/after the start, and afterwards
    started_price: Option<u128>,
    pub mints_ok: BTreeMap<String, u32>,
    static_overcharge_reported: bool,
    /// public price according to the accepted price operations seen (creation value first)
    traced_price: u128,
}

impl Driver {
    pub fn new(w: SaleWorld) -> Driver {
        let vname = w.v.name;
        let created_min_denom = denom_of(&w.factory_params()["min_mint_price"]);
        let ledger = Ledger { min: w.cfg.fp.min_price, denom: w.cfg.fp.denom.clone() };
        let traced_price = amount_of(&w.minter_config()["mint_price"]);
        Driver {
            ledger,
            w,
            res: CaseResult { coq: vec![], coq_oe: vec![], coq_extra: vec![], steps: 0, ok_steps: 0, violations: vec![], hist: BTreeMap::new(), executed: vec![], executed_oe: vec![] },
            vname,
            created_min_denom,
            gov_min_changed: false,
            last_change: None,
            standing_discount: None,
            cut_below: None,
            started_price: None,
            mints_ok: BTreeMap::new(),
            static_overcharge_reported: false,
            traced_price,
        }
    }
    pub fn now(&self) -> u64 {
        chain::now(&self.w.app)
    }
    pub fn start(&self) -> u64 {
        self.w.minter_config()["start_time"].as_str().unwrap().parse().unwrap()
    }
    pub fn public_price(&self) -> u128 {
        amount_of(&self.w.minter_config()["mint_price"])
    }
    pub fn discount(&self) -> Option<u128> {
        let c = self.w.minter_config();
        c["discount_price"].get("amount").map(|_| amount_of(&c["discount_price"]))
    }
    pub fn min_price(&self) -> u128 {
        amount_of(&self.w.factory_params()["min_mint_price"])
    }
    fn violate(&mut self, key: &str, what: String) {
        let idx = self.res.executed.len().saturating_sub(1);
        self.res.violations.push((key.to_string(), format!("{}: {}", self.vname, what), idx));
    }
    fn wl_active_now(&self, cfg: &Value) -> bool {
        match cfg["whitelist"].as_str() {
            Some(a) => self
                .w
                .app
                .wrap()
                .query_wasm_smart::<Value>(a.to_string(), &json!({"config": {}}))
                .ok()
                .and_then(|v| v["is_active"].as_bool())
                .unwrap_or(false),
            None => false,
        }
    }
    fn before(&self) -> Before {
        let cfg = self.w.minter_config();
        let wl_active = self.wl_active_now(&cfg);
        Before { now: self.now(), min: self.w.factory_params()["min_mint_price"].clone(), cfg, wl_active }
    }
    /// D8 shape: factory created with a non-native minimum, governance has since replaced it
    /// by a native one, and the minter's new price is still in the creation denom
    fn is_d8_shape(&self, b: &Before, result_denom: &str) -> bool {
        self.created_min_denom != NATIVE
            && self.gov_min_changed
            && denom_of(&b.min) == NATIVE
            && result_denom == self.created_min_denom
            && denom_of(&b.cfg["mint_price"]) == self.created_min_denom
    }
    /// classification of "public buyer charged more than the public price"
    fn overcharge_key(&self, charged: u128, cfg_now: &Value) -> &'static str {
        let disc_now = cfg_now["discount_price"].get("amount").map(|_| amount_of(&cfg_now["discount_price"]));
        match self.cut_below {
            Some((d, p))
                if self.w.v.name.starts_with("vending-minter")
                    && charged == d
                    && disc_now == Some(d)
                    && self.standing_discount == Some(d)
                    && amount_of(&cfg_now["mint_price"]) <= p
                    && amount_of(&cfg_now["mint_price"]) < d =>
            {
                KEY_D4
            }
            _ => "C07:charged-above-public",
        }
    }

    /// one real operation + all monitors
    pub fn op(&mut self, op: &Op) -> bool {
        let b = self.before();
        // the cw2 version a migration will find
        let mig_version: Option<(u64, u64, u64)> = match op {
            Op::Migrate { stored, .. } => {
                let own = crate::w_migrate::get_cw2(&self.w.app, &self.w.minter);
                let v = match stored {
                    Some((_, v)) if v != "@own" => v.clone(),
                    Some(_) => self.w.own_cw2.1.clone(),
                    None => own.1,
                };
                parse_plain_version(&v)
            }
            _ => None,
        };
        let out = self.w.run(op);
        if let Op::Migrate { .. } = op {
            // documented initialisation: a contract migrated from a version below 3.9.0 gets its
            // discount cooldown anchor set to (now - 12 h), i.e. no earlier discount change counts
            if out.ok && mig_version.map(|v| v < (3, 9, 0)).unwrap_or(false) {
                self.last_change = None;
            }
        }
        if let Op::SudoParams { min_price: Some(m), .. } = op {
            if out.ok {
                self.gov_min_changed = true;
                self.ledger = Ledger { min: *m, denom: NATIVE.into() };
            }
        }
        if !out.is_minter_step {
            return out.ok;
        }
        self.res.steps += 1;
        if out.ok {
            self.res.ok_steps += 1;
        }
        *self.res.hist.entry(format!("{}:{}:{}", self.vname, op_kind(op), if out.ok { "ok" } else { "err" })).or_insert(0) += 1;
        if let Some(s) = out.coq {
            self.res.coq.push(s);
        }
        if let Some(e) = &out.err {
            if e.starts_with("STATE-CHANGED-ON-FAILURE") {
                self.violate("C07:failed-call-changed-state", format!("{:?}: {}", op, e));
            }
        }
        let a = self.w.minter_config();
        let admin = b.cfg["admin"].as_str().unwrap_or("").to_string();
        let start_b: u64 = b.cfg["start_time"].as_str().unwrap().parse().unwrap();
        let public_b = amount_of(&b.cfg["mint_price"]);
        let min_b = amount_of(&b.min);
        let min_denom_b = denom_of(&b.min);
        let unchanged_except = |fields: &[&str]| -> Option<String> {
            for k in ["admin", "mint_price", "discount_price", "start_time", "whitelist", "per_address_limit", "num_tokens"] {
                if !fields.contains(&k) && a[k] != b.cfg[k] {
                    return Some(format!("Config.{} changed from {} to {}", k, b.cfg[k], a[k]));
                }
            }
            None
        };
        if out.ok {
            match op {
                Op::UpdateMintPrice { who, price } => {
                    if *who != admin {
                        self.violate("C07:price-op-by-non-admin", format!("{:?} accepted from a non-admin", op));
                    }
                    if *price < min_b {
                        self.violate("C07:update-price-below-minimum", format!("UpdateMintPrice {} accepted under a factory minimum of {} {}", price, min_b, min_denom_b));
                    }
                    if *price < self.ledger.min {
                        let l = self.ledger.clone();
                        self.violate(KEY_GOV_FLOOR, format!("UpdateMintPrice {} accepted while governance last set the minimum to {} {} (the factory reports {} {})", price, l.min, l.denom, min_b, min_denom_b));
                    }
                    if b.now >= start_b && *price >= public_b {
                        self.violate(
                            "C07:price-not-lowered-after-start",
                            format!("UpdateMintPrice {} accepted at {} (start {}) while the public price was {}", price, b.now, start_b, public_b),
                        );
                    }
                    let res_denom = denom_of(&a["mint_price"]);
                    if amount_of(&a["mint_price"]) != *price || res_denom != denom_of(&b.cfg["mint_price"]) {
                        self.violate("C07:update-price-effect", format!("UpdateMintPrice {} accepted but Config.mint_price is {}", price, a["mint_price"]));
                    }
                    if let Some(e) = unchanged_except(&["mint_price"]) {
                        self.violate("C07:update-price-effect", format!("UpdateMintPrice {}: {}", price, e));
                    }
                    if res_denom != min_denom_b {
                        if self.is_d8_shape(&b, &res_denom) {
                            self.violate(KEY_D8, format!("UpdateMintPrice {} accepted: minter price {} {} under a factory minimum of {} {}", price, price, res_denom, min_b, min_denom_b));
                        } else {
                            self.violate("C07:price-denom-differs-from-minimum", format!("UpdateMintPrice {} accepted: price denom {} but the minimum in force is in {}", price, res_denom, min_denom_b));
                        }
                    }
                    if let Some(d) = self.standing_discount {
                        if *price < d {
                            self.cut_below = Some((d, *price));
                        }
                    }
                    self.traced_price = *price;
                }
                Op::UpdateDiscountPrice { who, price } => {
                    if *who != admin {
                        self.violate("C07:price-op-by-non-admin", format!("{:?} accepted from a non-admin", op));
                    }
                    if b.now < start_b {
                        self.violate("C07:discount-before-start", format!("UpdateDiscountPrice {} accepted at {} before the start {}", price, b.now, start_b));
                    }
                    if *price > public_b {
                        self.violate("C07:discount-above-public", format!("UpdateDiscountPrice {} accepted above the public price {}", price, public_b));
                    }
                    if *price < min_b {
                        self.violate("C07:discount-below-minimum", format!("UpdateDiscountPrice {} accepted under a factory minimum of {} {}", price, min_b, min_denom_b));
                    }
                    if *price < self.ledger.min {
                        let l = self.ledger.clone();
                        self.violate(KEY_GOV_FLOOR, format!("UpdateDiscountPrice {} accepted while governance last set the minimum to {} {} (the factory reports {} {})", price, l.min, l.denom, min_b, min_denom_b));
                    }
                    if let Some(l) = self.last_change {
                        if b.now < l + H12 {
                            self.violate(
                                "C07:discount-set-within-12h",
                                format!("UpdateDiscountPrice {} accepted {} ns after the previous discount change (12 h = {} ns)", price, b.now - l, H12),
                            );
                        }
                    }
                    let res_denom = denom_of(&a["discount_price"]);
                    if a["discount_price"].get("amount").is_none() || amount_of(&a["discount_price"]) != *price || res_denom != denom_of(&b.cfg["mint_price"]) {
                        self.violate("C07:update-discount-effect", format!("UpdateDiscountPrice {} accepted but Config.discount_price is {}", price, a["discount_price"]));
                    }
                    if let Some(e) = unchanged_except(&["discount_price"]) {
                        self.violate("C07:update-discount-effect", format!("UpdateDiscountPrice {}: {}", price, e));
                    }
                    if res_denom != min_denom_b {
                        if self.is_d8_shape(&b, &res_denom) {
                            self.violate(KEY_D8, format!("UpdateDiscountPrice {} accepted: discount {} {} under a factory minimum of {} {}", price, price, res_denom, min_b, min_denom_b));
                        } else {
                            self.violate("C07:price-denom-differs-from-minimum", format!("UpdateDiscountPrice {} accepted: denom {} but the minimum in force is in {}", price, res_denom, min_denom_b));
                        }
                    }
                    self.last_change = Some(b.now);
                    self.standing_discount = Some(*price);
                    self.cut_below = None;
                }
                Op::RemoveDiscountPrice { who } => {
                    if *who != admin {
                        self.violate("C07:price-op-by-non-admin", format!("{:?} accepted from a non-admin", op));
                    }
                    if let Some(l) = self.last_change {
                        if b.now < l + H1 {
                            self.violate(
                                "C07:discount-removed-within-1h",
                                format!("RemoveDiscountPrice accepted {} ns after the previous discount change (1 h = {} ns)", b.now - l, H1),
                            );
                        }
                    }
                    if !a["discount_price"].is_null() {
                        self.violate("C07:remove-discount-effect", format!("RemoveDiscountPrice accepted but Config.discount_price is {}", a["discount_price"]));
                    }
                    if let Some(e) = unchanged_except(&["discount_price"]) {
                        self.violate("C07:remove-discount-effect", format!("RemoveDiscountPrice: {}", e));
                    }
                    self.last_change = Some(b.now);
                    self.standing_discount = None;
                    self.cut_below = None;
                }
                Op::SetWhitelist { who, .. } => {
                    if *who != admin {
                        self.violate("C07:price-op-by-non-admin", format!("{:?} accepted from a non-admin", op));
                    }
                    if let Some(wl) = a["whitelist"].as_str() {
                        if let Ok(wc) = self.w.app.wrap().query_wasm_smart::<Value>(wl.to_string(), &json!({"config": {}})) {
                            let wp = amount_of(&wc["mint_price"]);
                            let wd = denom_of(&wc["mint_price"]);
                            if wp < min_b {
                                self.violate("C07:whitelist-price-below-minimum", format!("SetWhitelist accepted: whitelist price {} under a factory minimum of {} {}", wp, min_b, min_denom_b));
                            }
                            if wp < self.ledger.min {
                                let l = self.ledger.clone();
                                self.violate(KEY_GOV_FLOOR, format!("SetWhitelist accepted: whitelist price {} while governance last set the minimum to {} {} (the factory reports {} {})", wp, l.min, l.denom, min_b, min_denom_b));
                            }
                            if wd != min_denom_b {
                                self.violate("C07:whitelist-denom-differs-from-minimum", format!("SetWhitelist accepted: whitelist denom {} but the minimum in force is in {}", wd, min_denom_b));
                            }
                            if !self.w.v.flex && wd != denom_of(&b.cfg["mint_price"]) {
                                self.violate("C07:whitelist-denom-differs-from-mint-denom", format!("SetWhitelist accepted: whitelist denom {} but the minter sells in {}", wd, denom_of(&b.cfg["mint_price"])));
                            }
                        }
                    }
                    if let Some(e) = unchanged_except(&["whitelist"]) {
                        self.violate("C07:set-whitelist-effect", format!("SetWhitelist: {}", e));
                    }
                }
                Op::Mint { who, funds } | Op::MintM { who, funds, .. } => {
                    *self.mints_ok.entry(who.clone()).or_insert(0) += 1;
                    // a public buyer (no whitelist, or whitelist not active) is never charged more than the public price
                    if !b.wl_active {
                        let paid: u128 = funds.iter().map(|f| f.1).sum();
                        if paid > public_b {
                            let key = self.overcharge_key(paid, &b.cfg);
                            self.violate(key, format!("public Mint by {} accepted only with {} while the advertised public price is {}", who, paid, public_b));
                        }
                    }
                    // while the attached whitelist is active a mint is a whitelist mint and costs the whitelist's price
                    if b.wl_active {
                        if let Some(wc) = b.cfg["whitelist"].as_str().and_then(|wl| self.w.app.wrap().query_wasm_smart::<Value>(wl.to_string(), &json!({"config": {}})).ok()) {
                            let paid: u128 = funds.iter().map(|f| f.1).sum();
                            if paid != amount_of(&wc["mint_price"]) {
                                self.violate(
                                    "C07:whitelist-mint-not-charged-whitelist-price",
                                    format!("Mint by {} during the active whitelist accepted with {} while the whitelist price is {}", who, paid, amount_of(&wc["mint_price"])),
                                );
                            }
                        }
                    }
                    if let Some(e) = unchanged_except(&[]) {
                        self.violate("C07:mint-changed-config", e);
                    }
                }
                _ => {}
            }
        }
        // prices are set by the price operations only: whatever else happens (mints, purge,
        // governance, a migration of the minter), the public price is the last accepted
        // UpdateMintPrice (or the creation price) and the discount the last accepted
        // UpdateDiscountPrice / none after RemoveDiscountPrice
        {
            let disc_a = a["discount_price"].get("amount").map(|_| amount_of(&a["discount_price"]));
            if amount_of(&a["mint_price"]) != self.traced_price {
                let t = self.traced_price;
                self.violate("C07:price-changed-outside-price-operations", format!("after {:?} the public price is {} but the last accepted price operation set {}", op, amount_of(&a["mint_price"]), t));
                self.traced_price = amount_of(&a["mint_price"]);
            }
            if disc_a != self.standing_discount {
                let t = self.standing_discount;
                self.violate("C07:discount-changed-outside-discount-operations", format!("after {:?} the discount is {:?} but the last accepted discount operation left {:?}", op, disc_a, t));
                self.standing_discount = disc_a;
            }
        }
        // once the stored start time has passed, the public price never goes up again
        let start_a: u64 = a["start_time"].as_str().unwrap().parse().unwrap();
        let public_a = amount_of(&a["mint_price"]);
        if self.now() >= start_a {
            if let Some(p) = self.started_price {
                if public_a > p {
                    self.violate("C07:public-price-raised-after-start", format!("public price went from {} to {} after the start by {:?}", p, public_a, op));
                }
            }
            self.started_price = Some(public_a);
        }
        // MintPrice repeats Config: public and discount prices (and the attached whitelist's own price)
        if let Some(mp) = self.w.mint_price_q() {
            if mp["public_price"] != a["mint_price"] || (mp["discount_price"].is_null() != a["discount_price"].is_null())
                || (!a["discount_price"].is_null() && mp["discount_price"] != a["discount_price"])
            {
                self.violate("C07:mint-price-query-differs-from-config", format!("after {:?}: MintPrice {} vs Config mint_price {} discount_price {}", op, mp, a["mint_price"], a["discount_price"]));
            }
            let wl_active = self.wl_active_now(&a);
            if let Some(wl) = a["whitelist"].as_str() {
                if let Ok(wc) = self.w.app.wrap().query_wasm_smart::<Value>(wl.to_string(), &json!({"config": {}})) {
                    if mp["whitelist_price"] != wc["mint_price"] || (wl_active && mp["current_price"] != wc["mint_price"]) {
                        self.violate("C07:mint-price-query-differs-from-whitelist", format!("after {:?}: MintPrice {} but the attached whitelist (active: {}) asks {}", op, mp, wl_active, wc["mint_price"]));
                    }
                }
            }
            if !wl_active {
                let expect = if a["discount_price"].is_null() { &a["mint_price"] } else { &a["discount_price"] };
                if &mp["current_price"] != expect {
                    self.violate("C07:mint-price-query-current-wrong", format!("after {:?}: MintPrice current {} but Config says discount {} / public {}", op, mp["current_price"], a["discount_price"], a["mint_price"]));
                }
            }
        }
        // the advertised current price for a public buyer never exceeds the public price
        if !self.static_overcharge_reported && !self.wl_active_now(&a) {
            if let Some(mp) = self.w.mint_price_q() {
                let cur = amount_of(&mp["current_price"]);
                let pubp = amount_of(&mp["public_price"]);
                if cur > pubp {
                    self.static_overcharge_reported = true;
                    let key = self.overcharge_key(cur, &a);
                    self.violate(key, format!("after {:?}: MintPrice reports public {} but current {} (the next public mint is charged more than the public price)", op, pubp, cur));
                }
            }
        }
        out.ok
    }

    fn probe(&mut self, who: &str) {
        let mp = match self.w.mint_price_q() {
            Some(v) => v,
            None => return,
        };
        let cur = (amount_of(&mp["current_price"]), denom_of(&mp["current_price"]));
        let mut others: Vec<(u128, String)> = vec![];
        if cur.0 > 1 {
            others.push((cur.0 - 1, cur.1.clone()));
        }
        others.push((cur.0 + 1, cur.1.clone()));
        for k in ["public_price", "discount_price", "whitelist_price"] {
            if mp[k].get("amount").is_some() {
                others.push((amount_of(&mp[k]), denom_of(&mp[k])));
            }
        }
        let mut seen = BTreeSet::new();
        let mut accepted_other: Option<(u128, String)> = None;
        for o in others {
            if o == cur || o.0 == 0 || !seen.insert(o.clone()) {
                continue;
            }
            let ok = self.op(&Op::Mint { who: who.into(), funds: vec![(o.1.clone(), o.0)] });
            if ok {
                self.violate(
                    "C07:mint-accepted-at-unquoted-amount",
                    format!("MintPrice quoted {} {} but a Mint by {} attaching {} {} was accepted", cur.0, cur.1, who, o.0, o.1),
                );
                accepted_other = Some(o);
                break;
            }
        }
        if accepted_other.is_none() {
            // a quote of zero is paid by attaching nothing
            let funds = if cur.0 > 0 { vec![(cur.1.clone(), cur.0)] } else { vec![] };
            self.op(&Op::Mint { who: who.into(), funds });
        }
    }

    pub fn step(&mut self, st: &Step) {
        self.res.executed.push(st.clone());
        match st {
            Step::Op(op) => {
                self.op(op);
            }
            Step::Gov(g) => {
                let f = self.w.factory.clone();
                let ok = chain::sudo(&mut self.w.app, &f, &gov_msg(g, true, NATIVE)).is_ok();
                if ok && g.min_price.is_some() {
                    self.gov_min_changed = true;
                }
                let params = self.w.factory_params();
                let (coq, viol) = gov_after(&mut self.ledger, g, ok, &params, &mut self.w.denoms);
                self.res.coq_extra.push(coq);
                self.res.steps += 1;
                *self.res.hist.entry(format!("{}:governance:{}", self.vname, if ok { "ok" } else { "err" })).or_insert(0) += 1;
                if let Some(v) = viol {
                    self.violate(KEY_GOV_PARAMS, v);
                }
            }
            Step::AtNs { ns } => {
                self.w.run(&Op::At { secs: ns / S, nanos: (ns % S) as i64 });
            }
            Step::Probe { who } => self.probe(who),
        }
    }
}

// ---------- sale cases ----------
pub fn run_sale(c: &SaleCase, gen: Option<(&mut Rng, usize, &[u128])>) -> CaseResult {
    let mut w = match SaleWorld::new(cfg_of(c)) {
        Ok(w) => w,
        Err(_) => {
            let mut r = CaseResult { coq: vec![], coq_oe: vec![], coq_extra: vec![], steps: 0, ok_steps: 0, violations: vec![], hist: BTreeMap::new(), executed: vec![], executed_oe: vec![] };
            *r.hist.entry(format!("{}:create:err", VARIANTS[c.variant].name)).or_insert(0) += 1;
            return r;
        }
    };
    let init = w.init_state_coq();
    let init_bal = w.balances_coq();
    let mut d = Driver::new(w);
    for st in &c.steps {
        d.step(st);
        if d.res.violations.len() > 5 {
            break;
        }
    }
    if let Some((rng, len, lits)) = gen {
        for _ in 0..len {
            let st = next_step(rng, &d, c, lits);
            d.step(&st);
            if d.res.violations.len() > 5 {
                break;
            }
        }
    }
    let steps = std::mem::take(&mut d.res.coq);
    let coq = format!("(CSale {})", case_coq(&mut d.w, &init, &init_bal, &steps));
    d.res.coq = vec![coq];
    d.res
}

fn admin_or(rng: &mut Rng) -> String {
    if rng.chance(9, 10) {
        CREATOR.into()
    } else {
        STRANGER.into()
    }
}

fn pick_buyer(rng: &mut Rng, d: &Driver, c: &SaleCase) -> String {
    let all = [BUYERS[0], BUYERS[1], BUYERS[2], STRANGER, PAYADDR, CREATOR];
    let open: Vec<&str> = all.iter().copied().filter(|a| d.mints_ok.get(*a).copied().unwrap_or(0) < c.pal).collect();
    if open.is_empty() || rng.chance(1, 12) {
        (*rng.pick(&all)).into()
    } else {
        (*rng.pick(&open)).into()
    }
}

/// next step of a structured random history, chosen from what the contracts report now
fn next_step(rng: &mut Rng, d: &Driver, c: &SaleCase, lits: &[u128]) -> Step {
    let t0 = d.w.t0;
    let now = d.now();
    let start = d.start();
    let public = d.public_price();
    let disc = d.discount();
    let min = d.min_price();
    let around = |rng: &mut Rng, x: u128| -> u128 {
        match rng.below(3) {
            0 => x.saturating_sub(1),
            1 => x,
            _ => x + 1,
        }
    };
    match rng.below(100) {
        // ---- clock: the guard instants ----
        0..=27 => {
            let mut targets: Vec<u64> = vec![];
            if start + 1 > now {
                targets.extend([start - 1, start, start + 1]);
            }
            if let Some(l) = d.last_change {
                for base in [l + H12, l + H1] {
                    for t in [base - 1, base, base + 1] {
                        if t > now {
                            targets.push(t);
                        }
                    }
                }
            }
            // every small integer literal of the handlers' source, read as hours / minutes after
            // the last discount change (a changed cooldown constant moves the boundary there)
            if let Some(l) = d.last_change {
                if !lits.is_empty() && rng.chance(1, 3) {
                    let k = *rng.pick(lits) as u64;
                    let unit = if rng.chance(1, 2) { 3600 * S } else { 60 * S };
                    for t in [l + k * unit - 1, l + k * unit, l + k * unit + 1] {
                        if t > now {
                            targets.push(t);
                        }
                    }
                }
            }
            let t = if targets.is_empty() || rng.chance(1, 4) {
                match rng.below(4) {
                    0 => now + rng.range(1, 600) * S + rng.below(S),
                    1 => now + H1 + rng.below(3) - 1,
                    2 => now + H12 + rng.below(3) - 1,
                    _ => now + rng.range(1, 20 * 3600) * S,
                }
            } else {
                *rng.pick(&targets)
            };
            Step::AtNs { ns: t - t0 }
        }
        // ---- public price ----
        28..=45 => {
            let price = match rng.below(8) {
                0 | 1 => around(rng, min),
                2 | 3 | 4 => around(rng, public),
                5 => match disc {
                    Some(x) => around(rng, x),
                    None => around(rng, public),
                },
                6 => rng.range(min as u64, (public.max(min) + 40) as u64) as u128,
                _ if !lits.is_empty() && rng.chance(1, 3) => {
                    let l = *rng.pick(lits);
                    around(rng, l)
                }
                _ => public.saturating_sub(rng.range(1, 15) as u128),
            };
            Step::Op(Op::UpdateMintPrice { who: admin_or(rng), price })
        }
        // ---- discount ----
        46..=63 => {
            let price = match rng.below(6) {
                0 | 1 => around(rng, min),
                2 | 3 => around(rng, public),
                _ => rng.range(min.min(public) as u64, public.max(min) as u64) as u128,
            };
            Step::Op(Op::UpdateDiscountPrice { who: admin_or(rng), price })
        }
        64..=71 => Step::Op(Op::RemoveDiscountPrice { who: admin_or(rng) }),
        // ---- governance ----
        72..=79 => {
            let m = match rng.below(5) {
                0 => around(rng, public),
                1 => match disc {
                    Some(x) => around(rng, x),
                    None => around(rng, min),
                },
                2 => min + rng.range(1, 10) as u128,
                _ => min.saturating_sub(rng.range(1, 10) as u128).max(1),
            };
            let mut g = gen_gov(rng, &[m], true);
            if let Some(l) = g.max_token_limit {
                g.max_token_limit = Some(l.max(5000)); // keep the running minter's own size legal
            }
            Step::Gov(g)
        }
        // ---- whitelist / start time (only meaningful before the start) ----
        80..=85 => {
            let flex = VARIANTS[c.variant].flex;
            let kind = if flex { 2 + rng.below(2) as u8 } else { rng.below(2) as u8 };
            let price = if rng.chance(2, 3) { around(rng, min) } else { public };
            let ibc = if c.ibc { rng.chance(1, 2) } else { rng.chance(1, 6) };
            let s_in = rng.range(10, 200);
            Step::Op(Op::SetWhitelist { who: admin_or(rng), kind, start_in: s_in, end_in: s_in + rng.range(50, 400), price, ibc })
        }
        86..=88 => {
            let t = now - t0 + rng.range(1, 2000) * S;
            Step::Op(Op::UpdateStartTime { who: admin_or(rng), secs: t / S, nanos: (t % S) as i64 })
        }
        // ---- a migration of the minter ----
        89..=91 => {
            let (who, stored) = gen_migrate_args(rng, &migrate_version_pool());
            Step::Op(Op::Migrate { who, stored })
        }
        // ---- the price query against real mints ----
        _ => Step::Probe { who: pick_buyer(rng, d, c) },
    }
}

// ---------- creation probes ----------
fn fp_coq_of(c: &CreateCase) -> String {
    let fp = FactoryParams::default();
    format!(
        "(mkFP {} {} {} {} 0 {} {} {} {})",
        c.min_price,
        if c.ibc { 1 } else { 0 },
        fp.mint_fee_bps,
        fp.airdrop_price,
        fp.airdrop_fee_bps,
        fp.shuffle_fee,
        fp.max_per_address,
        fp.offset_secs
    )
}

pub fn run_create(c: &CreateCase) -> CaseResult {
    let mut r = CaseResult { coq: vec![], coq_oe: vec![], coq_extra: vec![], steps: 0, ok_steps: 0, violations: vec![], hist: BTreeMap::new(), executed: vec![], executed_oe: vec![] };
    let vname = VARIANTS[c.variant].name;
    let mut cfg = SaleCfg::basic(c.variant);
    cfg.fp.min_price = c.min_price;
    cfg.fp.denom = denom_name(c.ibc).into();
    cfg.price = c.world_price;
    cfg.num_tokens = 3;
    cfg.pal = 1;
    let res = SaleWorld::new(cfg);
    r.steps += 1;
    let ok = res.is_ok();
    *r.hist.entry(format!("{}:create:{}", vname, if ok { "ok" } else { "err" })).or_insert(0) += 1;
    r.coq.push(format!("(CCreate {} {} {} {})", fp_coq_of(c), c.world_price, if c.ibc { 1 } else { 0 }, coq_bool(ok)));
    let mut w = match res {
        Ok(w) => w,
        Err(_) => return r,
    };
    r.ok_steps += 1;
    if c.world_price < c.min_price {
        r.violations.push(("C07:creation-below-minimum".into(), format!("{}: minter created at {} under a factory minimum of {}", vname, c.world_price, c.min_price), 0));
    }
    let mut ledger = Ledger { min: c.min_price, denom: denom_name(c.ibc).into() };
    if c.sudo_min.is_some() || c.sudo_fee.is_some() {
        let g = Gov { min_price: c.sudo_min.map(|m| (m, false)), creation_fee: c.sudo_fee, ..Default::default() };
        let f = w.factory.clone();
        let ok = chain::sudo(&mut w.app, &f, &gov_msg(&g, true, NATIVE)).is_ok();
        let params = w.factory_params();
        let (coq, viol) = gov_after(&mut ledger, &g, ok, &params, &mut w.denoms);
        r.coq.push(coq);
        if let Some(v) = viol {
            r.violations.push((KEY_GOV_PARAMS.into(), format!("{}: {}", vname, v), 0));
        }
    }
    let sg721 = w.factory_params()["allowed_sg721_code_ids"][0].as_u64().unwrap();
    for (i, (price, ibc)) in c.probes.iter().enumerate() {
        let params = w.factory_params();
        let min_now = amount_of(&params["min_mint_price"]);
        let min_denom_now = denom_of(&params["min_mint_price"]);
        let fp = w.fp_coq();
        let denom = denom_name(*ibc);
        let start = chain::now(&w.app) + 1000 * S;
        let msg = json!({"create_minter": {
            "init_msg": {
                "base_token_uri": "ipfs://bafybeigi3bwpvyvsmnbj46ra4hyffcxdeaj6ntfk5jpic5mx27x6ih2qvq/images",
                "payment_address": null,
                "start_time": start.to_string(),
                "num_tokens": 3,
                "mint_price": {"amount": price.to_string(), "denom": denom},
                "per_address_limit": 1,
                "whitelist": null,
            },
            "collection_params": {
                "code_id": sg721, "name": format!("Probe{}", i), "symbol": "PRB",
                "info": {"creator": CREATOR, "description": "d", "image": "https://example.com/image.png",
                         "external_link": "https://example.com/external.html", "explicit_content": false,
                         "start_trading_time": null,
                         "royalty_info": {"payment_address": CREATOR, "share": "0.1"}}
            }}});
        let f = w.factory.clone();
        let fee = amount_of(&params["creation_fee"]);
        let res = chain::exec(&mut w.app, CREATOR, &f, &msg, &[coin(fee, NATIVE)]);
        let ok = res.is_ok();
        r.steps += 1;
        if ok {
            r.ok_steps += 1;
        }
        *r.hist.entry(format!("{}:create:{}", vname, if ok { "ok" } else { "err" })).or_insert(0) += 1;
        let did = w.denoms.id(denom);
        r.coq.push(format!("(CCreate {} {} {} {})", fp, price, did, coq_bool(ok)));
        if ok && *price < min_now {
            r.violations.push(("C07:creation-below-minimum".into(), format!("{}: create_minter at {} {} accepted under a factory minimum of {} {}", vname, price, denom, min_now, min_denom_now), i + 1));
        }
        if ok && *price < ledger.min {
            r.violations.push((KEY_GOV_FLOOR.into(), format!("{}: create_minter at {} {} accepted while governance last set the minimum to {} {} (the factory reports {} {})", vname, price, denom, ledger.min, ledger.denom, min_now, min_denom_now), i + 1));
        }
        if ok {
            // the price the new minter really sells at (its own Config), against the denom governance decided
            let created_denom = res
                .as_ref()
                .ok()
                .and_then(|resp| {
                    resp.events.iter().filter(|e| e.ty == "instantiate").filter_map(|e| e.attributes.iter().find(|a| a.key == "_contract_address").map(|a| a.value.clone())).find_map(|addr| {
                        w.app.wrap().query_wasm_smart::<Value>(addr, &json!({"config": {}})).ok().filter(|c| c.get("sg721_address").is_some()).map(|c| denom_of(&c["mint_price"]))
                    })
                })
                .unwrap_or_else(|| denom.to_string());
            if created_denom != ledger.denom {
                r.violations.push((
                    "C07:created-in-foreign-denom".into(),
                    format!("{}: create_minter at {} {} accepted: the new minter sells in {} while the governance minimum is {} {}", vname, price, denom, created_denom, ledger.min, ledger.denom),
                    i + 1,
                ));
            }
        }
        if ok && denom != min_denom_now {
            r.violations.push(("C07:creation-wrong-denom".into(), format!("{}: create_minter at {} {} accepted while the factory minimum is in {}", vname, price, denom, min_denom_now), i + 1));
        }
    }
    r
}

pub fn run_case(c: &Case, gen: Option<(&mut Rng, usize, &[u128])>) -> CaseResult {
    match c {
        Case::Sale(s) => run_sale(s, gen),
        Case::Create(k) => run_create(k),
        Case::OeSale(s) => run_oe_sale(s, gen),
        Case::OeCreate(k) => run_oe_create(k),
    }
}

// ---------- corpus ----------
fn at(ns: u64) -> Step {
    Step::AtNs { ns }
}
fn ump(price: u128) -> Step {
    Step::Op(Op::UpdateMintPrice { who: CREATOR.into(), price })
}
fn udp(price: u128) -> Step {
    Step::Op(Op::UpdateDiscountPrice { who: CREATOR.into(), price })
}
fn rdp() -> Step {
    Step::Op(Op::RemoveDiscountPrice { who: CREATOR.into() })
}
fn sudo_min(m: u128) -> Step {
    Step::Gov(Gov { min_price: Some((m, false)), ..Default::default() })
}
fn gov(g: Gov) -> Step {
    Step::Gov(g)
}
fn probe(who: &str) -> Step {
    Step::Probe { who: who.into() }
}
fn set_wl(variant: usize, start_in: u64, end_in: u64, price: u128, ibc: bool) -> Step {
    let kind = if VARIANTS[variant].flex { 2 } else { 0 };
    Step::Op(Op::SetWhitelist { who: CREATOR.into(), kind, start_in, end_in, price, ibc })
}

fn base_case(variant: usize) -> SaleCase {
    SaleCase { variant, ibc: false, min_price: 50, price: 100, start_in: 1000, num_tokens: 60, pal: 3, wl: false, wl_price: 60, wl_window: None, wl_tiered: false, steps: vec![] }
}

/// curated minimal histories, every one for each of the six variants
fn corpus() -> Vec<Case> {
    let mut v = vec![];
    let start = 1000 * S;
    for variant in 0..6 {
        // (A) every guard at its boundary, in one history
        let t1 = start; // first discount
        let t2 = t1 + H1; // removal
        let t3 = t2 + H12; // second discount
        let t4 = t3 + H12 + 1; // third discount
        let t5 = t4 + H1 + 1; // second removal
        let t6 = t5 + H12; // discount at the raised minimum
        let mut a = base_case(variant);
        a.steps = vec![
            at(start - 1),
            udp(90),                                                             // before the start: refused
            ump(49),                                                             // below the minimum: refused
            ump(50),                                                             // at the minimum: accepted
            ump(120),                                                            // raise before the start: accepted
            Step::Op(Op::UpdateMintPrice { who: STRANGER.into(), price: 110 }),  // not the admin
            Step::Op(Op::UpdateDiscountPrice { who: STRANGER.into(), price: 90 }),
            probe(BUYERS[0]),                                                    // nothing is sold before the start
            at(start),
            ump(121),                                                            // raise at the start instant: refused
            ump(120),                                                            // same price: refused
            ump(119),                                                            // lower: accepted
            probe(BUYERS[0]),
            udp(120),                                                            // above the public price: refused
            udp(49),                                                             // below the minimum: refused
            Step::Op(Op::UpdateDiscountPrice { who: STRANGER.into(), price: 90 }),
            udp(119),                                                            // equal to the public price: accepted (t1)
            probe(BUYERS[1]),
            at(t1 + H1 - 1),
            rdp(),                                                               // 1 h - 1 ns: refused
            Step::Op(Op::RemoveDiscountPrice { who: STRANGER.into() }),
            at(t2),
            rdp(),                                                               // 1 h: accepted (t2)
            probe(BUYERS[2]),
            at(t2 + H12 - 1),
            udp(80),                                                             // 12 h - 1 ns after the removal: refused
            at(t3),
            udp(80),                                                             // 12 h: accepted (t3)
            probe(BUYERS[0]),
            at(t3 + H12 - 1),
            udp(70),                                                             // refused
            at(t4),
            udp(50),                                                             // 12 h + 1 ns, at the minimum: accepted (t4)
            at(t4 + H1 - 1),
            rdp(),                                                               // refused
            at(t5),
            rdp(),                                                               // 1 h + 1 ns: accepted (t5)
            sudo_min(60),
            ump(59),                                                             // below the new minimum: refused
            ump(60),                                                             // accepted
            probe(BUYERS[1]),
            sudo_min(55),
            at(t6),
            udp(54),                                                             // below the minimum in force (<= public): refused
            udp(55),                                                             // accepted
            probe(BUYERS[2]),
            udp(56),                                                             // 0 ns after the last change: refused
            at(t6 + 2 * H12),
            ump(55),                                                             // lower to the discount: accepted (no cut below it)
            probe(STRANGER),
        ];
        v.push(Case::Sale(a));
        // (B) D4: discount, then a price cut below it
        let mut b = base_case(variant);
        b.steps = vec![at(start), udp(80), ump(60), probe(BUYERS[0])];
        v.push(Case::Sale(b));
        // (C) D8: minimum of an IBC-denominated factory replaced by governance
        let mut c = base_case(variant);
        c.ibc = true;
        c.steps = vec![ump(49), ump(110), sudo_min(70), ump(69), ump(90), at(start), probe(BUYERS[0]), udp(69), udp(80), probe(BUYERS[1])];
        v.push(Case::Sale(c));
        // (C') the same factory without a governance change: everything stays in the IBC denom
        let mut c2 = base_case(variant);
        c2.ibc = true;
        c2.steps = vec![ump(49), ump(110), at(start), ump(90), probe(BUYERS[0]), udp(49), udp(80), probe(BUYERS[1]), set_wl(variant, 10, 100, 60, true)];
        v.push(Case::Sale(c2));
        // (G) attaching a whitelist after governance moved the minimum of an IBC-denominated
        // factory to the native denom: the minimum's denom and the minter's own denom now differ
        let mut g = base_case(variant);
        g.ibc = true;
        g.steps = vec![
            sudo_min(70),
            set_wl(variant, 100, 400, 69, false),   // native, below the new minimum: refused
            set_wl(variant, 100, 400, 70, true),    // IBC: not the denom of the minimum in force: refused
            set_wl(variant, 100, 400, 70, false),   // native, at the minimum: not the minter's own denom -> refused
                                                    // on the four non-flex variants; the flex variants never compare
                                                    // with their own denom and accept it
            probe(BUYERS[0]),
            at(150 * S),
            probe(BUYERS[0]),                       // flex: whitelist active, quote 70 ustars for members
            probe(STRANGER),
            at(start),
            probe(BUYERS[1]),
        ];
        v.push(Case::Sale(g));
        // (H) governance proposals of every shape inside a price history: the minimum together
        // with the creation fee, with each other field, alone, not at all, in a refused denom;
        // after each one the price just below the decided minimum must be refused
        let mut h = base_case(variant);
        let m = |p: u128| Some((p, false));
        h.steps = vec![
            gov(Gov { min_price: m(60), creation_fee: Some(6_000), ..Default::default() }),
            ump(59),
            ump(60),
            gov(Gov { min_price: m(62), mint_fee_bps: Some(900), ..Default::default() }),
            ump(61),
            ump(62),
            gov(Gov { min_price: m(64), offset: Some(86_400), ..Default::default() }),
            ump(63),
            ump(64),
            gov(Gov { min_price: m(66), airdrop_price: Some(10), ..Default::default() }),
            ump(65),
            ump(66),
            gov(Gov { min_price: m(68), airdrop_fee_bps: Some(5000), ..Default::default() }),
            ump(67),
            ump(68),
            gov(Gov { min_price: m(70), max_pal: Some(40), ..Default::default() }),
            ump(69),
            ump(70),
            gov(Gov { min_price: m(72), shuffle_fee: Some(600), ..Default::default() }),
            ump(71),
            ump(72),
            gov(Gov { min_price: m(74), max_token_limit: Some(9000), ..Default::default() }),
            ump(73),
            ump(74),
            gov(Gov { min_price: m(76), ..Default::default() }),
            ump(75),
            ump(76),
            gov(Gov { creation_fee: Some(7_000), ..Default::default() }),     // the minimum is not mentioned: stays 76
            ump(75),
            gov(Gov { min_price: Some((40, true)), creation_fee: Some(1), ..Default::default() }), // IBC minimum: whole proposal refused
            ump(75),
            gov(Gov { min_price: m(55), creation_fee: Some(5_000), mint_fee_bps: Some(1000), offset: Some(604_800), airdrop_price: Some(0),
                      airdrop_fee_bps: Some(10000), max_pal: Some(50), max_token_limit: Some(10000), shuffle_fee: Some(500) }),
            ump(54),
            ump(90),
            set_wl(variant, 100, 300, 54, false),
            set_wl(variant, 100, 300, 55, false),
            gov(Gov { min_price: m(57), creation_fee: Some(5_001), ..Default::default() }),
            at(start),
            udp(56),                                                             // below the decided minimum: refused
            udp(57),
            probe(BUYERS[0]),
            gov(Gov { min_price: m(58), creation_fee: Some(5_000), ..Default::default() }),
            ump(57),                                                             // lower than 90, below the decided minimum: refused
            ump(58),
            probe(BUYERS[1]),
        ];
        v.push(Case::Sale(h));
        // (I) migrations of the minter inside a price history: after a discount, after a price
        // cut, by a stranger; from below 3.9.0 the cooldown anchor restarts (a discount may be
        // set at once), from 3.9.0 on nothing changes
        {
            let mig = |who: &str, stored: Option<(&str, &str)>| Step::Op(Op::Migrate { who: who.into(), stored: stored.map(|(x, y)| (x.to_string(), y.to_string())) });
            let mut mi = base_case(variant);
            mi.steps = vec![
                mig(CREATOR, Some(("@own", "3.8.9"))),
                ump(120),
                at(start),
                udp(80),
                probe(BUYERS[0]),
                mig(CREATOR, Some(("@own", "3.9.0"))),
                udp(70),                                // 0 ns after the discount: refused, nothing changed
                mig(STRANGER, Some(("@own", "3.8.9"))),
                udp(70),
                mig(CREATOR, Some(("@own", "3.8.9"))),  // anchor := now - 12 h
                probe(BUYERS[0]),                       // price and discount as before
                udp(70),                                // accepted at once
                probe(BUYERS[1]),
                mig(CREATOR, None),
                rdp(),                                  // refused: 0 ns after the last change
                ump(100),
                mig(CREATOR, Some(("@own", "3.15.0"))),
                probe(BUYERS[1]),
                mig(CREATOR, Some(("@own", "99.0.0"))),
                mig(CREATOR, Some(("crates.io:something-else", "3.0.0"))),
                mig(CREATOR, Some(("@own", "abc"))),
                at(start + H1),
                rdp(),
                probe(BUYERS[2]),
                mig(CREATOR, Some(("@own", "3.0.0"))),
                udp(90),                                // accepted at once again
                probe(BUYERS[2]),
            ];
            v.push(Case::Sale(mi));
        }
        // (J) factories whose minimum is 0 or 1, in either denom: every later price operation keeps
        // the minter's own denom, the floor is the (tiny) minimum, a free mint attaches nothing
        for ibc in [false, true] {
            for m in [0u128, 1] {
                let mut j = base_case(variant);
                j.ibc = ibc;
                j.min_price = m;
                j.price = m + 2;
                let mut st = vec![];
                if m > 0 {
                    st.push(ump(m - 1));
                }
                st.extend(vec![
                    ump(m),
                    ump(20),
                    set_wl(variant, 100, 300, m, !ibc),      // the other denom: refused
                    set_wl(variant, 100, 300, m.max(1), ibc),
                    at(150 * S),
                    probe(BUYERS[0]),
                    at(start),
                    probe(BUYERS[1]),
                    udp(m),
                    probe(BUYERS[1]),
                    ump(m + 1),
                    probe(BUYERS[2]),
                    at(start + H1),
                    rdp(),
                    ump(m),
                    probe(BUYERS[2]),
                ]);
                if m > 0 {
                    st.push(ump(m - 1));
                }
                j.steps = st;
                v.push(Case::Sale(j));
            }
        }
        // (D) whitelist price while the attached whitelist is active; replacing it
        let mut dcase = base_case(variant);
        dcase.wl = true;
        dcase.start_in = 3000;
        dcase.steps = vec![
            probe(BUYERS[0]),                       // whitelist not yet active, sale not started
            at(1500 * S),
            probe(BUYERS[0]),                       // member, whitelist price
            probe(STRANGER),                        // not a member
            set_wl(variant, 10, 100, 60, false),    // refused: the attached whitelist is active
            ump(59),                                // raise/lower before the start is free, the quote stays the whitelist's
            probe(BUYERS[1]),
            at(2500 * S),
            set_wl(variant, 10, 100, 49, false),    // below the minimum: refused
            set_wl(variant, 10, 100, 50, true),     // other denom: refused
            set_wl(variant, 10, 100, 50, false),    // accepted
            at(2520 * S),
            probe(BUYERS[0]),                       // new whitelist active at 50
            at(3000 * S),
            probe(BUYERS[2]),
        ];
        v.push(Case::Sale(dcase));
        // (E) attaching a whitelist to a minter that has none, minimum raised in between
        let mut e = base_case(variant);
        e.steps = vec![
            sudo_min(70),
            set_wl(variant, 10, 100, 69, false),
            set_wl(variant, 10, 100, 70, true),
            set_wl(variant, 10, 100, 70, false),
            at(50 * S),
            probe(BUYERS[0]),
            at(start),
            set_wl(variant, 10, 100, 80, false),    // after the start: refused
            probe(BUYERS[0]),
        ];
        v.push(Case::Sale(e));
        // (F) a whitelist that is still active after the public start: discount set / removed /
        // set again and the public price lowered INSIDE the window; the quote and the charge
        // of a member stay the whitelist's price, the discount applies only once it is over
        for tiered in [false, true] {
            let mut f = base_case(variant);
            f.wl = true;
            f.wl_tiered = tiered;
            f.wl_window = Some((900, 100_000));
            let t1 = start;
            let t2 = t1 + H1;
            let t3 = t2 + H12;
            f.steps = vec![
                at(950 * S),
                probe(BUYERS[0]),                   // whitelist active, before the public start: 60
                at(t1),
                udp(80),                            // accepted (started); the whitelist is still active
                probe(BUYERS[0]),                   // member: still 60, not 80, not 100
                probe(STRANGER),                    // not a member: nothing is sold to them
                ump(90),                            // public price lowered inside the window
                probe(BUYERS[1]),
                at(t2),
                rdp(),
                probe(BUYERS[1]),
                at(t3),
                udp(70),
                ump(75),
                probe(BUYERS[0]),
                at(100_000 * S),                    // whitelist over: the discount applies
                probe(BUYERS[2]),
                probe(BUYERS[0]),
            ];
            v.push(Case::Sale(f));
        }
        // the governance minimum as a full dimension: amount 0 / 1 in the native and the IBC denom
        // (at instantiation and after a proposal), requests in the minimum's denom and in the other
        // one at 0 / min-1 / min / min+1
        for ibc in [false, true] {
            for m in [0u128, 1] {
                let mut probes: Vec<(u128, bool)> = vec![];
                for other in [false, true] {
                    for a in [0u128, m.saturating_sub(1), m, m + 1, 100] {
                        if !probes.contains(&(a, ibc != other)) {
                            probes.push((a, ibc != other));
                        }
                    }
                }
                v.push(Case::Create(CreateCase { variant, ibc, min_price: m, world_price: m, sudo_min: None, sudo_fee: None, probes }));
            }
            // a proposal moves the minimum to 0 ustars (the only denom a proposal may name)
            v.push(Case::Create(CreateCase {
                variant,
                ibc,
                min_price: 50,
                world_price: 50,
                sudo_min: Some(0),
                sudo_fee: if ibc { Some(6_000) } else { None },
                probes: vec![(0, false), (1, false), (0, true), (1, true), (50, true), (50, false)],
            }));
        }
        // creation at the boundary, through the world constructor and through extra messages
        for (ibc, wp) in [(false, 49u128), (false, 50), (true, 49), (true, 51)] {
            v.push(Case::Create(CreateCase {
                variant,
                ibc,
                min_price: 50,
                world_price: wp,
                sudo_min: None,
                sudo_fee: None,
                probes: vec![(49, ibc), (50, ibc), (51, ibc), (50, !ibc), (1000, !ibc)],
            }));
        }
        v.push(Case::Create(CreateCase {
            variant,
            ibc: false,
            min_price: 50,
            world_price: 50,
            sudo_min: Some(70),
            sudo_fee: Some(6_000),
            probes: vec![(69, false), (70, false), (50, false)],
        }));
        v.push(Case::Create(CreateCase {
            variant,
            ibc: variant % 2 == 1,
            min_price: 50,
            world_price: 50,
            sudo_min: Some(70),
            sudo_fee: None,
            probes: vec![(69, false), (70, false), (71, false), (69, true), (70, true), (50, variant % 2 == 1)],
        }));
    }
    v
}

fn gen_sale(rng: &mut Rng, variant: usize) -> SaleCase {
    let min_price = *rng.pick(&[0u128, 1, 50, 50, 50, 77]);
    let price = min_price + *rng.pick(&[0u128, 1, 30, 50]);
    let wl = rng.chance(1, 5);
    SaleCase {
        variant,
        ibc: rng.chance(1, 4),
        min_price,
        price,
        start_in: if wl { 3000 } else { *rng.pick(&[600u64, 1000, 5000]) },
        num_tokens: 60,
        pal: 3,
        wl,
        wl_price: min_price + 5,
        // half of the whitelists stay active into the public sale
        wl_window: if wl && rng.chance(1, 2) { Some((2500, 3000 + *rng.pick(&[600u64, 50_000, 100_000]))) } else { None },
        wl_tiered: wl && rng.chance(1, 3),
        steps: vec![],
    }
}

/// drop steps that are not needed to reproduce the same violation key
fn shrink(c: &SaleCase, key: &str, what: &str, upto: usize) -> SaleCase {
    let mut cur = c.clone();
    cur.steps.truncate(upto + 1);
    // same key and same kind of observation (the text up to its first number)
    let kind = |w: &str| -> String { w.chars().take_while(|ch| !ch.is_ascii_digit()).collect() };
    let want = kind(what);
    let reproduces = |s: &SaleCase| run_sale(s, None).violations.iter().any(|v| v.0 == key && kind(&v.1) == want);
    if !reproduces(&cur) {
        return cur;
    }
    let mut budget = 60;
    let mut chunk = (cur.steps.len() / 2).max(1);
    while chunk >= 1 && budget > 0 {
        let mut i = 0;
        while i + chunk <= cur.steps.len() && budget > 0 {
            let mut t = cur.clone();
            t.steps.drain(i..i + chunk);
            budget -= 1;
            if !t.steps.is_empty() && reproduces(&t) {
                cur = t;
            } else {
                i += chunk;
            }
        }
        if chunk == 1 {
            break;
        }
        chunk /= 2;
    }
    cur
}

// =====================================================================================
// Part 2: the three open-edition minters (no discount exists there)
// =====================================================================================
fn oe_query(w: &OeWorld, addr: &str, q: Value) -> Option<Value> {
    w.app.wrap().query_wasm_smart::<Value>(addr.to_string(), &q).ok()
}

pub struct OeDriver {
    pub w: OeWorld,
    pub res: CaseResult,
    vname: &'static str,
    created_min_denom: String,
    gov_min_changed: bool,
    pub ledger: Ledger,
    started_price: Option<u128>,
    pub mints_ok: BTreeMap<String, u32>,
    traced_price: u128,
}

impl OeDriver {
    pub fn new(w: OeWorld) -> OeDriver {
        let vname = w.v.name;
        let created_min_denom = denom_of(&w.factory_params()["min_mint_price"]);
        let ledger = Ledger { min: w.cfg.fp.min_price, denom: w.cfg.fp.denom.clone() };
        let traced_price = amount_of(&w.minter_config()["mint_price"]);
        OeDriver {
            traced_price,
            ledger,
            w,
            res: CaseResult { coq: vec![], coq_oe: vec![], coq_extra: vec![], steps: 0, ok_steps: 0, violations: vec![], hist: BTreeMap::new(), executed: vec![], executed_oe: vec![] },
            vname,
            created_min_denom,
            gov_min_changed: false,
            started_price: None,
            mints_ok: BTreeMap::new(),
        }
    }
    pub fn now(&self) -> u64 {
        chain::now(&self.w.app)
    }
    pub fn start(&self) -> u64 {
        self.w.minter_config()["start_time"].as_str().unwrap().parse().unwrap()
    }
    pub fn public_price(&self) -> u128 {
        amount_of(&self.w.minter_config()["mint_price"])
    }
    pub fn min_price(&self) -> u128 {
        amount_of(&self.w.factory_params()["min_mint_price"])
    }
    fn mint_price_q(&self) -> Option<Value> {
        oe_query(&self.w, self.w.minter.as_str(), json!({"mint_price": {}}))
    }
    fn wl_config(&self, cfg: &Value) -> Option<Value> {
        cfg["whitelist"].as_str().and_then(|a| oe_query(&self.w, a, json!({"config": {}})))
    }
    fn wl_active_now(&self, cfg: &Value) -> bool {
        self.wl_config(cfg).and_then(|v| v["is_active"].as_bool()).unwrap_or(false)
    }
    fn violate(&mut self, key: &str, what: String) {
        let idx = self.res.executed.len().saturating_sub(1);
        self.res.violations.push((key.to_string(), format!("{}: {}", self.vname, what), idx));
    }

    pub fn op(&mut self, op: &OeOp) -> bool {
        let now = self.now();
        let b = self.w.minter_config();
        let min = self.w.factory_params()["min_mint_price"].clone();
        let wl_active_b = self.wl_active_now(&b);
        let out = self.w.run(op);
        if let OeOp::SudoParams { min_price: Some(m), .. } = op {
            if out.ok {
                self.gov_min_changed = true;
                self.ledger = Ledger { min: *m, denom: NATIVE.into() };
            }
        }
        if !out.is_minter_step {
            return out.ok;
        }
        self.res.steps += 1;
        if out.ok {
            self.res.ok_steps += 1;
        }
        *self.res.hist.entry(format!("{}:{}:{}", self.vname, oe_op_kind(op), if out.ok { "ok" } else { "err" })).or_insert(0) += 1;
        if let Some(s) = out.coq {
            self.res.coq.push(s);
        }
        if let Some(e) = &out.err {
            if e.starts_with("STATE-CHANGED-ON-FAILURE") {
                self.violate("C07:failed-call-changed-state", format!("{:?}: {}", op, e));
            }
        }
        let a = self.w.minter_config();
        let admin = b["admin"].as_str().unwrap_or("").to_string();
        let start_b: u64 = b["start_time"].as_str().unwrap().parse().unwrap();
        let public_b = amount_of(&b["mint_price"]);
        let min_b = amount_of(&min);
        let min_denom_b = denom_of(&min);
        let unchanged_except = |fields: &[&str]| -> Option<String> {
            for k in ["admin", "mint_price", "start_time", "end_time", "whitelist", "per_address_limit", "num_tokens"] {
                if !fields.contains(&k) && a[k] != b[k] {
                    return Some(format!("Config.{} changed from {} to {}", k, b[k], a[k]));
                }
            }
            None
        };
        if out.ok {
            match op {
                OeOp::UpdateMintPrice { who, price } => {
                    if *who != admin {
                        self.violate("C07:price-op-by-non-admin", format!("{:?} accepted from a non-admin", op));
                    }
                    if *price < min_b {
                        self.violate("C07:update-price-below-minimum", format!("UpdateMintPrice {} accepted under a factory minimum of {} {}", price, min_b, min_denom_b));
                    }
                    if *price < self.ledger.min {
                        let l = self.ledger.clone();
                        self.violate(KEY_GOV_FLOOR, format!("UpdateMintPrice {} accepted while governance last set the minimum to {} {} (the factory reports {} {})", price, l.min, l.denom, min_b, min_denom_b));
                    }
                    if now >= start_b && *price >= public_b {
                        self.violate(
                            "C07:price-not-lowered-after-start",
                            format!("UpdateMintPrice {} accepted at {} (start {}) while the public price was {}", price, now, start_b, public_b),
                        );
                    }
                    let res_denom = denom_of(&a["mint_price"]);
                    self.traced_price = *price;
                    if amount_of(&a["mint_price"]) != *price || res_denom != denom_of(&b["mint_price"]) {
                        self.violate("C07:update-price-effect", format!("UpdateMintPrice {} accepted but Config.mint_price is {}", price, a["mint_price"]));
                    }
                    if let Some(e) = unchanged_except(&["mint_price"]) {
                        self.violate("C07:update-price-effect", format!("UpdateMintPrice {}: {}", price, e));
                    }
                    if res_denom != min_denom_b {
                        let d8 = self.created_min_denom != NATIVE
                            && self.gov_min_changed
                            && min_denom_b == NATIVE
                            && res_denom == self.created_min_denom
                            && denom_of(&b["mint_price"]) == self.created_min_denom;
                        if d8 {
                            self.violate(KEY_D8, format!("UpdateMintPrice {} accepted: minter price {} {} under a factory minimum of {} {}", price, price, res_denom, min_b, min_denom_b));
                        } else {
                            self.violate("C07:price-denom-differs-from-minimum", format!("UpdateMintPrice {} accepted: price denom {} but the minimum in force is in {}", price, res_denom, min_denom_b));
                        }
                    }
                }
                OeOp::SetWhitelist { who, .. } => {
                    if *who != admin {
                        self.violate("C07:price-op-by-non-admin", format!("{:?} accepted from a non-admin", op));
                    }
                    if let Some(wc) = self.wl_config(&a) {
                        let wp = amount_of(&wc["mint_price"]);
                        let wd = denom_of(&wc["mint_price"]);
                        if wp < min_b {
                            self.violate("C07:whitelist-price-below-minimum", format!("SetWhitelist accepted: whitelist price {} under a factory minimum of {} {}", wp, min_b, min_denom_b));
                        }
                        if wp < self.ledger.min {
                            let l = self.ledger.clone();
                            self.violate(KEY_GOV_FLOOR, format!("SetWhitelist accepted: whitelist price {} while governance last set the minimum to {} {} (the factory reports {} {})", wp, l.min, l.denom, min_b, min_denom_b));
                        }
                        if wd != min_denom_b {
                            self.violate("C07:whitelist-denom-differs-from-minimum", format!("SetWhitelist accepted: whitelist denom {} but the minimum in force is in {}", wd, min_denom_b));
                        }
                        if wd != denom_of(&b["mint_price"]) {
                            self.violate("C07:whitelist-denom-differs-from-mint-denom", format!("SetWhitelist accepted: whitelist denom {} but the minter sells in {}", wd, denom_of(&b["mint_price"])));
                        }
                    }
                    if let Some(e) = unchanged_except(&["whitelist"]) {
                        self.violate("C07:set-whitelist-effect", format!("SetWhitelist: {}", e));
                    }
                }
                OeOp::Mint { who, funds } | OeOp::MintM { who, funds, .. } => {
                    *self.mints_ok.entry(who.clone()).or_insert(0) += 1;
                    if !wl_active_b {
                        let paid: u128 = funds.iter().map(|f| f.1).sum();
                        if paid > public_b {
                            self.violate("C07:charged-above-public", format!("public Mint by {} accepted only with {} while the advertised public price is {}", who, paid, public_b));
                        }
                    }
                    if let Some(e) = unchanged_except(&[]) {
                        self.violate("C07:mint-changed-config", e);
                    }
                }
                _ => {}
            }
        }
        // once the stored start time has passed, the public price never goes up again
        let start_a: u64 = a["start_time"].as_str().unwrap().parse().unwrap();
        let public_a = amount_of(&a["mint_price"]);
        if self.now() >= start_a {
            if let Some(p) = self.started_price {
                if public_a > p {
                    self.violate("C07:public-price-raised-after-start", format!("public price went from {} to {} after the start by {:?}", p, public_a, op));
                }
            }
            self.started_price = Some(public_a);
        }
        // the public price is set by UpdateMintPrice only (creation value first)
        if amount_of(&a["mint_price"]) != self.traced_price {
            let t = self.traced_price;
            self.violate("C07:price-changed-outside-price-operations", format!("after {:?} the public price is {} but the last accepted price operation set {}", op, amount_of(&a["mint_price"]), t));
            self.traced_price = amount_of(&a["mint_price"]);
        }
        // MintPrice repeats Config and the attached whitelist; the current price is the
        // whitelist's while it is active, the public price otherwise (no discount exists)
        if let Some(mp) = self.mint_price_q() {
            if mp["public_price"] != a["mint_price"] {
                self.violate("C07:mint-price-query-differs-from-config", format!("after {:?}: MintPrice {} vs Config mint_price {}", op, mp, a["mint_price"]));
            }
            let wl_active = self.wl_active_now(&a);
            if let Some(wc) = self.wl_config(&a) {
                if mp["whitelist_price"] != wc["mint_price"] || (wl_active && mp["current_price"] != wc["mint_price"]) {
                    self.violate("C07:mint-price-query-differs-from-whitelist", format!("after {:?}: MintPrice {} but the attached whitelist (active: {}) asks {}", op, mp, wl_active, wc["mint_price"]));
                }
            }
            if !wl_active && mp["current_price"] != a["mint_price"] {
                self.violate("C07:mint-price-query-current-wrong", format!("after {:?}: MintPrice current {} but the public price is {}", op, mp["current_price"], a["mint_price"]));
            }
        }
        out.ok
    }

    fn probe(&mut self, who: &str) {
        let mp = match self.mint_price_q() {
            Some(v) => v,
            None => return,
        };
        let cur = (amount_of(&mp["current_price"]), denom_of(&mp["current_price"]));
        let mut others: Vec<(u128, String)> = vec![];
        if cur.0 > 1 {
            others.push((cur.0 - 1, cur.1.clone()));
        }
        others.push((cur.0 + 1, cur.1.clone()));
        for k in ["public_price", "whitelist_price"] {
            if mp[k].get("amount").is_some() {
                others.push((amount_of(&mp[k]), denom_of(&mp[k])));
            }
        }
        let mut seen = BTreeSet::new();
        for o in others {
            if o == cur || o.0 == 0 || !seen.insert(o.clone()) {
                continue;
            }
            if self.op(&OeOp::Mint { who: who.into(), funds: vec![(o.1.clone(), o.0)] }) {
                self.violate(
                    "C07:mint-accepted-at-unquoted-amount",
                    format!("MintPrice quoted {} {} but a Mint by {} attaching {} {} was accepted", cur.0, cur.1, who, o.0, o.1),
                );
                return;
            }
        }
        let funds = if cur.0 > 0 { vec![(cur.1.clone(), cur.0)] } else { vec![] };
        self.op(&OeOp::Mint { who: who.into(), funds });
    }

    pub fn step(&mut self, st: &OStep) {
        self.res.executed_oe.push(st.clone());
        self.res.executed.push(Step::AtNs { ns: 0 }); // keeps the step index of `violate` aligned
        match st {
            OStep::Op(op) => {
                self.op(op);
            }
            OStep::Gov(g) => {
                let f = self.w.factory.clone();
                let ad = self.w.cfg.fp.denom.clone();
                let ok = chain::sudo(&mut self.w.app, &f, &gov_msg(g, false, &ad)).is_ok();
                if ok && g.min_price.is_some() {
                    self.gov_min_changed = true;
                }
                let params = self.w.factory_params();
                let (coq, viol) = gov_after(&mut self.ledger, g, ok, &params, &mut self.w.denoms);
                self.res.coq_extra.push(coq);
                self.res.steps += 1;
                *self.res.hist.entry(format!("{}:governance:{}", self.vname, if ok { "ok" } else { "err" })).or_insert(0) += 1;
                if let Some(v) = viol {
                    self.violate(KEY_GOV_PARAMS, v);
                }
            }
            OStep::AtNs { ns } => {
                self.w.run(&OeOp::At { secs: ns / S, nanos: (ns % S) as i64 });
            }
            OStep::Probe { who } => self.probe(who),
        }
    }
}

pub fn run_oe_sale(c: &OeSaleCase, gen: Option<(&mut Rng, usize, &[u128])>) -> CaseResult {
    let mut w = match OeWorld::new(c.cfg.clone()) {
        Ok(w) => w,
        Err(_) => {
            let mut r = CaseResult { coq: vec![], coq_oe: vec![], coq_extra: vec![], steps: 0, ok_steps: 0, violations: vec![], hist: BTreeMap::new(), executed: vec![], executed_oe: vec![] };
            *r.hist.entry(format!("{}:create:err", OE_VARIANTS[c.cfg.variant].name)).or_insert(0) += 1;
            return r;
        }
    };
    let init = w.init_state_coq();
    let init_bal = w.balances_coq();
    let mut d = OeDriver::new(w);
    for st in &c.steps {
        d.step(st);
        if d.res.violations.len() > 5 {
            break;
        }
    }
    if let Some((rng, len, lits)) = gen {
        for _ in 0..len {
            let st = next_ostep(rng, &d, c, lits);
            d.step(&st);
            if d.res.violations.len() > 5 {
                break;
            }
        }
    }
    let steps = std::mem::take(&mut d.res.coq);
    let coq = d.w.case_coq(&init, &init_bal, &steps);
    d.res.coq_oe = vec![coq];
    d.res
}

fn next_ostep(rng: &mut Rng, d: &OeDriver, c: &OeSaleCase, lits: &[u128]) -> OStep {
    let t0 = d.w.t0;
    let now = d.now();
    let start = d.start();
    let end = d.w.end_time();
    let public = d.public_price();
    let min = d.min_price();
    let around = |rng: &mut Rng, x: u128| -> u128 {
        match rng.below(3) {
            0 => x.saturating_sub(1),
            1 => x,
            _ => x + 1,
        }
    };
    match rng.below(100) {
        0..=24 => {
            let mut targets: Vec<u64> = vec![];
            if start + 1 > now {
                targets.extend([start - 1, start, start + 1]);
            }
            if let Some(e) = end {
                if e > now + 1 && rng.chance(1, 6) {
                    targets.extend([e - 1, e, e + 1]);
                }
            }
            for sp in &c.cfg.spares {
                for t in [t0 + sp.start_in * S, t0 + sp.end_in * S] {
                    if t > now && rng.chance(1, 2) {
                        targets.push(t + rng.below(3) - 1);
                    }
                }
            }
            let t = if targets.is_empty() || rng.chance(1, 3) { now + rng.range(1, 400) * S + rng.below(S) } else { *rng.pick(&targets) };
            OStep::AtNs { ns: t - t0 }
        }
        25..=54 => {
            let price = match rng.below(8) {
                0 | 1 | 2 => around(rng, min),
                3 | 4 | 5 => around(rng, public),
                6 if !lits.is_empty() => {
                    let l = *rng.pick(lits);
                    around(rng, l)
                }
                _ => rng.range(min.saturating_sub(2) as u64, (public.max(min) + 40) as u64) as u128,
            };
            OStep::Op(OeOp::UpdateMintPrice { who: admin_or(rng), price })
        }
        55..=66 => {
            let m = match rng.below(4) {
                0 => around(rng, public),
                1 => min + rng.range(1, 10) as u128,
                2 => 0,
                _ => min.saturating_sub(rng.range(1, 10) as u128),
            };
            let mut g = gen_gov(rng, &[m], false);
            g.shuffle_fee = None;
            if let Some(l) = g.max_token_limit {
                g.max_token_limit = Some(l.max(100));
            }
            if g.airdrop_price == Some(0) {
                g.airdrop_price = Some(10);
            }
            OStep::Gov(g)
        }
        67..=76 => OStep::Op(OeOp::SetWhitelist { who: admin_or(rng), spare: rng.below(c.cfg.spares.len().max(1) as u64 + 1) as usize }),
        77..=80 => {
            let t = now - t0 + rng.range(1, 1500) * S;
            OStep::Op(OeOp::UpdateStartTime { who: admin_or(rng), secs: t / S, nanos: (t % S) as i64 })
        }
        81..=83 => {
            let (who, stored) = gen_migrate_args(rng, &migrate_version_pool());
            OStep::Op(OeOp::Migrate { who, stored })
        }
        _ => {
            let all = [BUYERS[0], BUYERS[1], BUYERS[2], STRANGER, PAYADDR, CREATOR];
            let open: Vec<&str> = all.iter().copied().filter(|a| d.mints_ok.get(*a).copied().unwrap_or(0) < c.cfg.pal).collect();
            let who = if open.is_empty() || rng.chance(1, 10) { *rng.pick(&all) } else { *rng.pick(&open) };
            OStep::Probe { who: who.into() }
        }
    }
}

/// spare whitelists of the kind this variant can talk to: prices min-1 / min / min+1 in the
/// factory's denom and one in the other denom; windows before the minter's start
fn oe_spares(variant: usize, ibc: bool, min: u128, w0: u64) -> Vec<SpareWl> {
    let kind = if OE_VARIANTS[variant].flex { 2 } else if OE_VARIANTS[variant].merkle { 4 } else { 0 };
    vec![
        SpareWl { kind, start_in: w0, end_in: w0 + 200, price: min.saturating_sub(1), ibc },
        SpareWl { kind, start_in: w0, end_in: w0 + 200, price: min, ibc },
        SpareWl { kind, start_in: w0 + 250, end_in: w0 + 400, price: min + 1, ibc },
        SpareWl { kind, start_in: w0, end_in: w0 + 200, price: min + 1, ibc: !ibc },
        SpareWl { kind, start_in: w0, end_in: w0 + 200, price: min + 20, ibc: !ibc },
        SpareWl { kind, start_in: w0, end_in: w0 + 200, price: min + 20, ibc },
    ]
}

fn oe_cfg(variant: usize, ibc: bool, min: u128, price: u128, capped: bool) -> OeCfg {
    let mut cfg = OeCfg::basic(variant);
    cfg.fp.min_price = min;
    cfg.fp.denom = denom_name(ibc).into();
    cfg.fp.max_token_limit = 100;
    cfg.num_tokens = if capped { Some(60) } else { None };
    cfg.end_in_secs = Some(400_000);
    cfg.pal = 3;
    cfg.price = price;
    cfg.start_in_secs = 1000;
    cfg.spares = oe_spares(variant, ibc, min, 300);
    cfg
}

fn oat(ns: u64) -> OStep {
    OStep::AtNs { ns }
}
fn oump(price: u128) -> OStep {
    OStep::Op(OeOp::UpdateMintPrice { who: CREATOR.into(), price })
}
fn osudo_min(m: u128) -> OStep {
    OStep::Gov(Gov { min_price: Some((m, false)), ..Default::default() })
}
fn oprobe(who: &str) -> OStep {
    OStep::Probe { who: who.into() }
}
fn oset_wl(spare: usize) -> OStep {
    OStep::Op(OeOp::SetWhitelist { who: CREATOR.into(), spare })
}

fn oe_corpus() -> Vec<Case> {
    let mut v = vec![];
    let start = 1000 * S;
    for variant in 0..3 {
        // (A) every guard of UpdateMintPrice at its boundary
        v.push(Case::OeSale(OeSaleCase {
            cfg: oe_cfg(variant, false, 50, 100, true),
            steps: vec![
                oat(start - 1),
                oump(49),                                                              // below the minimum: refused
                oump(50),                                                              // accepted
                oump(120),                                                             // raise before the start: accepted
                OStep::Op(OeOp::UpdateMintPrice { who: STRANGER.into(), price: 110 }), // not the admin
                oprobe(BUYERS[0]),                                                     // nothing is sold before the start
                oat(start),
                oump(121),                                                             // refused
                oump(120),                                                             // same price at the start instant: refused
                oump(119),                                                             // accepted
                oprobe(BUYERS[0]),
                osudo_min(60),
                oump(59),                                                              // below the new minimum: refused
                oump(60),                                                              // accepted
                oprobe(BUYERS[1]),
                osudo_min(40),
                oat(start + 5 * S),
                oump(61),                                                              // raise after the start: refused
                oump(40),                                                              // accepted
                oprobe(STRANGER),
                oump(39),                                                              // refused
                oat(400_000 * S),
                oump(40),                                                              // at the end time: refused
            ],
        }));
        // (B) D8 shape: IBC-denominated factory, minimum replaced by governance
        v.push(Case::OeSale(OeSaleCase {
            cfg: oe_cfg(variant, true, 50, 100, true),
            steps: vec![oump(49), oump(110), osudo_min(70), oump(69), oump(90), oat(start), oprobe(BUYERS[0]), oump(80), oprobe(BUYERS[1])],
        }));
        // (B') same factory without governance change
        v.push(Case::OeSale(OeSaleCase {
            cfg: oe_cfg(variant, true, 50, 100, true),
            steps: vec![oump(49), oump(110), oset_wl(3), oset_wl(1), oat(start), oump(90), oprobe(BUYERS[0])],
        }));
        // (B'') the D8 situation and SetWhitelist: every open-edition variant compares the whitelist's
        // denom with its own denom AND with the minimum's, so nothing can be attached any more
        v.push(Case::OeSale(OeSaleCase {
            cfg: oe_cfg(variant, true, 50, 100, true),
            steps: vec![
                osudo_min(70),
                oset_wl(3),                                                            // native 51 < 70: refused
                oset_wl(4),                                                            // native 70: the minimum's denom, not the minter's: refused
                oset_wl(5),                                                            // IBC 70: the minter's denom, not the minimum's: refused
                oprobe(BUYERS[0]),
                oat(350 * S),
                oprobe(BUYERS[0]),
                oat(start),
                oprobe(BUYERS[0]),
            ],
        }));
        // (G) governance proposals of every shape inside a price history
        {
            let m = |p: u128| Some((p, false));
            v.push(Case::OeSale(OeSaleCase {
                cfg: oe_cfg(variant, false, 50, 100, true),
                steps: vec![
                    OStep::Gov(Gov { min_price: m(51), creation_fee: Some(6_000), ..Default::default() }),
                    oump(50),
                    oump(51),
                    oset_wl(1),                                                            // 50 < 51: refused
                    oset_wl(2),                                                            // 51: accepted
                    OStep::Gov(Gov { min_price: m(62), mint_fee_bps: Some(900), ..Default::default() }),
                    oump(61),
                    oump(62),
                    OStep::Gov(Gov { min_price: m(64), offset: Some(86_400), ..Default::default() }),
                    oump(63),
                    oump(64),
                    OStep::Gov(Gov { min_price: m(66), airdrop_price: Some(10), ..Default::default() }),
                    oump(65),
                    oump(66),
                    OStep::Gov(Gov { min_price: m(68), airdrop_fee_bps: Some(4000), ..Default::default() }),
                    oump(67),
                    oump(68),
                    OStep::Gov(Gov { min_price: m(70), max_pal: Some(9), ..Default::default() }),
                    oump(69),
                    oump(70),
                    OStep::Gov(Gov { min_price: m(72), max_token_limit: Some(90), ..Default::default() }),
                    oump(71),
                    oump(72),
                    OStep::Gov(Gov { min_price: m(76), ..Default::default() }),
                    oump(75),
                    oump(76),
                    OStep::Gov(Gov { creation_fee: Some(7_000), ..Default::default() }),
                    oump(75),
                    OStep::Gov(Gov { min_price: Some((40, true)), creation_fee: Some(1), ..Default::default() }),
                    oump(75),
                    OStep::Gov(Gov { min_price: m(57), creation_fee: Some(5_000), mint_fee_bps: Some(1000), offset: Some(604_800), airdrop_price: Some(40),
                                     airdrop_fee_bps: Some(5000), max_pal: Some(10), max_token_limit: Some(100), shuffle_fee: None }),
                    oump(56),
                    oump(90),
                    oat(start),
                    OStep::Gov(Gov { min_price: m(80), creation_fee: Some(5_001), ..Default::default() }),
                    oump(79),                                                              // lower than 90 but below the decided minimum: refused
                    oump(80),
                    oprobe(BUYERS[0]),
                ],
            }));
        }
        // (H) migrations of the minter inside a price history
        {
            let omig = |who: &str, stored: Option<(&str, &str)>| OStep::Op(OeOp::Migrate { who: who.into(), stored: stored.map(|(x, y)| (x.to_string(), y.to_string())) });
            v.push(Case::OeSale(OeSaleCase {
                cfg: oe_cfg(variant, false, 50, 100, true),
                steps: vec![
                    omig(CREATOR, Some(("@own", "3.8.9"))),
                    oump(120),
                    omig(STRANGER, Some(("@own", "3.8.9"))),
                    oset_wl(1),
                    omig(CREATOR, Some(("@own", "3.9.0"))),
                    oat(350 * S),
                    oprobe(BUYERS[0]),
                    oat(start),
                    oump(110),
                    omig(CREATOR, None),
                    oprobe(BUYERS[0]),
                    omig(CREATOR, Some(("@own", "99.0.0"))),
                    omig(CREATOR, Some(("crates.io:something-else", "3.0.0"))),
                    oump(111),
                    omig(CREATOR, Some(("@own", "2.0.0"))),
                    oprobe(BUYERS[1]),
                ],
            }));
        }
        // (I) factories whose minimum is 0 or 1, in either denom
        for ibc in [false, true] {
            for m in [0u128, 1] {
                let mut st = vec![];
                if m > 0 {
                    st.push(oump(m - 1));
                }
                st.extend(vec![
                    oump(m),
                    oump(20),
                    oset_wl(3),                                                        // the other denom: refused
                    oset_wl(1),                                                        // price m in the factory's denom
                    oat(350 * S),
                    oprobe(BUYERS[0]),
                    oat(start),
                    oprobe(BUYERS[1]),
                    oump(m + 1),
                    oprobe(BUYERS[2]),
                    oump(m),
                    oprobe(BUYERS[2]),
                ]);
                v.push(Case::OeSale(OeSaleCase { cfg: oe_cfg(variant, ibc, m, m + 2, true), steps: st }));
            }
        }
        // (C) attaching whitelists: price below / at the minimum, other denom, raised minimum; whitelist price while active
        v.push(Case::OeSale(OeSaleCase {
            cfg: oe_cfg(variant, false, 50, 100, true),
            steps: vec![
                oset_wl(0),                                                            // 49 < 50: refused
                oset_wl(3),                                                            // other denom: refused
                OStep::Op(OeOp::SetWhitelist { who: STRANGER.into(), spare: 1 }),
                osudo_min(51),
                oset_wl(1),                                                            // 50 < 51: refused
                osudo_min(50),
                oset_wl(1),                                                            // accepted
                oprobe(BUYERS[0]),                                                     // not active yet, not started
                oat(350 * S),
                oprobe(BUYERS[0]),                                                     // member at the whitelist price 50
                oprobe(STRANGER),                                                      // not a member
                oset_wl(2),                                                            // refused: the attached whitelist is active
                oump(45),                                                              // refused (< minimum); the quote stays the whitelist's
                oump(70),
                oprobe(BUYERS[1]),
                oat(520 * S),
                oset_wl(2),                                                            // accepted (old one ended, new one not started)
                oat(560 * S),
                oprobe(BUYERS[0]),                                                     // whitelist price 51
                oat(start),
                oset_wl(1),                                                            // after the start: refused
                oprobe(BUYERS[2]),
            ],
        }));
        // (D) no token cap: a zero price is refused even under a zero minimum
        v.push(Case::OeSale(OeSaleCase {
            cfg: oe_cfg(variant, false, 1, 10, false),
            steps: vec![osudo_min(0), oump(0), oump(1), oat(start), oprobe(BUYERS[0]), oump(0)],
        }));
        // (E) with a cap a zero price is allowed under a zero minimum
        v.push(Case::OeSale(OeSaleCase {
            cfg: oe_cfg(variant, false, 1, 10, true),
            steps: vec![osudo_min(0), oump(0), oat(start), oprobe(BUYERS[0]), oump(5)],
        }));
        // the governance minimum as a full dimension (see the vending corpus)
        for ibc in [false, true] {
            for m in [0u128, 1] {
                let mut probes: Vec<(u128, bool, bool)> = vec![];
                for other in [false, true] {
                    for a in [0u128, m.saturating_sub(1), m, m + 1, 100] {
                        if !probes.iter().any(|p| p.0 == a && p.1 == (ibc != other)) {
                            probes.push((a, ibc != other, true));
                        }
                    }
                    probes.push((0, ibc != other, false));       // free and uncapped: refused whatever the minimum
                    probes.push((1, ibc != other, false));
                }
                v.push(Case::OeCreate(OeCreateCase { variant, ibc, min_price: m, world_price: m.max(1), world_capped: true, sudo_min: None, sudo_fee: None, probes }));
            }
            v.push(Case::OeCreate(OeCreateCase {
                variant,
                ibc,
                min_price: 50,
                world_price: 50,
                world_capped: true,
                sudo_min: Some(0),
                sudo_fee: if ibc { Some(6_000) } else { None },
                probes: vec![(0, false, true), (1, false, true), (0, true, true), (1, true, true), (50, true, true), (50, false, false)],
            }));
        }
        // creation probes
        for (ibc, wp) in [(false, 49u128), (false, 50), (true, 49), (true, 51)] {
            v.push(Case::OeCreate(OeCreateCase {
                variant,
                ibc,
                min_price: 50,
                world_price: wp,
                world_capped: true,
                sudo_min: None,
                sudo_fee: None,
                probes: vec![(49, ibc, true), (50, ibc, true), (51, ibc, false), (50, !ibc, true), (1000, !ibc, false)],
            }));
        }
        v.push(Case::OeCreate(OeCreateCase {
            variant,
            ibc: variant == 1,
            min_price: 50,
            world_price: 50,
            world_capped: variant != 2,
            sudo_min: Some(70),
            sudo_fee: None,
            probes: vec![(69, false, true), (70, false, true), (71, false, false), (69, true, true), (70, true, true), (50, variant == 1, true)],
        }));
        v.push(Case::OeCreate(OeCreateCase {
            variant,
            ibc: false,
            min_price: 50,
            world_price: 50,
            world_capped: true,
            sudo_min: Some(70),
            sudo_fee: Some(6_000),
            probes: vec![(69, false, true), (70, false, true), (50, false, false)],
        }));
        v.push(Case::OeCreate(OeCreateCase {
            variant,
            ibc: false,
            min_price: 1,
            world_price: 1,
            world_capped: true,
            sudo_min: Some(0),
            sudo_fee: None,
            probes: vec![(0, false, true), (0, false, false), (1, false, false)],
        }));
    }
    v
}

fn gen_oe_sale(rng: &mut Rng, variant: usize) -> OeSaleCase {
    let min = *rng.pick(&[0u128, 1, 50, 50, 50, 77]);
    let capped = rng.chance(3, 4);
    let mut price = min + *rng.pick(&[0u128, 1, 30, 50]);
    if !capped {
        price = price.max(1); // a free edition needs a cap
    }
    OeSaleCase { cfg: oe_cfg(variant, rng.chance(1, 4), min, price, capped), steps: vec![] }
}

pub fn run_oe_create(c: &OeCreateCase) -> CaseResult {
    let mut r = CaseResult { coq: vec![], coq_oe: vec![], coq_extra: vec![], steps: 0, ok_steps: 0, violations: vec![], hist: BTreeMap::new(), executed: vec![], executed_oe: vec![] };
    let vname = OE_VARIANTS[c.variant].name;
    let mut cfg = oe_cfg(c.variant, c.ibc, c.min_price, c.world_price, c.world_capped);
    cfg.spares = vec![];
    let res = OeWorld::new(cfg);
    r.steps += 1;
    let ok = res.is_ok();
    *r.hist.entry(format!("{}:create:{}", vname, if ok { "ok" } else { "err" })).or_insert(0) += 1;
    let did0 = if c.ibc { 1 } else { 0 };
    r.coq.push(format!("(COeCreate {} {} {} {} {} {})", c.min_price, did0, c.world_price, did0, coq_bool(c.world_capped), coq_bool(ok)));
    let mut w = match res {
        Ok(w) => w,
        Err(_) => return r,
    };
    r.ok_steps += 1;
    if c.world_price < c.min_price {
        r.violations.push(("C07:creation-below-minimum".into(), format!("{}: minter created at {} under a factory minimum of {}", vname, c.world_price, c.min_price), 0));
    }
    let mut ledger = Ledger { min: c.min_price, denom: denom_name(c.ibc).into() };
    if c.sudo_min.is_some() || c.sudo_fee.is_some() {
        let g = Gov { min_price: c.sudo_min.map(|m| (m, false)), creation_fee: c.sudo_fee, ..Default::default() };
        let f = w.factory.clone();
        let ad = w.cfg.fp.denom.clone();
        let ok = chain::sudo(&mut w.app, &f, &gov_msg(&g, false, &ad)).is_ok();
        let params = w.factory_params();
        let (coq, viol) = gov_after(&mut ledger, &g, ok, &params, &mut w.denoms);
        r.coq.push(coq);
        if let Some(v) = viol {
            r.violations.push((KEY_GOV_PARAMS.into(), format!("{}: {}", vname, v), 0));
        }
    }
    let sg721 = w.factory_params()["allowed_sg721_code_ids"][0].as_u64().unwrap();
    for (i, (price, ibc, capped)) in c.probes.iter().enumerate() {
        let params = w.factory_params();
        let min_now = amount_of(&params["min_mint_price"]);
        let min_denom_now = denom_of(&params["min_mint_price"]);
        let denom = denom_name(*ibc);
        let now = chain::now(&w.app);
        let msg = json!({"create_minter": {
            "init_msg": {
                "nft_data": {"nft_data_type": "off_chain_metadata", "extension": null,
                             "token_uri": "ipfs://bafybeigi3bwpvyvsmnbj46ra4hyffcxdeaj6ntfk5jpic5mx27x6ih2qvq/images/1.png"},
                "payment_address": null,
                "start_time": (now + 1000 * S).to_string(),
                "end_time": (now + 5000 * S).to_string(),
                "num_tokens": if *capped { Some(5) } else { None },
                "mint_price": {"amount": price.to_string(), "denom": denom},
                "per_address_limit": 1,
                "whitelist": null,
            },
            "collection_params": {"code_id": sg721, "name": format!("Probe{}", i), "symbol": "PRB",
                "info": {"creator": CREATOR, "description": "d", "image": "https://example.com/image.png",
                         "external_link": "https://example.com/external.html", "explicit_content": false,
                         "start_trading_time": null,
                         "royalty_info": {"payment_address": CREATOR, "share": "0.1"}}}}});
        let f = w.factory.clone();
        let fee = amount_of(&params["creation_fee"]);
        let res = chain::exec(&mut w.app, CREATOR, &f, &msg, &[coin(fee, NATIVE)]);
        let ok = res.is_ok();
        r.steps += 1;
        if ok {
            r.ok_steps += 1;
        }
        *r.hist.entry(format!("{}:create:{}", vname, if ok { "ok" } else { "err" })).or_insert(0) += 1;
        let did = w.denoms.id(denom);
        let mdid = w.denoms.id(&min_denom_now);
        r.coq.push(format!("(COeCreate {} {} {} {} {} {})", min_now, mdid, price, did, coq_bool(*capped), coq_bool(ok)));
        if ok && *price < min_now {
            r.violations.push(("C07:creation-below-minimum".into(), format!("{}: create_minter at {} {} accepted under a factory minimum of {} {}", vname, price, denom, min_now, min_denom_now), i + 1));
        }
        if ok && *price < ledger.min {
            r.violations.push((KEY_GOV_FLOOR.into(), format!("{}: create_minter at {} {} accepted while governance last set the minimum to {} {} (the factory reports {} {})", vname, price, denom, ledger.min, ledger.denom, min_now, min_denom_now), i + 1));
        }
        if ok {
            // the price the new minter really sells at (its own Config), against the denom governance decided
            let created_denom = res
                .as_ref()
                .ok()
                .and_then(|resp| {
                    resp.events.iter().filter(|e| e.ty == "instantiate").filter_map(|e| e.attributes.iter().find(|a| a.key == "_contract_address").map(|a| a.value.clone())).find_map(|addr| {
                        w.app.wrap().query_wasm_smart::<Value>(addr, &json!({"config": {}})).ok().filter(|c| c.get("sg721_address").is_some()).map(|c| denom_of(&c["mint_price"]))
                    })
                })
                .unwrap_or_else(|| denom.to_string());
            if created_denom != ledger.denom {
                r.violations.push((
                    "C07:created-in-foreign-denom".into(),
                    format!("{}: create_minter at {} {} accepted: the new minter sells in {} while the governance minimum is {} {}", vname, price, denom, created_denom, ledger.min, ledger.denom),
                    i + 1,
                ));
            }
        }
        if ok && denom != min_denom_now {
            r.violations.push(("C07:creation-wrong-denom".into(), format!("{}: create_minter at {} {} accepted while the factory minimum is in {}", vname, price, denom, min_denom_now), i + 1));
        }
    }
    r
}

fn shrink_oe(c: &OeSaleCase, key: &str, what: &str, upto: usize) -> OeSaleCase {
    let mut cur = c.clone();
    cur.steps.truncate(upto + 1);
    let kind = |w: &str| -> String { w.chars().take_while(|ch| !ch.is_ascii_digit()).collect() };
    let want = kind(what);
    let reproduces = |s: &OeSaleCase| run_oe_sale(s, None).violations.iter().any(|v| v.0 == key && kind(&v.1) == want);
    if !reproduces(&cur) {
        return cur;
    }
    let mut budget = 40;
    let mut chunk = (cur.steps.len() / 2).max(1);
    while budget > 0 {
        let mut i = 0;
        while i + chunk <= cur.steps.len() && budget > 0 {
            let mut t = cur.clone();
            t.steps.drain(i..i + chunk);
            budget -= 1;
            if !t.steps.is_empty() && reproduces(&t) {
                cur = t;
            } else {
                i += chunk;
            }
        }
        if chunk == 1 {
            break;
        }
        chunk /= 2;
    }
    cur
}

pub fn run(a: &Args) {
    let out = OutDir::new(&a.out);
    let mut rep = Report { property: "C07".into(), tier: a.tier.clone(), seed: a.seed, ..Default::default() };
    let mut rng = Rng::new(a.seed);
    let mut files: Vec<String> = VARIANTS.iter().map(|v| format!("contracts/minters/{}/src/contract.rs", v.name)).collect();
    files.push("contracts/factories/vending-factory/src/contract.rs".into());
    files.extend(OE_VARIANTS.iter().map(|v| format!("contracts/minters/{}/src/contract.rs", v.name)));
    files.push("contracts/factories/open-edition-factory/src/contract.rs".into());
    let lits: Vec<u128> = harvest_literals(&files.iter().map(|s| s.as_str()).collect::<Vec<_>>()).into_iter().filter(|x| *x >= 1 && *x <= 1000).collect();
    // (case, number of generated steps to append online)
    let cases: Vec<(Case, usize)> = if let Some(p) = &a.replay {
        #[derive(Deserialize)]
        struct ReplayFile {
            case: Case,
        }
        let rf: ReplayFile = serde_json::from_str(&std::fs::read_to_string(p).expect("replay file")).expect("replay json");
        vec![(rf.case, 0)]
    } else {
        let mut v: Vec<(Case, usize)> = corpus().into_iter().map(|c| (c, 0)).collect();
        let per_variant = if a.thorough() { 80 } else { 8 };
        for variant in 0..6 {
            for _ in 0..per_variant {
                let len = rng.range(35, 60) as usize;
                v.push((Case::Sale(gen_sale(&mut rng, variant)), len));
            }
        }
        // part 2: open edition
        v.extend(oe_corpus().into_iter().map(|c| (c, 0)));
        let per_oe = if a.thorough() { 80 } else { 6 };
        for variant in 0..3 {
            for _ in 0..per_oe {
                let len = rng.range(30, 50) as usize;
                v.push((Case::OeSale(gen_oe_sale(&mut rng, variant)), len));
            }
        }
        v
    };
    let mut coq_cases = vec![];
    let mut oe_cases: Vec<String> = vec![];
    let mut nviol = 0;
    let mut seen_keys: BTreeMap<String, u32> = BTreeMap::new();
    for (i, (c, len)) in cases.iter().enumerate() {
        let r = run_case(c, if *len > 0 { Some((&mut rng, *len, &lits[..])) } else { None });
        rep.evaluations += r.steps;
        rep.distinct_nontrivial += r.ok_steps;
        for (k, v) in &r.hist {
            *rep.histogram.entry(k.clone()).or_insert(0) += v;
        }
        // the concrete case (generated steps included)
        let concrete = match c {
            Case::Sale(s) => {
                let mut s2 = s.clone();
                s2.steps = r.executed.clone();
                Case::Sale(s2)
            }
            Case::Create(k) => Case::Create(k.clone()),
            Case::OeSale(s) => {
                let mut s2 = s.clone();
                s2.steps = r.executed_oe.clone();
                Case::OeSale(s2)
            }
            Case::OeCreate(k) => Case::OeCreate(k.clone()),
        };
        let mut keys_here = BTreeSet::new();
        // one replay per key and case: the first occurrence, except for D4 where the last one
        // is taken so that the replay contains the over-charged mint itself when the history has one
        let mut chosen: Vec<&(String, String, usize)> = vec![];
        for v in r.violations.iter() {
            if keys_here.insert(v.0.clone()) {
                chosen.push(v);
            } else if v.0 == KEY_D4 {
                if let Some(slot) = chosen.iter_mut().find(|c| c.0 == v.0) {
                    *slot = v;
                }
            }
        }
        for (key, what, idx) in chosen.into_iter() {
            let family = if matches!(c, Case::OeSale(_) | Case::OeCreate(_)) { "oe" } else { "vending" };
            let n = seen_keys.entry(format!("{}/{}", family, key)).or_insert(0);
            *n += 1;
            if *n > 3 {
                continue; // three replays per shape are enough
            }
            nviol += 1;
            let small = match &concrete {
                Case::Sale(s) if a.replay.is_none() => Case::Sale(shrink(s, key, what, *idx)),
                Case::OeSale(s) if a.replay.is_none() => Case::OeSale(shrink_oe(s, key, what, *idx)),
                other => other.clone(),
            };
            let body = format!(
                "{{\n \"property\": \"C07\",\n \"key\": {},\n \"case\": {},\n \"violation\": {}\n}}\n",
                serde_json::to_string(key).unwrap(),
                serde_json::to_string(&small).unwrap(),
                serde_json::to_string(what).unwrap()
            );
            let path = out.write_replay(&format!("C07-{}.json", nviol), &body);
            rep.violations.push(Violation { key: key.clone(), what: what.clone(), replay: path });
        }
        if (rep.samples.len() < 3 && (i % 11 == 0 || a.replay.is_some())) || (rep.samples.len() < 5 && matches!(c, Case::OeSale(_)) && i % 7 == 0) {
            rep.samples.push(match &concrete {
                Case::Sale(s) => json!({"variant": VARIANTS[s.variant].name, "ibc_factory": s.ibc, "min_price": s.min_price.to_string(),
                    "price": s.price.to_string(), "first_steps": s.steps.iter().take(8).map(|o| format!("{:?}", o)).collect::<Vec<_>>(),
                    "minter_steps": r.steps, "ok_steps": r.ok_steps}),
                Case::Create(k) => json!({"variant": VARIANTS[k.variant].name, "create": format!("{:?}", k)}),
                Case::OeSale(s) => json!({"variant": OE_VARIANTS[s.cfg.variant].name, "ibc_factory": s.cfg.fp.denom != NATIVE,
                    "min_price": s.cfg.fp.min_price.to_string(), "price": s.cfg.price.to_string(),
                    "first_steps": s.steps.iter().take(8).map(|o| format!("{:?}", o)).collect::<Vec<_>>(),
                    "minter_steps": r.steps, "ok_steps": r.ok_steps}),
                Case::OeCreate(k) => json!({"variant": OE_VARIANTS[k.variant].name, "create": format!("{:?}", k)}),
            });
        }
        coq_cases.extend(r.coq);
        coq_cases.extend(r.coq_extra);
        oe_cases.extend(r.coq_oe);
    }
    rep.rule = "sale histories (UpdateMintPrice/UpdateDiscountPrice/RemoveDiscountPrice/SetWhitelist/sudo min_mint_price/UpdateStartTime/probing mints at quoted-1, quoted+1, other advertised prices and the quote) on each of the six vending minters, native and IBC-denominated factories, at start±1ns, +12h(−1,0,+1 ns), +1h(−1,0,+1 ns), prices at min±1 / old±1 / discount±1; plus create_minter probes at min−1/min/min+1 and the other denom; corpus first. evaluations = minter steps and creation messages executed on the real contracts; distinct_nontrivial = those that were accepted (state-changing) || part 2: the same on each of the three open-edition minters created through the open-edition factory (UpdateMintPrice/SetWhitelist of pre-created spare whitelists at price min-1/min/min+1 and the other denom/sudo min_mint_price/UpdateStartTime/probing mints; no discount operations exist there), with and without a token cap, native and IBC-denominated factories, at start±1ns and the end time; open-edition create_minter probes at min-1/min/min+1, the other denom and zero price without a cap".into();
    rep.notes.push("SetWhitelist denom: the property text forbids attaching a whitelist priced in a denom different from the factory minimum in force; that is checked on all nine minters (whitelist-denom-differs-from-minimum). The four non-flex vending minters and the three open-edition minters additionally refuse a whitelist whose denom differs from the minter's own mint denom (stated in C07_set_whitelist_ok / C07_oe_set_whitelist_ok), and the monitor whitelist-denom-differs-from-mint-denom reports an accepted one there. The two vending wl-flex variants never had that check: after governance re-denominates the minimum of an IBC factory (the D8 situation) they accept a native-denom whitelist while selling in the IBC denom; this satisfies the property's clause (the whitelist is in the denom of the minimum in force), is a consequence of the recorded finding D8 and is deliberately not reported separately.".into());
    rep.notes.push("Governance ledger: the harness sends every sudo UpdateParams itself (random subsets of the optional fields, the minimum together with the creation fee / each other field / alone / absent / in a refused denom) and keeps its own record of the minimum governance last decided (instantiate value, then the last value supplied by an accepted proposal); floors are monitored against that record (C07:price-below-governance-minimum) and the factory's Params answer is compared with it after every proposal (C07:factory-minimum-differs-from-governance, and the CGov correspondence cases against Params.native_or_err).".into());
    out.write_cases("C07", "From LP Require Import Num Pay Sg1 Bank MinterVending CreatePrice SaleCorr C07Corr.", "c07_case", "c07_check", &coq_cases, 6, &mut rep);
    if !oe_cases.is_empty() {
        out.write_cases("C07oe", "From LP Require Import Num Pay Sg1 Bank MinterVending MinterOpen SaleOeCorr.", "oecase", "sale_oe_check", &oe_cases, 6, &mut rep);
    }
    out.finish(&rep);
    println!("C07 harness: {} cases, {} steps, {} monitor violations", cases.len(), rep.evaluations, nviol);
}
