//! C11 — whitelist membership accounting, capacity and fees are exact.
//! Drives the real whitelist, whitelist-flex, tiered-whitelist, tiered-whitelist-flex and
//! whitelist-immutable contracts through histories of instantiate / add / remove /
//! add-stage / remove-stage / increase-limit calls, records after every call what the
//! queries and the bank say (as Coq terms for the model comparison) and evaluates the
//! property sentence directly on those observations.
use crate::util::*;
use crate::w_whitelist::*;
use crate::Args;
use cosmwasm_std::Order;
use serde::Deserialize;
use serde_json::json;
use std::collections::{BTreeMap, BTreeSet};

const S: u64 = 1_000_000_000;
const T0: u64 = GENESIS + 1000 * S;
/// 100 STARS
const STARS_100: u128 = 100_000_000;

fn rb(r: &Option<bool>) -> String {
    match r {
        Some(b) => format!("(Ok {})", coq_bool(*b)),
        None => "Err".to_string(),
    }
}
fn coq_ledger(l: &Ledger) -> String {
    format!("(mkL {} {} {} {})", l.held, l.pool, l.burned, l.paid)
}

// ------------------------------------------------------------ observations

#[derive(Clone, Debug)]
struct MObs {
    num: u64,
    limit: u64,
    members: Vec<(u64, u32)>,
    has: Vec<(u64, Option<bool>)>,
    member: Vec<(u64, Option<u64>)>,
    can: Vec<(u64, Option<bool>)>,
    admins: (Vec<u64>, bool),
    ledger: Ledger,
}
fn member_query(w: &World, a: u64) -> Option<u64> {
    let v = w.query(&json!({"member": {"member": name(a)}})).ok()?;
    if v["address"].as_str() != Some(name(a).as_str()) {
        return Some(u64::MAX);
    }
    v["mint_count"].as_u64()
}
fn coq_rnums(v: &[(u64, Option<u64>)]) -> String {
    coq_list(&v.iter().map(|(a, r)| format!("({}, {})", a, match r { Some(c) => format!("Ok {}", c), None => "Err".to_string() })).collect::<Vec<_>>())
}
const SENDER_PROBES: [u64; 4] = [60, 61, 62, 50];
fn coq_rbools(v: &[(u64, Option<bool>)]) -> String {
    coq_list(&v.iter().map(|(a, r)| format!("({}, {})", a, rb(r))).collect::<Vec<_>>())
}
fn coq_admins(a: &(Vec<u64>, bool)) -> String {
    format!("({}, {})", coq_ns(&a.0), coq_bool(a.1))
}
impl MObs {
    fn coq(&self) -> String {
        format!(
            "(mkMobs {} {} {} {} {} {} {} {})",
            self.num,
            self.limit,
            coq_pairs(&self.members),
            coq_rbools(&self.has),
            coq_rnums(&self.member),
            coq_rbools(&self.can),
            coq_admins(&self.admins),
            coq_ledger(&self.ledger)
        )
    }
}
fn has_member(w: &World, a: u64) -> Option<bool> {
    w.query(&json!({"has_member": {"member": name(a)}})).ok().and_then(|v| v["has_member"].as_bool())
}
fn observe_pf(w: &World, probes: &[u64]) -> MObs {
    let c = w.query(&json!({"config": {}})).expect("config");
    MObs {
        num: c["num_members"].as_u64().unwrap_or(u64::MAX),
        limit: c["member_limit"].as_u64().unwrap_or(u64::MAX),
        members: w.members_all(None).unwrap_or_default(),
        has: probes.iter().map(|a| (*a, has_member(w, *a))).collect(),
        member: probes.iter().map(|a| (*a, member_query(w, *a))).collect(),
        can: SENDER_PROBES.iter().map(|a| (*a, w.can_execute(*a))).collect(),
        admins: w.admin_list(),
        ledger: w.ledger(),
    }
}

#[derive(Clone, Debug)]
struct TObs {
    num: u64,
    limit: u64,
    nstages: u64,
    stages: Vec<(u64, Vec<(u64, u32)>)>,
    beyond: Vec<(u64, u32)>,
    probe: Vec<(u64, u64, Option<bool>)>,
    has: Vec<(u64, Option<bool>)>,
    /// AllStageMemberInfo { member }: (stage_id, is_member, per_address_limit) per stage
    all: Vec<(u64, Option<Vec<(u64, bool, u64)>>)>,
    member: Vec<(u64, Option<u64>)>,
    /// first stage whose window contains the block time (from the Stages query); harness only
    active: Option<u64>,
    stage_beyond_ok: bool,
    can: Vec<(u64, Option<bool>)>,
    admins: (Vec<u64>, bool),
    ledger: Ledger,
}
impl TObs {
    fn coq(&self) -> String {
        format!(
            "(mkTobs {} {} {} {} {} {} {} {} {} {} {} {} {})",
            self.num,
            self.limit,
            self.nstages,
            coq_list(&self.stages.iter().map(|(c, ms)| format!("({}, {})", c, coq_pairs(ms))).collect::<Vec<_>>()),
            coq_pairs(&self.beyond),
            coq_list(&self.probe.iter().map(|(k, a, r)| format!("({}, {}, {})", k, a, rb(r))).collect::<Vec<_>>()),
            coq_rbools(&self.has),
            coq_list(
                &self
                    .all
                    .iter()
                    .map(|(a, r)| match r {
                        Some(l) => format!("({}, Ok {})", a, coq_list(&l.iter().map(|(k, b, p)| format!("({}, {}, {})", k, coq_bool(*b), p)).collect::<Vec<_>>())),
                        None => format!("({}, Err)", a),
                    })
                    .collect::<Vec<_>>()
            ),
            coq_rnums(&self.member),
            coq_bool(self.stage_beyond_ok),
            coq_rbools(&self.can),
            coq_admins(&self.admins),
            coq_ledger(&self.ledger)
        )
    }
}
fn all_stage_member_info(w: &World, a: u64) -> Option<Vec<(u64, bool, u64)>> {
    let v = w.query(&json!({"all_stage_member_info": {"member": name(a)}})).ok()?;
    Some(
        v["all_stage_member_info"]
            .as_array()?
            .iter()
            .map(|e| (e["stage_id"].as_u64().unwrap_or(u64::MAX), e["is_member"].as_bool().unwrap_or(false), e["per_address_limit"].as_u64().unwrap_or(u64::MAX)))
            .collect(),
    )
}
fn observe_t(w: &World, probes: &[u64]) -> TObs {
    let c = w.query(&json!({"config": {}})).expect("config");
    let stages_v = w.query(&json!({"stages": {}})).ok();
    let nstages = stages_v.as_ref().and_then(|v| v["stages"].as_array().map(|a| a.len())).unwrap_or(0) as u64;
    let now = crate::chain::now(&w.app);
    let active = stages_v.as_ref().and_then(|v| v["stages"].as_array().cloned()).and_then(|a| {
        a.iter().position(|e| u64_of(&e["stage"]["start_time"]) <= now && now <= u64_of(&e["stage"]["end_time"])).map(|i| i as u64)
    });
    let mut stages = vec![];
    for k in 0..nstages {
        let cnt = w
            .query(&json!({"stage": {"stage_id": k}}))
            .ok()
            .and_then(|v| v["member_count"].as_u64())
            .unwrap_or(u64::MAX);
        stages.push((cnt, w.members_all(Some(k as u32)).unwrap_or_default()));
    }
    let beyond = w.members_all(Some(nstages as u32)).unwrap_or_default();
    let mut probe = vec![];
    for k in 0..=nstages {
        for a in probes {
            let r = w
                .query(&json!({"stage_member_info": {"stage_id": k, "member": name(*a)}}))
                .ok()
                .and_then(|v| v["is_member"].as_bool());
            probe.push((k, *a, r));
        }
    }
    TObs {
        num: c["num_members"].as_u64().unwrap_or(u64::MAX),
        limit: c["member_limit"].as_u64().unwrap_or(u64::MAX),
        nstages,
        stages,
        beyond,
        probe,
        has: probes.iter().map(|a| (*a, has_member(w, *a))).collect(),
        all: probes.iter().map(|a| (*a, all_stage_member_info(w, *a))).collect(),
        member: probes.iter().map(|a| (*a, member_query(w, *a))).collect(),
        active,
        stage_beyond_ok: w.query(&json!({"stage": {"stage_id": nstages}})).is_ok(),
        can: SENDER_PROBES.iter().map(|a| (*a, w.can_execute(*a))).collect(),
        admins: w.admin_list(),
        ledger: w.ledger(),
    }
}

// ------------------------------------------------------------ Coq terms for the tiered model

fn coq_stage(s: &StageSpec) -> String {
    format!("(mkStage {} {} {} {})", s.start, s.end, s.pal, s.denom)
}
fn coq_timsg(i: &Init) -> String {
    format!(
        "(mkTimsg {} {} {} {} {} {})",
        coq_list(&i.members.iter().map(|m| coq_pairs(m)).collect::<Vec<_>>()),
        coq_list(&i.stages.iter().map(coq_stage).collect::<Vec<_>>()),
        i.limit,
        coq_opt32(i.whale),
        coq_ns(&i.admins),
        coq_bool(i.mutable)
    )
}
fn coq_o64(o: &Option<u64>) -> String {
    coq_opt_n(*o)
}
fn coq_top(op: &Op) -> String {
    match op {
        Op::TAdd { stage, ms } => format!("(TAdd {} {})", stage, coq_pairs(ms)),
        Op::TRemove { stage, ms } => format!("(TRemove {} {})", stage, coq_ns(ms)),
        Op::AddStage { stage, ms } => format!("(TAddStage {} {})", coq_stage(stage), coq_pairs(ms)),
        Op::RemoveStage(k) => format!("(TRemoveStage {})", k),
        Op::UpdStage { stage, start, end, pal } => {
            format!("(TUpdStage {} {} {} {})", stage, coq_o64(start), coq_o64(end), coq_opt32(*pal))
        }
        Op::Increase(n) => format!("(TIncrease {})", n),
        Op::UpdAdmins(l) => format!("(TUpdAdmins {})", coq_ns(l)),
        Op::Freeze => "TFreeze".to_string(),
        _ => panic!("plain op in a tiered history"),
    }
}

// ------------------------------------------------------------ monitors (property text)

fn tiers_fee(limit: u64) -> u128 {
    // 100 STARS per started thousand
    ((limit as u128 + 999) / 1000) * STARS_100
}
fn distinct(ms: &[(u64, u32)]) -> usize {
    ms.iter().map(|m| m.0).collect::<BTreeSet<_>>().len()
}

struct Mon {
    kind: Kind,
    viol: Option<(String, String)>,
}
impl Mon {
    fn flag(&mut self, key: String, what: String) {
        if self.viol.is_none() {
            self.viol = Some((key, what));
        }
    }
    /// key for a count mismatch: the two repaired defects keep their registered keys
    fn count_key(&self, opl: &str) -> String {
        match (self.kind, opl) {
            (Kind::Flex, "instantiate") => "C11:flex-instantiate-duplicates".into(),
            (Kind::Tiered | Kind::TieredFlex, "instantiate" | "add_stage") => "C11:tiered-counts".into(),
            (k, o) => format!("C11:{}:{}:count-mismatch", k.label(), o),
        }
    }
    fn capacity(&mut self, opl: &str, num: u64, limit: u64, prev_limit: Option<u64>) {
        let k = self.kind.label();
        if num > limit {
            self.flag(format!("C11:{}:{}:count-above-limit", k, opl), format!("num_members {} exceeds member_limit {}", num, limit));
        }
        if limit > self.kind.max_members() as u64 {
            self.flag(format!("C11:{}:{}:limit-above-maximum", k, opl), format!("member_limit {} exceeds the maximum {}", limit, self.kind.max_members()));
        }
        if let Some(p) = prev_limit {
            if limit < p {
                self.flag(format!("C11:{}:{}:limit-decreased", k, opl), format!("member_limit went {} -> {}", p, limit));
            }
        }
    }
    /// fees ever paid == 100 STARS per started thousand of the current limit; nothing held
    fn fees(&mut self, opl: &str, limit: u64, fees_paid: u128, stray: u128, l: &Ledger) {
        let k = self.kind.label();
        if fees_paid != tiers_fee(limit) {
            self.flag(
                format!("C11:{}:{}:fee-identity", k, opl),
                format!("fees paid so far {} but member_limit {} calls for {}", fees_paid, limit, tiers_fee(limit)),
            );
        }
        if l.held != stray {
            self.flag(format!("C11:{}:{}:holds-funds", k, opl), format!("whitelist balance is {} (funds sent with non-fee calls: {})", l.held, stray));
        }
        if l.pool + l.burned != fees_paid {
            self.flag(
                format!("C11:{}:{}:fee-not-burned-or-forwarded", k, opl),
                format!("fees paid {} but burned {} + fair-burn pool {}", fees_paid, l.burned, l.pool),
            );
        }
        if l.paid != fees_paid + stray {
            self.flag(format!("C11:{}:{}:payer-charged-differently", k, opl), format!("callers paid {} for fees {} (+{} stray)", l.paid, fees_paid, stray));
        }
    }
}

impl Mon {
    /// CanExecute answers true exactly for the stored admins; the admin list is what the
    /// history says it must be (`want`: creation list, replaced by an accepted update_admins,
    /// made immutable by an accepted freeze)
    fn admin(&mut self, opl: &str, can: &[(u64, Option<bool>)], admins: &(Vec<u64>, bool), want: &(Vec<u64>, bool)) {
        let k = self.kind.label();
        if admins != want {
            self.flag(format!("C11:{}:{}:admin-list-wrong", k, opl), format!("AdminList = {:?}, the calls accepted so far make it {:?}", admins, want));
        }
        for (a, r) in can {
            if let Some(b) = r {
                if *b != want.0.contains(a) {
                    self.flag(format!("C11:{}:{}:can-execute-wrong", k, opl), format!("CanExecute({}) = {} with admins {:?}", name(*a), b, want.0));
                }
            }
        }
    }
    /// AllStageMemberInfo: one entry per stage, is_member exactly for stored pairs (raw
    /// storage), and for the flex kind the stored mint count
    fn all_info(&mut self, opl: &str, w: &World, nstages: u64, all: &[(u64, Option<Vec<(u64, bool, u64)>>)]) {
        let k = self.kind.label();
        let raw = w.raw_members();
        for (a, r) in all {
            let Some(l) = r else { continue };
            if l.len() as u64 != nstages || l.iter().enumerate().any(|(i, e)| e.0 != i as u64) {
                self.flag(format!("C11:{}:{}:all-stage-info-shape", k, opl), format!("AllStageMemberInfo({}) lists stages {:?}, there are {}", name(*a), l.iter().map(|e| e.0).collect::<Vec<_>>(), nstages));
            }
            for (st, is_member, n) in l {
                let stored = raw.iter().find(|e| e.0 as u64 == *st && e.1 == *a);
                if *is_member != stored.is_some() {
                    self.flag(format!("C11:{}:{}:all-stage-info-wrong", k, opl), format!("AllStageMemberInfo({}) says is_member = {} for stage {}, stored = {}", name(*a), is_member, st, stored.is_some()));
                }
                if self.kind == Kind::TieredFlex && *n != stored.map(|e| e.2 as u64).unwrap_or(0) {
                    self.flag(format!("C11:{}:{}:all-stage-info-wrong", k, opl), format!("AllStageMemberInfo({}) reports {} mints for stage {}, stored {:?}", name(*a), n, st, stored.map(|e| e.2)));
                }
            }
        }
    }
}
impl Mon {
    /// Member { member } of the flex whitelist answers exactly for stored members, with the stored count
    fn member_flex(&mut self, opl: &str, w: &World, member: &[(u64, Option<u64>)]) {
        if self.kind != Kind::Flex {
            return;
        }
        let raw = w.raw_members();
        for (a, r) in member {
            let stored = raw.iter().find(|e| e.1 == *a).map(|e| e.2 as u64);
            if *a >= FIRST_VALID && *r != stored {
                self.flag(format!("C11:whitelist-flex:{}:member-query-wrong", opl), format!("Member({}) = {:?}, stored mint count {:?}", name(*a), r, stored));
            }
        }
    }
    /// Member { member } of the tiered-flex whitelist never reports a count that is stored in no stage
    fn member_tiered(&mut self, opl: &str, w: &World, o: &TObs) {
        let raw = w.raw_members();
        for (a, r) in &o.member {
            // the pair stored for the stage that is running now, if any
            let stored = o.active.and_then(|k| raw.iter().find(|e| e.0 as u64 == k && e.1 == *a)).map(|e| e.2 as u64);
            if self.kind == Kind::TieredFlex && *a >= FIRST_VALID && *r != stored {
                self.flag(format!("C11:{}:{}:member-query-wrong", self.kind.label(), opl), format!("Member({}) = {:?}; running stage {:?} stores {:?}", name(*a), r, o.active, stored));
            }
        }
        for (a, r) in &o.has {
            let stored = o.active.map_or(false, |k| raw.iter().any(|e| e.0 as u64 == k && e.1 == *a));
            if let Some(b) = r {
                if *b != stored {
                    self.flag(format!("C11:{}:{}:has-member-wrong", self.kind.label(), opl), format!("HasMember({}) = {}; running stage {:?}, stored there = {}", name(*a), b, o.active, stored));
                }
            }
        }
        if o.stage_beyond_ok {
            self.flag(format!("C11:{}:{}:stage-beyond-answered", self.kind.label(), opl), format!("Stage {{ stage_id: {} }} answers although there are {} stages", o.nstages, o.nstages));
        }
    }
}
fn track_admins(want: &mut (Vec<u64>, bool), op: &Op) {
    match op {
        Op::UpdAdmins(l) => want.0 = l.clone(),
        Op::Freeze => want.1 = false,
        _ => {}
    }
}

struct Outcome {
    extra: Vec<String>,
    coq: String,
    evals: u64,
    viol: Option<(String, String)>,
    hist: Vec<String>,
    nontrivial: bool,
    sample: String,
}

fn native_amount(fs: &[(String, u128)]) -> u128 {
    fs.iter().filter(|f| f.0 == NATIVE).map(|f| f.1).sum()
}

fn probe_ids(h: &History) -> Vec<u64> {
    let mut s: BTreeSet<u64> = [50u64, 61, 199].into_iter().collect();
    for l in &h.init.members {
        s.extend(l.iter().map(|m| m.0));
    }
    for st in &h.steps {
        match &st.op {
            Some(Op::Add(ms)) | Some(Op::TAdd { ms, .. }) | Some(Op::AddStage { ms, .. }) => s.extend(ms.iter().map(|m| m.0)),
            Some(Op::Remove(ms)) | Some(Op::TRemove { ms, .. }) => s.extend(ms.iter().cloned()),
            _ => {}
        }
    }
    if s.len() <= 9 {
        return s.into_iter().collect();
    }
    // big population: a malformed address, the first, second, middle and last member, one never used
    let m: Vec<u64> = s.iter().cloned().filter(|a| *a >= 100 && *a != 199).collect();
    let mut v = vec![50, m[0], m[m.len() / 2], m[m.len() - 1], m[m.len() - 1] + 1, m[1], 61];
    v.dedup();
    v
}

/// Enumeration clause of the property on the real contract: what the paginated Members
/// query yields, walked to its end with the default page, 7, 100 and 101 per page, is
/// exactly what is stored (raw storage read through the crate's own map), and the
/// reported counts are the size of that set.  Documented page sizes: default 25, at most 100.
fn enumeration_monitor(mon: &mut Mon, w: &World, opl: &str, num: u64, stage_counts: Option<&[u64]>) {
    let kl = mon.kind.label();
    let raw = w.raw_members();
    let stage_ids: Vec<Option<u32>> = if mon.kind.is_tiered() { (0..=3).map(Some).collect() } else { vec![None] };
    for st in &stage_ids {
        let want: Vec<(u64, u32)> = raw.iter().filter(|e| st.map_or(true, |k| e.0 == k)).map(|e| (e.1, e.2)).collect();
        for limit in [None, Some(7u32), Some(100), Some(101)] {
            let eff = limit.unwrap_or(25).min(100) as usize;
            match w.members_walk(*st, limit) {
                Err(e) => mon.flag(format!("C11:{}:{}:members-enumeration-differs", kl, opl), format!("Members(stage {:?}, limit {:?}) failed: {}", st, limit, e)),
                Ok((got, pages)) => {
                    if got != want {
                        mon.flag(
                            format!("C11:{}:{}:members-enumeration-differs", kl, opl),
                            format!("Members(stage {:?}) walked with limit {:?} yields {} entries ({} distinct), {} are stored", st, limit, got.len(), distinct(&got), want.len()),
                        );
                    }
                    let n = pages.len();
                    if pages.iter().enumerate().any(|(i, p)| *p > eff || *p == 0 || (i + 1 < n && *p != eff)) {
                        mon.flag(format!("C11:{}:{}:members-page-size", kl, opl), format!("Members(stage {:?}, limit {:?}) returned pages of {:?}; a full page is {}", st, limit, pages, eff));
                    }
                }
            }
        }
    }
    if raw.len() as u64 != num {
        let key = mon.count_key(opl);
        mon.flag(key, format!("after {}: num_members = {}, entries in storage = {}", opl, num, raw.len()));
    }
    if let Some(cs) = stage_counts {
        for (k, c) in cs.iter().enumerate() {
            let stored = raw.iter().filter(|e| e.0 as usize == k).count() as u64;
            if stored != *c {
                let key = mon.count_key(opl);
                mon.flag(key, format!("after {}: stage {} member_count = {}, entries in storage = {}", opl, k, c, stored));
            }
        }
        if let Some(e) = raw.iter().find(|e| e.0 as usize >= cs.len()) {
            mon.flag(format!("C11:{}:{}:orphan-members", kl, opl), format!("{} is stored under stage id {} but there are {} stages", name(e.1), e.0, cs.len()));
        }
    }
}

fn run_pf(h: &History) -> Outcome {
    let kind = h.init.kind;
    let mut w = World::new(kind);
    let mut mon = Mon { kind, viol: None };
    let probes = probe_ids(h);
    let mut hist = vec![];
    let env0 = coq_env(h.init.now, h.init.sender, &h.init.funds);
    let imsg = coq_imsg(&h.init);
    let r = w.instantiate(&h.init);
    hist.push(format!("{}:instantiate:{}", kind.label(), if r.is_ok() { "ok" } else { "err" }));
    if let Err(e) = &r {
        let l = w.ledger();
        if l != Ledger::default() {
            mon.flag(format!("C11:{}:instantiate:rejected-but-charged", kind.label()), format!("{:?}", l));
        }
        return Outcome {
            extra: vec![],
            coq: format!("C11Fail {} {} {}", kind.coq(), env0, imsg),
            evals: 1,
            viol: mon.viol,
            hist,
            nontrivial: !e.contains("parsing"),
            sample: format!("instantiate rejected: {}", e.chars().take(100).collect::<String>()),
        };
    }
    let mut evals = 1u64;
    let o0 = observe_pf(&w, &probes);
    let mut fees_paid = native_amount(&h.init.funds);
    let mut stray = 0u128;
    // each fee must be paid exactly
    if fees_paid != tiers_fee(o0.limit) {
        mon.flag(format!("C11:{}:instantiate:fee-not-exact", kind.label()), format!("created with limit {} for a payment of {}", o0.limit, fees_paid));
    }
    let check_counts = |mon: &mut Mon, opl: &str, o: &MObs| {
        if o.num as usize != o.members.len() || distinct(&o.members) != o.members.len() {
            let key = mon.count_key(opl);
            mon.flag(key, format!("after {}: num_members = {}, stored = {} ({} distinct)", opl, o.num, o.members.len(), distinct(&o.members)));
        }
        let stored: BTreeSet<u64> = o.members.iter().map(|m| m.0).collect();
        for (a, r) in &o.has {
            if let Some(b) = r {
                if *b != stored.contains(a) {
                    let k = mon.kind.label();
                    mon.flag(format!("C11:{}:{}:has-member-wrong", k, opl), format!("HasMember({}) = {} but stored = {}", name(*a), b, stored.contains(a)));
                }
            }
        }
    };
    let mut want_admins = (h.init.admins.clone(), h.init.mutable);
    mon.admin("instantiate", &o0.can, &o0.admins, &want_admins);
    mon.member_flex("instantiate", &w, &o0.member);
    enumeration_monitor(&mut mon, &w, "instantiate", o0.num, None);
    check_counts(&mut mon, "instantiate", &o0);
    mon.capacity("instantiate", o0.num, o0.limit, None);
    mon.fees("instantiate", o0.limit, fees_paid, stray, &o0.ledger);
    let mut prev = o0.clone();
    let mut steps_coq = vec![];
    let mut sample = String::new();
    let mut nontrivial = false;
    for s in &h.steps {
        let Some(op) = &s.op else { continue };
        evals += 1;
        let digest_before = w.digest();
        let r = w.exec(s);
        let ok = r.is_ok();
        let o = observe_pf(&w, &probes);
        enumeration_monitor(&mut mon, &w, op.kind_label(), o.num, None);
        if ok {
            track_admins(&mut want_admins, op);
        }
        mon.admin(op.kind_label(), &o.can, &o.admins, &want_admins);
        mon.member_flex(op.kind_label(), &w, &o.member);
        let opl = op.kind_label();
        hist.push(format!("{}:{}:{}", kind.label(), opl, if ok { "ok" } else { "err" }));
        if ok && matches!(op, Op::Add(_) | Op::Remove(_) | Op::Increase(_)) {
            nontrivial = true;
            if sample.is_empty() {
                sample = format!("{:?} -> num {} limit {} members {:?}", op, o.num, o.limit, o.members);
            }
        }
        if !ok {
            if w.digest() != digest_before {
                mon.flag(format!("C11:{}:{}:rejected-call-changed-state", kind.label(), opl), format!("{:?} rejected but storage changed", op));
            }
            if o.ledger != prev.ledger {
                mon.flag(format!("C11:{}:{}:rejected-but-charged", kind.label(), opl), format!("{:?} rejected but balances moved {:?} -> {:?}", op, prev.ledger, o.ledger));
            }
        } else {
            let pay = native_amount(&s.funds);
            match op {
                Op::Increase(n) => {
                    fees_paid += pay;
                    // each fee must be paid exactly: the difference of started thousands
                    let want = tiers_fee(*n as u64).saturating_sub(tiers_fee(prev.limit));
                    if pay != want {
                        mon.flag(format!("C11:{}:{}:fee-not-exact", kind.label(), opl), format!("limit {} -> {} accepted for a payment of {} (fee {})", prev.limit, n, pay, want));
                    }
                }
                _ => stray += pay,
            }
            let before: BTreeSet<u64> = prev.members.iter().map(|m| m.0).collect();
            let after: BTreeSet<u64> = o.members.iter().map(|m| m.0).collect();
            match op {
                Op::Remove(ms) => {
                    // removing requires existing members
                    if let Some(a) = ms.iter().find(|a| !before.contains(a)) {
                        mon.flag(format!("C11:{}:{}:removed-non-member", kind.label(), opl), format!("remove of {} accepted though it was not stored", name(*a)));
                    }
                    if let Some(a) = ms.iter().find(|a| after.contains(a)) {
                        mon.flag(format!("C11:{}:{}:removed-still-stored", kind.label(), opl), format!("{} still stored after its removal", name(*a)));
                    }
                }
                Op::Add(ms) => {
                    if let Some(a) = ms.iter().find(|a| !after.contains(&a.0)) {
                        mon.flag(format!("C11:{}:{}:added-not-stored", kind.label(), opl), format!("{} not stored after an accepted add", name(a.0)));
                    }
                    if let Some(a) = before.iter().find(|a| !after.contains(a)) {
                        mon.flag(format!("C11:{}:{}:add-dropped-member", kind.label(), opl), format!("{} disappeared during an add", name(*a)));
                    }
                }
                _ => {
                    if before != after {
                        mon.flag(format!("C11:{}:{}:members-changed", kind.label(), opl), format!("{:?} changed the member set", op));
                    }
                }
            }
        }
        check_counts(&mut mon, opl, &o);
        mon.capacity(opl, o.num, o.limit, Some(prev.limit));
        mon.fees(opl, o.limit, fees_paid, stray, &o.ledger);
        steps_coq.push(format!("MExec {} {} {} {}", coq_env(s.now, s.sender, &s.funds), coq_op(op), coq_bool(ok), o.coq()));
        prev = o;
    }
    Outcome {
        extra: vec![],
        coq: format!("C11Hist {} {} {} {} {}", kind.coq(), env0, imsg, o0.coq(), coq_list(&steps_coq)),
        evals,
        viol: mon.viol,
        hist,
        nontrivial,
        sample,
    }
}

fn run_tiered(h: &History) -> Outcome {
    let kind = h.init.kind;
    let mut w = World::new(kind);
    let mut mon = Mon { kind, viol: None };
    let probes: Vec<u64> = probe_ids(h).into_iter().take(5).collect();
    let mut hist = vec![];
    let env0 = coq_env(h.init.now, h.init.sender, &h.init.funds);
    let imsg = coq_timsg(&h.init);
    let r = w.instantiate(&h.init);
    hist.push(format!("{}:instantiate:{}", kind.label(), if r.is_ok() { "ok" } else { "err" }));
    if let Err(e) = &r {
        let l = w.ledger();
        if l != Ledger::default() {
            mon.flag(format!("C11:{}:instantiate:rejected-but-charged", kind.label()), format!("{:?}", l));
        }
        return Outcome {
            extra: vec![],
            coq: format!("C11TFail {} {} {}", kind.coq(), env0, imsg),
            evals: 1,
            viol: mon.viol,
            hist,
            nontrivial: !e.contains("parsing"),
            sample: format!("instantiate rejected: {}", e.chars().take(100).collect::<String>()),
        };
    }
    let mut evals = 1u64;
    let o0 = observe_t(&w, &probes);
    let mut fees_paid = native_amount(&h.init.funds);
    let mut stray = 0u128;
    if fees_paid != tiers_fee(o0.limit) {
        mon.flag(format!("C11:{}:instantiate:fee-not-exact", kind.label()), format!("created with limit {} for a payment of {}", o0.limit, fees_paid));
    }
    let check_counts = |mon: &mut Mon, opl: &str, o: &TObs| {
        let mut total = 0usize;
        for (k, (cnt, ms)) in o.stages.iter().enumerate() {
            total += ms.len();
            if *cnt as usize != ms.len() || distinct(ms) != ms.len() {
                let key = mon.count_key(opl);
                mon.flag(key, format!("after {}: stage {} member_count = {}, stored = {}", opl, k, cnt, ms.len()));
            }
        }
        total += o.beyond.len();
        if o.num as usize != total {
            let key = mon.count_key(opl);
            mon.flag(key, format!("after {}: num_members = {}, stored over all stages = {}", opl, o.num, total));
        }
        for (k, a, r) in &o.probe {
            if let Some(b) = r {
                let stored = if (*k as usize) < o.stages.len() { o.stages[*k as usize].1.iter().any(|m| m.0 == *a) } else { o.beyond.iter().any(|m| m.0 == *a) };
                if *b != stored {
                    let kl = mon.kind.label();
                    mon.flag(format!("C11:{}:{}:is-member-wrong", kl, opl), format!("StageMemberInfo({}, {}).is_member = {} but stored = {}", k, name(*a), b, stored));
                }
            }
        }
        for (a, r) in &o.has {
            if *r == Some(true) && !o.stages.iter().any(|(_, ms)| ms.iter().any(|m| m.0 == *a)) {
                let kl = mon.kind.label();
                mon.flag(format!("C11:{}:{}:has-member-wrong", kl, opl), format!("HasMember({}) = true but it is stored in no stage", name(*a)));
            }
        }
    };
    let mut want_admins = (h.init.admins.clone(), h.init.mutable);
    mon.admin("instantiate", &o0.can, &o0.admins, &want_admins);
    mon.all_info("instantiate", &w, o0.nstages, &o0.all);
    mon.member_tiered("instantiate", &w, &o0);
    enumeration_monitor(&mut mon, &w, "instantiate", o0.num, Some(&o0.stages.iter().map(|s| s.0).collect::<Vec<_>>()));
    check_counts(&mut mon, "instantiate", &o0);
    mon.capacity("instantiate", o0.num, o0.limit, None);
    mon.fees("instantiate", o0.limit, fees_paid, stray, &o0.ledger);
    let mut prev = o0.clone();
    let mut steps_coq = vec![];
    let mut sample = String::new();
    let mut nontrivial = false;
    for s in &h.steps {
        let Some(op) = &s.op else { continue };
        evals += 1;
        let digest_before = w.digest();
        let r = w.exec(s);
        let ok = r.is_ok();
        let o = observe_t(&w, &probes);
        enumeration_monitor(&mut mon, &w, op.kind_label(), o.num, Some(&o.stages.iter().map(|s| s.0).collect::<Vec<_>>()));
        if ok {
            track_admins(&mut want_admins, op);
        }
        mon.admin(op.kind_label(), &o.can, &o.admins, &want_admins);
        mon.member_tiered(op.kind_label(), &w, &o);
        mon.all_info(op.kind_label(), &w, o.nstages, &o.all);
        let opl = op.kind_label();
        hist.push(format!("{}:{}:{}", kind.label(), opl, if ok { "ok" } else { "err" }));
        if ok && matches!(op, Op::TAdd { .. } | Op::TRemove { .. } | Op::Increase(_) | Op::AddStage { .. } | Op::RemoveStage(_)) {
            nontrivial = true;
            if sample.is_empty() {
                sample = format!("{:?} -> num {} limit {} stages {:?}", op, o.num, o.limit, o.stages);
            }
        }
        if !ok {
            if w.digest() != digest_before {
                mon.flag(format!("C11:{}:{}:rejected-call-changed-state", kind.label(), opl), format!("{:?} rejected but storage changed", op));
            }
            if o.ledger != prev.ledger {
                mon.flag(format!("C11:{}:{}:rejected-but-charged", kind.label(), opl), format!("{:?} rejected but balances moved", op));
            }
        } else {
            let pay = native_amount(&s.funds);
            match op {
                Op::Increase(n) => {
                    fees_paid += pay;
                    let want = tiers_fee(*n as u64).saturating_sub(tiers_fee(prev.limit));
                    if pay != want {
                        mon.flag(format!("C11:{}:{}:fee-not-exact", kind.label(), opl), format!("limit {} -> {} accepted for a payment of {} (fee {})", prev.limit, n, pay, want));
                    }
                }
                _ => stray += pay,
            }
            if let Op::TRemove { stage, ms } = op {
                let before: BTreeSet<u64> = prev.stages.get(*stage as usize).map(|s| s.1.iter().map(|m| m.0).collect()).unwrap_or_default();
                let after: BTreeSet<u64> = o.stages.get(*stage as usize).map(|s| s.1.iter().map(|m| m.0).collect()).unwrap_or_default();
                if let Some(a) = ms.iter().find(|a| !before.contains(a)) {
                    mon.flag(format!("C11:{}:{}:removed-non-member", kind.label(), opl), format!("remove of {} from stage {} accepted though it was not stored", name(*a), stage));
                }
                if let Some(a) = ms.iter().find(|a| after.contains(a)) {
                    mon.flag(format!("C11:{}:{}:removed-still-stored", kind.label(), opl), format!("{} still stored after its removal", name(*a)));
                }
            }
            if let Op::TAdd { stage, ms } = op {
                let after: BTreeSet<u64> = o.stages.get(*stage as usize).map(|s| s.1.iter().map(|m| m.0).collect()).unwrap_or_default();
                if let Some(a) = ms.iter().find(|a| !after.contains(&a.0)) {
                    mon.flag(format!("C11:{}:{}:added-not-stored", kind.label(), opl), format!("{} not stored after an accepted add", name(a.0)));
                }
            }
        }
        check_counts(&mut mon, opl, &o);
        mon.capacity(opl, o.num, o.limit, Some(prev.limit));
        mon.fees(opl, o.limit, fees_paid, stray, &o.ledger);
        steps_coq.push(format!("TExec {} {} {} {}", coq_env(s.now, s.sender, &s.funds), coq_top(op), coq_bool(ok), o.coq()));
        prev = o;
    }
    Outcome {
        extra: vec![],
        coq: format!("C11THist {} {} {} {} {}", kind.coq(), env0, imsg, o0.coq(), coq_list(&steps_coq)),
        evals,
        viol: mon.viol,
        hist,
        nontrivial,
        sample,
    }
}

fn run_imm(h: &History) -> Outcome {
    let mut w = World::new(Kind::Immutable);
    let mut mon = Mon { kind: Kind::Immutable, viol: None };
    let ms: Vec<u64> = h.init.members.first().map(|l| l.iter().map(|m| m.0).collect()).unwrap_or_default();
    let r = w.instantiate(&h.init);
    let mut hist = vec![format!("whitelist-immutable:instantiate:{}", if r.is_ok() { "ok" } else { "err" })];
    if r.is_err() {
        return Outcome {
            extra: vec![],
            coq: format!("C11ImmFail {} {}", coq_funds(&h.init.funds), coq_ns(&ms)),
            evals: 1,
            viol: None,
            hist,
            nontrivial: h.init.funds.is_empty(),
            sample: "instantiate rejected".into(),
        };
    }
    let count = w.query(&json!({"address_count": {}})).ok().and_then(|v| v.as_u64()).unwrap_or(u64::MAX);
    let addr = w.addr.clone().unwrap();
    let stored: Vec<u64> = {
        let st = w.app.contract_storage(&addr);
        whitelist_immutable::state::WHITELIST
            .keys(&*st, None, None, Order::Ascending)
            .map(|k| id_of(&k.unwrap()))
            .collect()
    };
    let mut probes: BTreeSet<u64> = ms.iter().cloned().collect();
    probes.extend([50u64, 60, 199]);
    let probes: Vec<(u64, bool)> = probes
        .into_iter()
        .map(|a| (a, w.query(&json!({"includes_address": {"address": name(a)}})).ok().and_then(|v| v.as_bool()).unwrap_or(false)))
        .collect();
    let nd = stored.iter().collect::<BTreeSet<_>>().len();
    if count as usize != stored.len() || nd != stored.len() || nd != ms.iter().collect::<BTreeSet<_>>().len() {
        mon.flag("C11:whitelist-immutable:instantiate:count-mismatch".into(), format!("address_count = {}, stored = {}, distinct given = {}", count, stored.len(), ms.iter().collect::<BTreeSet<_>>().len()));
    }
    for (a, b) in &probes {
        if *b != stored.contains(a) {
            mon.flag("C11:whitelist-immutable:instantiate:includes-address-wrong".into(), format!("IncludesAddress({}) = {} but stored = {}", name(*a), b, stored.contains(a)));
        }
    }
    // Config / Admin / PerAddressLimit report what creation was given; there is no execute
    // message: whatever is sent is rejected and changes nothing
    let cfg = w.query(&json!({"config": {}})).ok();
    let cfg_admin = cfg.as_ref().map(|v| id_of(v["config"]["admin"].as_str().unwrap_or(""))).unwrap_or(0);
    let cfg_pal = cfg.as_ref().and_then(|v| v["config"]["per_address_limit"].as_u64()).unwrap_or(u64::MAX);
    let cfg_bps = cfg.as_ref().and_then(|v| v["config"]["mint_discount_bps"].as_u64());
    let admin_q = w.query(&json!({"admin": {}})).ok().map(|v| id_of(v.as_str().unwrap_or(""))).unwrap_or(0);
    let pal_q = w.query(&json!({"per_address_limit": {}})).ok().and_then(|v| v.as_u64()).unwrap_or(u64::MAX);
    if cfg_admin != h.init.sender || admin_q != h.init.sender || cfg_pal != h.init.pal as u64 || pal_q != h.init.pal as u64 || cfg_bps != h.init.whale.map(|x| x as u64) {
        mon.flag("C11:whitelist-immutable:instantiate:config-wrong".into(), format!("Config = {:?}, Admin = {}, PerAddressLimit = {}; created by {} with limit {} discount {:?}", cfg, name(admin_q), pal_q, name(h.init.sender), h.init.pal, h.init.whale));
    }
    let snapshot = |w: &World| {
        (w.digest(), w.query(&json!({"address_count": {}})).ok(), w.query(&json!({"config": {}})).ok(), w.query(&json!({"admin": {}})).ok(), w.raw_members(), w.ledger())
    };
    let before = snapshot(&w);
    let mut execs = vec![];
    for (sender, msg) in [
        (60u64, json!({})),
        (60, json!({"add_members": {"to_add": [name(150)]}})),
        (61, json!({"update_admin": {"admin": name(61)}})),
        (60, json!({"remove_members": {"to_remove": names_of(&ms)}})),
        (62, json!("freeze")),
    ] {
        let r = crate::chain::exec(&mut w.app, &name(sender), &addr, &msg, &[]);
        if r.is_ok() {
            mon.flag("C11:whitelist-immutable:execute:accepted".into(), format!("execute {} was accepted", msg));
        }
        execs.push(r.is_ok());
        hist.push(format!("whitelist-immutable:execute:{}", if r.is_ok() { "ok" } else { "err" }));
        if snapshot(&w) != before {
            mon.flag("C11:whitelist-immutable:execute:changed-state".into(), format!("execute {} changed storage, a query answer or a balance", msg));
        }
    }
    let extra = vec![format!(
        "C11ImmCfg {} {} {} {} {} ({}, {}, {}) {} {} {}",
        h.init.sender,
        h.init.pal,
        coq_opt32(h.init.whale),
        coq_funds(&h.init.funds),
        coq_ns(&ms),
        cfg_admin,
        cfg_pal,
        coq_opt_n(cfg_bps),
        admin_q,
        pal_q,
        coq_list(&execs.iter().map(|b| coq_bool(*b).to_string()).collect::<Vec<_>>())
    )];
    let coq = format!(
        "C11Imm {} {} {} {} {}",
        coq_funds(&h.init.funds),
        coq_ns(&ms),
        count,
        coq_ns(&stored),
        coq_list(&probes.iter().map(|(a, b)| format!("({}, {})", a, coq_bool(*b))).collect::<Vec<_>>())
    );
    Outcome { extra, coq, evals: 6 + probes.len() as u64, viol: mon.viol, hist, nontrivial: true, sample: format!("{:?} -> count {} stored {:?}", ms, count, stored) }
}

fn names_of(ids: &[u64]) -> Vec<String> {
    ids.iter().map(|i| name(*i)).collect()
}
fn run_history(h: &History) -> Outcome {
    match h.init.kind {
        Kind::Plain | Kind::Flex => run_pf(h),
        Kind::Tiered | Kind::TieredFlex => run_tiered(h),
        Kind::Immutable => run_imm(h),
        Kind::Merkle => panic!("C11 does not cover the Merkle whitelist"),
    }
}

// ------------------------------------------------------------ generators

fn native(a: u128) -> Vec<(String, u128)> {
    vec![(NATIVE.to_string(), a)]
}
fn fee(limit: u32) -> u128 {
    tiers_fee(limit as u64)
}
fn ones(ids: &[u64]) -> Vec<(u64, u32)> {
    ids.iter().map(|a| (*a, 1)).collect()
}
fn stage(i: u64) -> StageSpec {
    StageSpec { start: T0 + (100 + 100 * i) * S, end: T0 + (200 + 100 * i) * S, pal: 2, denom: 0 }
}

fn pf_init(kind: Kind, members: Vec<(u64, u32)>, limit: u32) -> Init {
    Init {
        kind,
        now: T0,
        sender: 60,
        funds: native(fee(limit)),
        members: vec![members],
        start: T0 + 100 * S,
        end: T0 + 200 * S,
        pal: 2,
        limit,
        whale: None,
        admins: vec![60, 61],
        mutable: true,
        root_ok: true,
        stages: vec![],
    }
}
fn t_init(kind: Kind, members: Vec<Vec<(u64, u32)>>, nstages: u64, limit: u32) -> Init {
    Init {
        kind,
        now: T0,
        sender: 60,
        funds: native(fee(limit)),
        members,
        start: 0,
        end: 0,
        pal: 2,
        limit,
        whale: None,
        admins: vec![60, 61],
        mutable: true,
        root_ok: true,
        stages: (0..nstages).map(stage).collect(),
    }
}
fn imm_init(members: Vec<u64>, funds: Vec<(String, u128)>) -> Init {
    Init {
        kind: Kind::Immutable,
        now: T0,
        sender: 60,
        funds,
        members: vec![ones(&members)],
        start: 0,
        end: 0,
        pal: 1,
        limit: 0,
        whale: None,
        admins: vec![],
        mutable: false,
        root_ok: true,
        stages: vec![],
    }
}
fn call(now: u64, sender: u64, op: Op) -> Step {
    Step { now, sender, funds: vec![], op: Some(op) }
}
fn pay(now: u64, sender: u64, op: Op, funds: Vec<(String, u128)>) -> Step {
    Step { now, sender, funds, op: Some(op) }
}
/// add_members in the vocabulary of the kind
fn add(kind: Kind, stage: u32, ms: Vec<(u64, u32)>) -> Op {
    if kind.is_tiered() {
        Op::TAdd { stage, ms }
    } else {
        Op::Add(ms)
    }
}
fn remove(kind: Kind, stage: u32, ms: Vec<u64>) -> Op {
    if kind.is_tiered() {
        Op::TRemove { stage, ms }
    } else {
        Op::Remove(ms)
    }
}
fn init_for(kind: Kind, members: Vec<(u64, u32)>, limit: u32) -> Init {
    if kind.is_tiered() {
        t_init(kind, vec![members], 1, limit)
    } else {
        pf_init(kind, members, limit)
    }
}

const LIST_KINDS: [Kind; 4] = [Kind::Plain, Kind::Flex, Kind::Tiered, Kind::TieredFlex];

fn corpus() -> Vec<History> {
    let mut v = vec![];
    // --- one replay per repaired defect (known_findings.json, status fixed)
    // D5a whitelist-flex instantiate [aaa x2, bbb]
    v.push(History { init: pf_init(Kind::Flex, vec![(100, 1), (100, 2), (101, 1)], 10), steps: vec![call(T0 + 1, 60, Op::Add(vec![(102, 1)]))] });
    // D5b tiered-whitelist-flex instantiate [aaa, aaa]; add_stage [bbb, bbb, ccc]
    v.push(History {
        init: t_init(Kind::TieredFlex, vec![vec![(100, 1), (100, 3)]], 1, 10),
        steps: vec![call(T0 + 1, 60, Op::AddStage { stage: stage(1), ms: vec![(101, 1), (101, 2), (102, 1)] })],
    });
    // D5c tiered(-flex): one stage, member lists [[aaa],[bbb,ccc]]
    for k in [Kind::Tiered, Kind::TieredFlex] {
        v.push(History { init: t_init(k, vec![ones(&[100]), ones(&[101, 102])], 1, 10), steps: vec![call(T0 + 1, 60, add(k, 0, ones(&[103])))] });
        // fewer lists than stages
        v.push(History { init: t_init(k, vec![ones(&[100])], 2, 10), steps: vec![] });
        // duplicates inside and overlap across stages; empty list
        v.push(History {
            init: t_init(k, vec![ones(&[100, 101, 100]), ones(&[101, 102]), vec![]], 3, 10),
            steps: vec![
                call(T0 + 1, 60, add(k, 1, ones(&[100, 100, 103]))),
                call(T0 + 2, 60, remove(k, 1, vec![101])),
                call(T0 + 3, 60, Op::RemoveStage(1)),
                call(T0 + 4, 60, Op::AddStage { stage: stage(1), ms: ones(&[100, 104, 104]) }),
                call(T0 + 5, 60, Op::RemoveStage(0)),
                call(T0 + 6, 60, Op::AddStage { stage: stage(0), ms: ones(&[105]) }),
            ],
        });
    }
    for k in LIST_KINDS {
        // duplicate, overlapping and empty member lists at instantiate
        v.push(History { init: init_for(k, vec![], 5), steps: vec![call(T0 + 1, 60, add(k, 0, vec![]))] });
        v.push(History { init: init_for(k, ones(&[101, 100, 101, 100, 100]), 5), steps: vec![] });
        // existing member: skipped (plain, tiered) or rejected (flex); never counted twice
        v.push(History {
            init: init_for(k, ones(&[100, 101]), 5),
            steps: vec![
                call(T0 + 1, 60, add(k, 0, ones(&[101]))),
                call(T0 + 2, 60, add(k, 0, ones(&[102, 101]))),
                call(T0 + 3, 60, add(k, 0, ones(&[103, 103]))),
                call(T0 + 4, 60, add(k, 0, vec![(104, 3), (104, 7)])),
            ],
        });
        // the limit test comes before the already-a-member skip
        v.push(History {
            init: init_for(k, ones(&[100, 101]), 2),
            steps: vec![call(T0 + 1, 60, add(k, 0, ones(&[100]))), call(T0 + 2, 60, add(k, 0, ones(&[102])))],
        });
        // removal needs existing members; a repeated address in one removal
        v.push(History {
            init: init_for(k, ones(&[100, 101, 102]), 5),
            steps: vec![
                call(T0 + 1, 60, remove(k, 0, vec![103])),
                call(T0 + 2, 60, remove(k, 0, vec![100, 100])),
                call(T0 + 3, 60, remove(k, 0, vec![100, 103])),
                call(T0 + 4, 60, remove(k, 0, vec![100])),
                call(T0 + 5, 60, remove(k, 0, vec![100])),
                call(T0 + 6, 60, remove(k, 0, vec![])),
                call(T0 + 7, 60, remove(k, 0, vec![101, 102])),
                call(T0 + 8, 60, remove(k, 0, vec![101])),
            ],
        });
        // fee chain over the 1000-member tiers
        v.push(History {
            init: init_for(k, ones(&[100]), 1000),
            steps: vec![
                pay(T0 + 1, 62, Op::Increase(1001), native(STARS_100)),
                pay(T0 + 2, 62, Op::Increase(2000), vec![]),
                pay(T0 + 3, 60, Op::Increase(2001), native(STARS_100)),
                pay(T0 + 4, 61, Op::Increase(k.max_members()), native(fee(k.max_members()) - fee(2001))),
                pay(T0 + 5, 61, Op::Increase(k.max_members() + 1), native(STARS_100)),
            ],
        });
        // funds sent along with a call that has no fee stay in the contract
        v.push(History { init: init_for(k, ones(&[100]), 5), steps: vec![pay(T0 + 1, 60, add(k, 0, ones(&[101])), native(7))] });
        // malformed addresses
        v.push(History { init: init_for(k, ones(&[100, 51]), 5), steps: vec![] });
        v.push(History {
            init: init_for(k, ones(&[100]), 5),
            steps: vec![call(T0 + 1, 60, add(k, 0, ones(&[50]))), call(T0 + 2, 60, add(k, 0, ones(&[101, 52]))), call(T0 + 3, 60, remove(k, 0, vec![51]))],
        });
    }
    // ---- mint counts at their boundaries on the flex kinds (a stored row with count 0 IS a
    // member): 0, 1, 2, u32::MAX everywhere members are supplied; around the whale cap where
    // one exists; the same address with different counts in one list; zero-count members
    // in several stages.  (The non-flex kinds ignore the counts; same histories, as controls.)
    for k in LIST_KINDS {
        let b: Vec<(u64, u32)> = vec![(100, 0), (101, 1), (102, 2), (103, u32::MAX), (104, 0)];
        v.push(History {
            init: init_for(k, b.clone(), 12),
            steps: vec![
                call(T0 + 1, 60, add(k, 0, vec![(105, 0), (106, u32::MAX), (107, 1)])),
                call(T0 + 2, 60, add(k, 0, vec![(100, 0)])),
                call(T0 + 3, 60, add(k, 0, vec![(104, 7)])),
                call(T0 + 4, 60, remove(k, 0, vec![100, 105])),
                call(T0 + 5, 60, add(k, 0, vec![(100, 0), (108, 0)])),
                call(T0 + 6, 60, remove(k, 0, vec![104, 108, 100])),
                call(T0 + 7, 60, add(k, 0, vec![(109, 0)])),
            ],
        });
        // only zero-count members
        v.push(History {
            init: init_for(k, vec![(100, 0), (101, 0)], 5),
            steps: vec![call(T0 + 1, 60, add(k, 0, vec![(102, 0)])), call(T0 + 2, 60, remove(k, 0, vec![101])), call(T0 + 3, 60, add(k, 0, vec![(101, 0), (103, 0), (104, 0)]))],
        });
        // the same address with different counts in one list: which one is stored?
        for pair in [vec![(100u64, 0u32), (100, 5)], vec![(100, 5), (100, 0)], vec![(100, 0), (100, 0), (101, 3), (101, 0), (101, u32::MAX)]] {
            v.push(History {
                init: init_for(k, pair.clone(), 9),
                steps: vec![
                    call(T0 + 1, 60, add(k, 0, vec![(102, 0), (102, 4)])),
                    call(T0 + 2, 60, add(k, 0, vec![(103, 4), (103, 0)])),
                    call(T0 + 3, 60, add(k, 0, vec![(100, 9)])),
                    call(T0 + 4, 60, add(k, 0, vec![(104, 0)])),
                    call(T0 + 5, 60, remove(k, 0, vec![100])),
                ],
            });
        }
        // around a whale cap (cap must exceed the member limit)
        let (limit, cap) = (10u32, 12u32);
        for c in [0u32, 1, cap - 1, cap, cap + 1, u32::MAX] {
            let mut i = init_for(k, vec![(100, c), (101, 0)], limit);
            i.whale = Some(cap);
            v.push(History {
                init: i,
                steps: vec![
                    call(T0 + 1, 60, add(k, 0, vec![(102, cap + 1), (103, 0), (104, cap)])),
                    call(T0 + 2, 60, remove(k, 0, vec![103])),
                ],
            });
        }
    }
    for k in [Kind::Tiered, Kind::TieredFlex] {
        // zero-count members in several stages, looked at before, inside and after every stage
        v.push(History {
            init: t_init(k, vec![vec![(100, 0), (101, 1)], vec![(100, 0), (102, 0)], vec![(100, 2), (101, 0), (103, u32::MAX)]], 3, 20),
            steps: vec![
                call(T0 + 1, 60, add(k, 1, vec![(104, 0), (100, 6), (105, 0), (105, 3)])),
                call(T0 + 100 * S, 60, add(k, 2, vec![(104, 0)])),
                call(T0 + 150 * S, 60, remove(k, 1, vec![102])),
                call(T0 + 200 * S + 1, 60, add(k, 1, vec![(106, 0)])),
                call(T0 + 250 * S, 60, remove(k, 2, vec![101, 104])),
                call(T0 + 300 * S + 1, 60, add(k, 2, vec![(101, 0)])),
                call(T0 + 401 * S, 60, add(k, 0, vec![(107, 0)])),
            ],
        });
        // add_stage with boundary counts, repeats with different counts, and the whale cap
        for whale in [None, Some(25u32)] {
            let cap = whale.unwrap_or(25);
            let mut i = t_init(k, vec![vec![(100, 0)]], 1, 20);
            i.whale = whale;
            v.push(History {
                init: i,
                steps: vec![
                    call(T0 + 1, 60, Op::AddStage { stage: stage(1), ms: vec![(100, 0), (101, 0), (101, 4), (102, 4), (102, 0), (103, cap - 1), (104, cap)] }),
                    call(T0 + 2, 60, Op::AddStage { stage: stage(2), ms: vec![(100, 1), (105, cap + 1)] }),
                    call(T0 + 3, 60, Op::AddStage { stage: stage(2), ms: vec![(100, 0), (105, u32::MAX), (106, 0)] }),
                    call(T0 + 4, 60, Op::AddStage { stage: stage(2), ms: vec![(100, 0), (106, 0), (106, 2)] }),
                    call(T0 + 5, 60, add(k, 2, vec![(100, 3), (107, 0), (107, 1)])),
                    call(T0 + 6, 60, remove(k, 2, vec![106])),
                    call(T0 + 7, 60, Op::RemoveStage(1)),
                    call(T0 + 8, 60, Op::AddStage { stage: stage(1), ms: vec![(101, 0), (104, 0)] }),
                ],
            });
        }
        // instantiate: repeats with different counts per stage, whale cap boundaries
        for c in [24u32, 25, 26] {
            let mut i = t_init(k, vec![vec![(100, 0), (100, c), (101, c), (101, 0)], vec![(100, 0), (101, 0)]], 2, 20);
            i.whale = Some(25);
            v.push(History { init: i, steps: vec![call(T0 + 1, 60, add(k, 0, vec![(101, 9), (102, 0)]))] });
        }
    }

    // whale cap (flex kinds)
    for k in [Kind::Flex, Kind::TieredFlex] {
        for (whale, cnt) in [(10u32, 1u32), (11, 11), (11, 12), (12, 1)] {
            let mut i = init_for(k, vec![(100, cnt)], 10);
            i.whale = Some(whale);
            v.push(History { init: i, steps: vec![call(T0 + 1, 60, add(k, 0, vec![(101, 99)]))] });
        }
    }
    // add_stage after remove_stage of a stage that is not the last one and has members,
    // re-adding the same addresses to the freed stage ids (counts are checked after each)
    for k in [Kind::Tiered, Kind::TieredFlex] {
        v.push(History {
            init: t_init(k, vec![ones(&[100, 101]), ones(&[101, 102, 103]), ones(&[103, 104])], 3, 20),
            steps: vec![
                call(T0 + 1, 60, Op::RemoveStage(1)),
                call(T0 + 2, 60, Op::AddStage { stage: stage(1), ms: vec![(101, 2), (102, 1), (103, 1), (102, 3)] }),
                call(T0 + 3, 60, Op::AddStage { stage: stage(2), ms: vec![(103, 1), (104, 2), (104, 1)] }),
                call(T0 + 4, 60, Op::RemoveStage(0)),
                call(T0 + 5, 60, Op::AddStage { stage: stage(0), ms: vec![(100, 1), (101, 1), (100, 4), (103, 1)] }),
                call(T0 + 6, 60, add(k, 0, ones(&[100, 103, 105]))),
            ],
        });
    }
    // admin list: CanExecute before and after update_admins / freeze, by every role
    for k in LIST_KINDS {
        v.push(History {
            init: init_for(k, ones(&[100]), 5),
            steps: vec![
                call(T0 + 1, 62, Op::UpdAdmins(vec![62])),
                call(T0 + 2, 60, Op::UpdAdmins(vec![61, 62])),
                call(T0 + 3, 60, add(k, 0, ones(&[101]))),
                call(T0 + 4, 62, add(k, 0, ones(&[102]))),
                call(T0 + 5, 62, Op::UpdAdmins(vec![62, 50])),
                call(T0 + 6, 61, Op::UpdAdmins(vec![])),
                call(T0 + 7, 61, add(k, 0, ones(&[103]))),
            ],
        });
        v.push(History {
            init: init_for(k, ones(&[100]), 5),
            steps: vec![
                call(T0 + 1, 62, Op::Freeze),
                call(T0 + 2, 61, Op::Freeze),
                call(T0 + 3, 60, Op::UpdAdmins(vec![62])),
                call(T0 + 4, 60, Op::Freeze),
                call(T0 + 5, 60, add(k, 0, ones(&[101]))),
            ],
        });
        let mut i = init_for(k, ones(&[100]), 5);
        i.mutable = false;
        i.admins = vec![61];
        v.push(History { init: i, steps: vec![call(T0 + 1, 61, Op::UpdAdmins(vec![60])), call(T0 + 2, 61, add(k, 0, ones(&[101]))), call(T0 + 3, 60, add(k, 0, ones(&[102])))] });
    }
    // whitelist-immutable
    v.push(History { init: imm_init(vec![100, 101, 100, 102, 101], vec![]), steps: vec![] });
    v.push(History { init: imm_init(vec![], vec![]), steps: vec![] });
    v.push(History { init: imm_init(vec![100], native(1)), steps: vec![] });
    v.push(History { init: imm_init(vec![52, 50, 50, 60, 100], vec![]), steps: vec![] });
    for (pal, bps, sender) in [(0u32, None, 60u64), (1, Some(0u32), 61), (7, Some(500), 62), (u32::MAX, Some(10_000), 60)] {
        let mut i = imm_init(vec![100, 101], vec![]);
        i.pal = pal;
        i.whale = bps;
        i.sender = sender;
        v.push(History { init: i, steps: vec![] });
    }
    v
}

fn probes() -> Vec<History> {
    let mut v = vec![];
    for k in LIST_KINDS {
        let max = k.max_members();
        // instantiate: limit bounds and the fee at and around every tier
        let mut limits: Vec<u32> = vec![0, 1, 2, 999, 1000, 1001, 1999, 2000, 2001, 4999, 5000, 5001, max - 1, max, max + 1];
        limits.sort_unstable();
        limits.dedup();
        for l in limits {
            let exact = fee(l);
            for f in [exact, exact.saturating_sub(1), exact + 1] {
                let mut i = init_for(k, ones(&[100]), l);
                i.funds = if f == 0 { vec![] } else { native(f) };
                v.push(History { init: i, steps: vec![] });
            }
        }
        for funds in [vec![], vec![("uother".to_string(), fee(1000))], vec![(NATIVE.to_string(), fee(1000)), ("uother".to_string(), 1)], vec![(NATIVE.to_string(), fee(1000) / 2), (NATIVE.to_string(), fee(1000) / 2)]] {
            let mut i = init_for(k, ones(&[100]), 1000);
            i.funds = funds;
            v.push(History { init: i, steps: vec![] });
        }
        // instantiate: number of members against the limit
        for n in [2u64, 3, 4] {
            let ms: Vec<u64> = (100..100 + n).collect();
            v.push(History { init: init_for(k, ones(&ms), 3), steps: vec![] });
            // with one duplicate on top (flex kinds count the raw list for this test)
            let mut d = ms.clone();
            d.push(100);
            v.push(History { init: init_for(k, ones(&d), 3), steps: vec![] });
        }
        // add_members: count against the limit
        v.push(History {
            init: init_for(k, ones(&[100]), 3),
            steps: vec![
                call(T0 + 1, 60, add(k, 0, ones(&[101]))),
                call(T0 + 2, 60, add(k, 0, ones(&[102, 103]))),
                call(T0 + 3, 60, add(k, 0, ones(&[100]))),
                call(T0 + 4, 60, add(k, 0, ones(&[102]))),
                call(T0 + 5, 60, add(k, 0, ones(&[103]))),
                call(T0 + 6, 60, add(k, 0, ones(&[100]))),
                call(T0 + 7, 60, remove(k, 0, vec![101])),
                call(T0 + 8, 60, add(k, 0, ones(&[100, 104]))),
                call(T0 + 9, 60, add(k, 0, ones(&[104]))),
            ],
        });
        // increase_member_limit: new value against the old one and the maximum; fee at tiers
        for (from, to) in [(5u32, 4u32), (5, 5), (5, 6), (999, 1000), (1000, 1001), (1001, 1002), (1, 2001), (1999, 2000), (2000, 2001), (1000, max), (1000, max + 1), (max - 1, max), (max, max + 1)] {
            let exact = fee(to).saturating_sub(fee(from));
            for f in [exact, exact + 1, exact.saturating_sub(1), exact + STARS_100] {
                v.push(History {
                    init: init_for(k, ones(&[100]), from),
                    steps: vec![pay(T0 + 1, 62, Op::Increase(to), if f == 0 { vec![] } else { native(f) })],
                });
            }
            v.push(History { init: init_for(k, ones(&[100]), from), steps: vec![pay(T0 + 1, 62, Op::Increase(to), vec![("uother".to_string(), exact.max(1))])] });
        }
        // sender roles
        for sender in [60u64, 61, 62] {
            v.push(History {
                init: init_for(k, ones(&[100, 101]), 5),
                steps: vec![
                    call(T0 + 1, sender, add(k, 0, ones(&[102]))),
                    call(T0 + 2, sender, remove(k, 0, vec![100])),
                    pay(T0 + 3, sender, Op::Increase(6), vec![]),
                ],
            });
        }
        // removal against the start instant (the count must stay right on both sides)
        for now in [T0 + 100 * S - 1, T0 + 100 * S, T0 + 100 * S + 1] {
            v.push(History { init: init_for(k, ones(&[100, 101]), 5), steps: vec![call(now, 60, remove(k, 0, vec![100])), call(now, 60, add(k, 0, ones(&[102])))] });
        }
    }
    // per_address_limit guard (1 ..= 30) wherever a kind has it: plain instantiate; tiered
    // stages at instantiate, add_stage and update_stage_config (flex kinds carry no such field)
    for pal in [0u32, 1, 2, 29, 30, 31] {
        for k in LIST_KINDS {
            let mut i = init_for(k, ones(&[100]), 5);
            i.pal = pal;
            for st in i.stages.iter_mut() {
                st.pal = pal;
            }
            v.push(History { init: i, steps: vec![call(T0 + 1, 60, add(k, 0, ones(&[101])))] });
        }
        for k in [Kind::Tiered, Kind::TieredFlex] {
            let mut st = stage(1);
            st.pal = pal;
            v.push(History {
                init: t_init(k, vec![ones(&[100])], 1, 5),
                steps: vec![
                    call(T0 + 1, 60, Op::UpdStage { stage: 0, start: None, end: None, pal: Some(pal) }),
                    call(T0 + 2, 60, Op::AddStage { stage: st, ms: ones(&[101]) }),
                    call(T0 + 3, 60, add(k, 1, ones(&[102]))),
                ],
            });
        }
    }
    // stage-list shapes the contracts refuse (the C11 model carries validate_stages for the
    // ok/err of instantiate, add_stage and update_stage_config): none, reversed or empty
    // window, overlap, touching (allowed), different denoms; whale cap in add_stage
    for k in [Kind::Tiered, Kind::TieredFlex] {
        v.push(History { init: t_init(k, vec![], 0, 5), steps: vec![] });
        let shapes: Vec<(u64, u64, u64)> = vec![(200, 200, 0), (300, 200, 0), (150, 250, 0), (199, 300, 0), (200, 300, 0), (200, 300, 1)];
        for (st, en, denom) in shapes {
            let bad = StageSpec { start: T0 + st * S, end: T0 + en * S, pal: 2, denom };
            let mut i = t_init(k, vec![ones(&[100]), ones(&[101])], 1, 5);
            i.stages.push(bad.clone());
            v.push(History { init: i, steps: vec![] });
            v.push(History {
                init: t_init(k, vec![ones(&[100])], 1, 5),
                steps: vec![
                    call(T0 + 1, 60, Op::AddStage { stage: bad.clone(), ms: ones(&[101]) }),
                    call(T0 + 2, 60, Op::UpdStage { stage: 0, start: Some(bad.start), end: Some(bad.end), pal: None }),
                    call(T0 + 3, 60, add(k, 0, ones(&[102]))),
                ],
            });
        }
        for (whale, cnt) in [(11u32, 11u32), (11, 12)] {
            let mut i = t_init(k, vec![ones(&[100])], 1, 10);
            i.whale = Some(whale);
            v.push(History { init: i, steps: vec![call(T0 + 1, 60, Op::AddStage { stage: stage(1), ms: vec![(101, cnt), (102, 1)] }), call(T0 + 2, 60, add(k, 1, vec![(103, 99)]))] });
        }
        // membership answers while a stage is running (HasMember / Member use the active stage)
        v.push(History {
            init: t_init(k, vec![vec![(100, 2), (101, 1)], vec![(101, 3), (102, 1)]], 2, 10),
            steps: vec![
                call(T0 + 100 * S, 60, add(k, 1, vec![(103, 4)])),
                call(T0 + 200 * S, 60, add(k, 1, vec![(104, 5)])),
                call(T0 + 200 * S + 1, 60, add(k, 0, vec![(105, 6)])),
                call(T0 + 300 * S, 60, add(k, 1, vec![(106, 1)])),
                call(T0 + 300 * S + 1, 60, add(k, 1, vec![(107, 1)])),
            ],
        });
    }
    // tiered: stage bookkeeping guards
    for k in [Kind::Tiered, Kind::TieredFlex] {
        for n in [1u64, 2, 3, 4] {
            let lists: Vec<Vec<(u64, u32)>> = (0..n).map(|i| ones(&[100 + i, 110])).collect();
            v.push(History {
                init: t_init(k, lists, n, 10),
                steps: vec![
                    call(T0 + 1, 60, Op::AddStage { stage: stage(n), ms: ones(&[120, 110]) }),
                    call(T0 + 2, 60, add(k, n as u32, ones(&[121]))),
                    call(T0 + 3, 60, add(k, n as u32 + 1, ones(&[122]))),
                    call(T0 + 4, 60, remove(k, n as u32 + 1, vec![110])),
                    call(T0 + 5, 60, Op::RemoveStage(n as u32 + 1)),
                    call(T0 + 6, 60, Op::RemoveStage(n as u32)),
                    call(T0 + 7, 60, Op::RemoveStage(1)),
                ],
            });
        }
        // add_stage against the member limit
        for extra in [1u64, 2, 3] {
            let ms: Vec<u64> = (120..120 + extra).collect();
            v.push(History { init: t_init(k, vec![ones(&[100, 101])], 1, 4), steps: vec![call(T0 + 1, 60, Op::AddStage { stage: stage(1), ms: ones(&ms) })] });
        }
        // more or fewer member lists than stages
        for (lists, stages) in [(0u64, 1u64), (1, 2), (2, 2), (3, 2), (3, 1)] {
            let l: Vec<Vec<(u64, u32)>> = (0..lists).map(|i| ones(&[100 + i, 100 + i, 105])).collect();
            v.push(History { init: t_init(k, l, stages, 10), steps: vec![] });
        }
        // remove_stage against the stage's own start; stage windows edited first
        for now in [T0 + 200 * S - 1, T0 + 200 * S, T0 + 200 * S + 1] {
            v.push(History {
                init: t_init(k, vec![ones(&[100]), ones(&[101, 102]), ones(&[103])], 3, 10),
                steps: vec![call(now, 60, remove(k, 1, vec![101])), call(now, 60, Op::RemoveStage(1)), call(now, 60, remove(k, 2, vec![103])), call(now, 60, Op::RemoveStage(2))],
            });
        }
        v.push(History {
            init: t_init(k, vec![ones(&[100]), ones(&[101, 102])], 2, 10),
            steps: vec![
                call(T0 + 1, 60, Op::UpdStage { stage: 1, start: Some(T0 + 250 * S), end: None, pal: Some(3) }),
                call(T0 + 2, 60, Op::UpdStage { stage: 1, start: Some(T0 + 199 * S), end: None, pal: None }),
                call(T0 + 3, 60, Op::UpdStage { stage: 2, start: None, end: None, pal: None }),
                call(T0 + 220 * S, 60, remove(k, 1, vec![101])),
                call(T0 + 250 * S, 60, remove(k, 1, vec![102])),
            ],
        });
    }
    // immutable: list shapes
    for n in 0..6u64 {
        let mut ms: Vec<u64> = (0..n).map(|i| 100 + (i * 7) % 5).collect();
        ms.reverse();
        v.push(History { init: imm_init(ms, vec![]), steps: vec![] });
    }
    v
}

/// deterministic shuffle of lo..lo+n (so that the contracts' sorting is exercised)
fn scrambled(lo: u64, n: u64) -> Vec<u64> {
    let mut v: Vec<u64> = (lo..lo + n).collect();
    v.reverse();
    let k = v.len() / 3;
    v.rotate_left(k);
    v
}

/// population-size probes: the contracts page their member queries (default 25, at most
/// 100 per page); code that collects members through such a helper goes wrong only with
/// more members than a page holds.  `n` addresses at instantiate (with repeats inside the
/// list), in one AddMembers / RemoveMembers message, per stage, and in stages that are
/// removed directly, removed as followers of an earlier stage, and re-added.
fn population(kind: Kind, n: u64) -> History {
    let ids = scrambled(100, n);
    let (first, mid, last) = (100u64, 100 + n / 2, 100 + n - 1);
    match kind {
        Kind::Immutable => {
            let mut ms = ids.clone();
            ms.extend([first, last, mid]);
            History { init: imm_init(ms, vec![]), steps: vec![] }
        }
        Kind::Plain | Kind::Flex => {
            let limit = (n + 5) as u32;
            let mut ms: Vec<(u64, u32)> = ids.iter().map(|a| (*a, (*a % 3) as u32)).collect();
            ms.extend([(first, 7), (last, 7), (mid, 7)]);
            let all = ones(&ids);
            let mut all_dup = all.clone();
            if kind == Kind::Plain {
                all_dup.extend([(mid, 1), (first, 1)]);
            }
            let fresh8: Vec<u64> = (100 + n..100 + n + 8).collect();
            let fresh7: Vec<u64> = (100 + n..100 + n + 7).collect();
            History {
                init: pf_init(kind, ms, limit),
                steps: vec![
                    call(T0 + 1, 60, Op::Remove(ids.clone())),
                    call(T0 + 2, 60, Op::Add(all_dup)),
                    call(T0 + 3, 60, Op::Remove(vec![last, first, mid])),
                    call(T0 + 4, 60, Op::Add(ones(&[mid]))),
                    call(T0 + 5, 60, Op::Add(ones(&fresh8))),
                    call(T0 + 6, 60, Op::Add(ones(&fresh7))),
                    call(T0 + 7, 60, Op::Remove(scrambled(100 + n / 2 + 1, n / 2 - 2))),
                ],
            }
        }
        Kind::Tiered | Kind::TieredFlex => {
            let limit = (2 * n + 20) as u32;
            let mut big: Vec<(u64, u32)> = ids.iter().map(|a| (*a, (*a % 3) as u32)).collect();
            let big_nodup = big.clone();
            big.extend([(first, 7), (last, 7)]);
            History {
                init: t_init(kind, vec![ones(&[100, 101, 102]), big], 2, limit),
                steps: vec![
                    call(T0 + 1, 60, Op::AddStage { stage: stage(2), ms: big_nodup.clone() }),
                    call(T0 + 2, 60, Op::RemoveStage(2)),
                    call(T0 + 3, 60, Op::AddStage { stage: stage(2), ms: ones(&[first, last, 5000]) }),
                    call(T0 + 4, 60, Op::RemoveStage(1)),
                    call(T0 + 5, 60, Op::AddStage { stage: stage(1), ms: big_nodup.clone() }),
                    call(T0 + 6, 60, Op::AddStage { stage: stage(2), ms: ones(&[6000, 6001, mid]) }),
                    call(T0 + 7, 60, Op::RemoveStage(0)),
                    call(T0 + 8, 60, Op::AddStage { stage: stage(0), ms: ones(&[first, 101]) }),
                    call(T0 + 9, 60, Op::TAdd { stage: 0, ms: big_nodup.clone() }),
                    call(T0 + 10, 60, Op::TRemove { stage: 0, ms: ids.clone() }),
                    call(T0 + 11, 60, Op::TAdd { stage: 0, ms: ones(&[last, first]) }),
                    call(T0 + 12, 60, Op::AddStage { stage: stage(1), ms: big_nodup }),
                    call(T0 + 13, 60, Op::TRemove { stage: 1, ms: scrambled(100, n - 2) }),
                ],
            }
        }
        Kind::Merkle => unreachable!(),
    }
}

/// sizes around every small literal of the whitelist sources (page sizes 25 / 100, ...),
/// plus 1.3x and 2.5x the largest of them
fn population_sizes() -> (Vec<u64>, u64, u64) {
    let lits: Vec<u64> = harvest_literals(&[
        "contracts/whitelists/whitelist/src/contract.rs",
        "contracts/whitelists/whitelist-flex/src/contract.rs",
        "contracts/whitelists/tiered-whitelist/src/contract.rs",
        "contracts/whitelists/tiered-whitelist-flex/src/contract.rs",
        "contracts/whitelists/tiered-whitelist/src/helpers.rs",
        "contracts/whitelists/tiered-whitelist-flex/src/helpers.rs",
    ])
    .into_iter()
    .filter(|l| (8..=300).contains(l))
    .map(|l| l as u64)
    .collect();
    let max = lits.iter().cloned().max().unwrap_or(100);
    let min = lits.iter().cloned().min().unwrap_or(25);
    let mut s: BTreeSet<u64> = BTreeSet::new();
    for l in &lits {
        s.extend([l - 1, *l, l + 1]);
    }
    s.insert(max * 13 / 10);
    s.insert(max * 5 / 2);
    (s.into_iter().collect(), min, max)
}

fn populations(a: &Args) -> Vec<History> {
    let (sizes, min, max) = population_sizes();
    let mut v = vec![];
    if a.thorough() {
        for k in [Kind::Plain, Kind::Flex, Kind::Tiered, Kind::TieredFlex, Kind::Immutable] {
            for n in &sizes {
                v.push(population(k, *n));
            }
        }
    } else {
        // a handful: one page + 1 and the largest everywhere, the exact page maximum and
        // its neighbour on the kinds that collect members in handlers
        for k in [Kind::Plain, Kind::Flex, Kind::Tiered, Kind::TieredFlex, Kind::Immutable] {
            v.push(population(k, max + 1));
            v.push(population(k, min + 1));
        }
        for k in [Kind::Tiered, Kind::TieredFlex] {
            v.push(population(k, max));
            v.push(population(k, max * 13 / 10));
        }
        v.push(population(Kind::Tiered, max * 5 / 2));
        v.push(population(Kind::Flex, max * 5 / 2));
        v.push(population(Kind::Immutable, max * 5 / 2));
    }
    v
}

fn random_members(rng: &mut Rng, max: u64) -> Vec<(u64, u32)> {
    let n = rng.below(max + 1);
    (0..n).map(|_| (if rng.chance(1, 40) { 50 + rng.below(3) } else { rng.range(100, 109) }, *rng.pick(&[0u32, 0, 1, 1, 2, 3, u32::MAX]))).collect()
}

fn random_history(kind: Kind, rng: &mut Rng, lits: &[u32]) -> History {
    let tier_limit = rng.chance(1, 3);
    let limit: u32 = if tier_limit { *rng.pick(&[998u32, 999, 1000, 1001, 1999, 2000]) } else { rng.range(2, 8) as u32 };
    let nstages = if kind.is_tiered() { rng.range(1, 3) } else { 0 };
    let mut init = if kind.is_tiered() {
        let lists = (0..nstages + rng.below(2)).map(|_| random_members(rng, 3)).collect();
        t_init(kind, lists, nstages, limit)
    } else {
        pf_init(kind, random_members(rng, 4), limit)
    };
    if kind.is_flex() && rng.chance(1, 4) {
        init.whale = Some(limit + rng.range(1, 3) as u32);
    }
    let mut steps = vec![];
    let mut now = T0;
    let mut cur_limit = limit;
    let mut cur_stages = nstages;
    let n = rng.range(10, 30);
    for _ in 0..n {
        now += if rng.chance(1, 25) { 100 * S } else { rng.below(3) };
        let sender = if rng.chance(1, 12) { 62 } else { *rng.pick(&[60u64, 61]) };
        let beyond = if rng.chance(1, 10) { 1 } else { 0 };
        let st = if cur_stages == 0 { 0 } else { rng.below(cur_stages + beyond) as u32 };
        let (op, funds) = match rng.below(12) {
            0..=3 => (add(kind, st, random_members(rng, 3)), vec![]),
            4..=5 => (remove(kind, st, random_members(rng, 2).into_iter().map(|m| m.0).collect()), vec![]),
            6..=7 => {
                let to = match rng.below(6) {
                    0 => cur_limit + 1,
                    1 => ((cur_limit / 1000) + 1) * 1000,
                    2 => ((cur_limit / 1000) + 1) * 1000 + 1,
                    3 => *rng.pick(lits),
                    4 => cur_limit,
                    _ => cur_limit + rng.range(1, 1200) as u32,
                };
                let exact = fee(to).saturating_sub(fee(cur_limit));
                let f = match rng.below(8) {
                    0 => exact + 1,
                    1 => exact.saturating_sub(1),
                    _ => exact,
                };
                if to > cur_limit && to <= kind.max_members() && f == exact {
                    cur_limit = to;
                }
                (Op::Increase(to), if f == 0 { vec![] } else { native(f) })
            }
            8 if kind.is_tiered() => {
                let s = stage(cur_stages);
                if cur_stages < 3 && sender != 62 && now < T0 + 100 * S {
                    cur_stages += 1;
                }
                (Op::AddStage { stage: s, ms: random_members(rng, 3) }, vec![])
            }
            9 if kind.is_tiered() => {
                if (st as u64) < cur_stages && sender != 62 && now < stage(st as u64).start {
                    cur_stages = st as u64;
                }
                (Op::RemoveStage(st), vec![])
            }
            10 if rng.chance(1, 3) => (Op::UpdAdmins(vec![60, 61, 62]), vec![]),
            _ => (add(kind, st, random_members(rng, 2)), vec![]),
        };
        steps.push(Step { now, sender, funds, op: Some(op) });
    }
    History { init, steps }
}

fn gen_histories(a: &Args) -> Vec<History> {
    let mut rng = Rng::new(a.seed);
    let mut lits: Vec<u32> = vec![1, 1000, 5000, 30000];
    for l in harvest_literals(&[
        "contracts/whitelists/whitelist/src/contract.rs",
        "contracts/whitelists/whitelist-flex/src/contract.rs",
        "contracts/whitelists/tiered-whitelist/src/contract.rs",
        "contracts/whitelists/tiered-whitelist-flex/src/contract.rs",
        "contracts/whitelists/whitelist-immutable/src/contract.rs",
    ]) {
        for d in [l.saturating_sub(1), l, l.saturating_add(1)] {
            if d <= 40_000 {
                lits.push(d as u32);
            }
        }
    }
    let mut v = corpus();
    v.extend(probes());
    v.extend(populations(a));
    let nrand = if a.thorough() { 600 } else { 40 };
    let mut rnd = vec![];
    for _ in 0..nrand {
        for k in LIST_KINDS {
            rnd.push(random_history(k, &mut rng, &lits));
        }
    }
    for _ in 0..(nrand / 2) {
        let ms: Vec<u64> = random_members(&mut rng, 6).into_iter().map(|m| m.0).collect();
        v.push(History { init: imm_init(ms, if rng.chance(1, 10) { native(5) } else { vec![] }), steps: vec![] });
    }
    // spread the long random histories evenly over the case-file shards
    let stride = (v.len() / rnd.len().max(1)).max(1);
    let mut out = Vec::with_capacity(v.len() + rnd.len());
    let mut it = rnd.into_iter();
    for (i, h) in v.into_iter().enumerate() {
        out.push(h);
        if i % stride == stride - 1 {
            out.extend(it.next());
        }
    }
    out.extend(it);
    out
}

fn shrink(h: &History, key: &str) -> History {
    let mut cur = h.clone();
    loop {
        let mut progressed = false;
        let mut i = 0;
        while i < cur.steps.len() {
            let mut cand = cur.clone();
            cand.steps.remove(i);
            match run_history(&cand).viol {
                Some((k, _)) if k == key => {
                    cur = cand;
                    progressed = true;
                }
                _ => i += 1,
            }
        }
        if !progressed {
            return cur;
        }
    }
}

pub fn run(a: &Args) {
    let out = OutDir::new(&a.out);
    let mut rep = Report { property: "C11".into(), tier: a.tier.clone(), seed: a.seed, ..Default::default() };
    let hs: Vec<History> = if let Some(p) = &a.replay {
        #[derive(Deserialize)]
        struct ReplayFile {
            case: History,
        }
        let txt = std::fs::read_to_string(p).expect("replay file");
        let rf: ReplayFile = serde_json::from_str(&txt).expect("replay json");
        vec![rf.case]
    } else {
        gen_histories(a)
    };
    let mut coq_cases = Vec::with_capacity(hs.len());
    let mut distinct_h = BTreeSet::new();
    let mut seen_keys: BTreeMap<String, u32> = BTreeMap::new();
    let mut nviol = 0;
    for (i, h) in hs.iter().enumerate() {
        let o = run_history(h);
        rep.evaluations += o.evals;
        for k in &o.hist {
            rep.bump(k);
        }
        if o.nontrivial {
            distinct_h.insert(h.clone());
        }
        if let Some((key, what)) = &o.viol {
            nviol += 1;
            let n = seen_keys.entry(key.clone()).or_insert(0);
            *n += 1;
            if *n <= 2 && rep.violations.len() < 20 {
                let small = shrink(h, key);
                let what2 = run_history(&small).viol.map(|v| v.1).unwrap_or(what.clone());
                let body = format!(
                    "{{\n \"property\": \"C11\",\n \"key\": {},\n \"case\": {},\n \"violation\": {}\n}}\n",
                    serde_json::to_string(key).unwrap(),
                    serde_json::to_string(&small).unwrap(),
                    serde_json::to_string(&what2).unwrap()
                );
                let path = out.write_replay(&format!("C11-{}.json", rep.violations.len() + 1), &body);
                rep.violations.push(Violation { key: key.clone(), what: format!("{}: {}", h.init.kind.label(), what2), replay: path });
            }
        }
        if rep.samples.len() < 3 && (i % 131 == 7 || a.replay.is_some()) {
            rep.samples.push(json!({"history": format!("{:?} + {} steps", h.init.kind, h.steps.len()), "impl_output": o.sample}));
        }
        coq_cases.push(o.coq);
        coq_cases.extend(o.extra);
    }
    rep.distinct_nontrivial = distinct_h.len() as u64;
    rep.rule = "histories on the real whitelist, whitelist-flex, tiered-whitelist, tiered-whitelist-flex and whitelist-immutable contracts: corpus (one replay per repaired defect), guard-boundary probes per kind (limits and fees at 999/1000/1001/.../MAX/MAX+1, count vs limit, sender roles, stage bookkeeping), random histories, malformed funds and addresses; evaluations = instantiate + calls. Non-trivial = distinct history with at least one accepted add / remove / stage / increase call (or an accepted immutable instantiate).".into();
    out.write_cases("C11", "From LP Require Import Wl WlTiered C11Corr.", "c11_case", "c11_check", &coq_cases, 6, &mut rep);
    out.finish(&rep);
    println!("C11 harness: {} histories, {} steps, {} monitor violations", hs.len(), rep.evaluations, nviol);
}
