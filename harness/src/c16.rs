//! C16 — ETH airdrop: only the key holder claims, bound to one wallet, within limits.
//! Drives the real sg-eth-airdrop (+ whitelist-immutable, vending minter, sg-whitelist)
//! through histories of ClaimAirdrop calls, records the observations and the answers of
//! the independent verifier (w_airdrop.rs) as Coq terms for the model comparison, and
//! evaluates the property sentence directly as monitors.
use crate::util::*;
use crate::w_airdrop::*;
use crate::Args;
use serde::{Deserialize, Serialize};
use std::collections::{BTreeMap, BTreeSet};

#[derive(Clone, Debug, Serialize, Deserialize, PartialEq, Eq)]
pub struct ClaimOp {
    pub sender: String,
    pub eth_address: String,
    pub eth_sig: String,
    /// generator label (histogram only)
    pub tag: String,
    /// when present the step is not a claim but an operation of the collection
    /// whitelist's own admin
    #[serde(default)]
    pub admin: Option<AdminOp>,
}
#[derive(Clone, Debug, Serialize, Deserialize, PartialEq, Eq)]
pub enum AdminOp {
    /// RemoveMembers [wallet]
    WlRemove(String),
    /// AddMembers [wallet]
    WlAdd(String),
    /// UpdateAdmins with (true) / without (false) the airdrop contract
    WlAirdropAdmin(bool),
}
#[derive(Clone, Debug, Serialize, Deserialize, PartialEq, Eq)]
pub struct Case {
    pub label: String,
    pub spec: WorldSpec,
    pub ops: Vec<ClaimOp>,
}

// ---------- documented numbers (property text / contract docs), used by monitors only
const DOC_MIN_AIRDROP: u128 = 10_000_000; // 10 STARS
const DOC_MAX_AIRDROP: u128 = 100_000_000_000_000; // 100 million STARS
const DOC_INSTANTIATION_FEE: u128 = 100_000_000; // 100 STARS
const DOC_MAX_PLAINTEXT: usize = 1000;

/// a byte string as the Coq term `(P len [chunks])`: seven bytes per primitive integer
fn coq_bytes(b: &[u8]) -> String {
    let mut s = format!("(P {} [", b.len());
    for (i, ch) in b.chunks(7).enumerate() {
        let mut v: u64 = 0;
        for k in 0..7 {
            v = (v << 8) | *ch.get(k).unwrap_or(&0) as u64;
        }
        if i > 0 {
            s.push_str("; ");
        }
        s.push_str(&v.to_string());
    }
    s.push_str("]%uint63)");
    s
}
fn coq_obytes(b: &Option<Vec<u8>>) -> String {
    match b {
        Some(v) => format!("(Some {})", coq_bytes(v)),
        None => "None".into(),
    }
}
fn coq_obool(b: Option<bool>) -> String {
    match b {
        Some(v) => format!("(Some {})", coq_bool(v)),
        None => "None".into(),
    }
}

/// the Ethereum address a string denotes, if it is 0x + 40 hex digits (any case)
fn eth_identity(s: &str) -> Option<Vec<u8>> {
    if s.len() == 42 && s.starts_with("0x") {
        ind_hex_decode(&s[2..])
    } else {
        None
    }
}

#[derive(Default)]
pub struct Outcome {
    /// vernacular: one `Definition <name>_s<i> : c16_step := ...` per call (a single huge
    /// term makes the elaborator's evar map grow quadratically)
    pub defs: Vec<String>,
    pub coq: String,
    pub built: bool,
    pub steps: u64,
    /// (key, what)
    pub violations: Vec<(String, String)>,
    /// per step: tag, ok, reached signature check
    pub step_info: Vec<(String, bool, bool)>,
    /// per step: (packages/ethereum-verify accepts, independent verifier accepts)
    pub crosscheck: Vec<(bool, bool)>,
    pub sample: Option<serde_json::Value>,
}

pub fn run_case(case: &Case, name: &str) -> Outcome {
    let spec = &case.spec;
    let mut out = Outcome::default();
    let built = build(spec);
    let funds_coq = if spec.inst_funds == 0 { "[]".to_string() } else { format!("[mkCoin 0 {}]", spec.inst_funds) };
    let head = |built: bool, bal0: u128, num0: u32| {
        format!(
            "CWorld {} {} {} {} {} {} {} {} {} {} {} {} {}",
            funds_coq,
            coq_bytes(spec.template.as_bytes()),
            spec.airdrop_amount,
            coq_list(&spec.list.iter().map(|a| coq_bytes(a.as_bytes())).collect::<Vec<_>>()),
            spec.per_address_limit,
            spec.top_up,
            coq_bool(spec.minter_has_whitelist),
            coq_bool(spec.airdrop_is_wl_admin),
            coq_list(&spec.cwl_initial_members.iter().map(|a| coq_bytes(a.as_bytes())).collect::<Vec<_>>()),
            num0,
            spec.cwl_member_limit,
            coq_bool(built),
            bal0
        )
    };
    // ---- instantiate validations (documented bounds)
    let inst_should_fail = spec.airdrop_amount < DOC_MIN_AIRDROP
        || spec.airdrop_amount > DOC_MAX_AIRDROP
        || !spec.template.contains("{wallet}")
        || spec.template.len() > DOC_MAX_PLAINTEXT
        || spec.inst_funds < DOC_INSTANTIATION_FEE;
    let mut w = match built {
        Built::AirdropRejected { creator_paid, err } => {
            if err.contains(SIGNER_MISMATCH) {
                // defect repaired by /repo commit d25169f; listed as fixed under C06
                out.violations.push(("C06:airdrop-fundpool-sender".into(), format!("airdrop instantiate rejected by the chain: {}", err.lines().last().unwrap_or(""))));
            }
            if creator_paid != 0 {
                out.violations.push(("C16:rejected-instantiate-charged".into(), format!("rejected instantiate cost the creator {}", creator_paid)));
            }
            out.coq = format!("{} [] []", head(false, 0, 0));
            out.steps = 1;
            return out;
        }
        Built::Ok(w) => w,
    };
    out.built = true;
    if inst_should_fail {
        out.violations.push((
            "C16:instantiate-accepted-invalid".into(),
            format!(
                "instantiate accepted amount {} / template of {} bytes (has {{wallet}}: {}) / funds {}",
                spec.airdrop_amount,
                spec.template.len(),
                spec.template.contains("{wallet}"),
                spec.inst_funds
            ),
        ));
    }
    let bal0 = w.airdrop_balance();
    // fee: exactly 100 STARS leave the contract whatever was attached, half burned, half to the pool
    if bal0 != spec.inst_funds - DOC_INSTANTIATION_FEE.min(spec.inst_funds) + spec.top_up
        || w.fee_burned != DOC_INSTANTIATION_FEE / 2
        || w.fee_burned + w.fee_pooled != DOC_INSTANTIATION_FEE
    {
        out.violations.push((
            "C16:instantiate-fee".into(),
            format!("attached {} (+{} top-up), contract holds {}, burned {}, pooled {}", spec.inst_funds, spec.top_up, bal0, w.fee_burned, w.fee_pooled),
        ));
    }
    let num0 = w.wl_num_members();
    let mut steps_coq: Vec<String> = vec![];
    // monitor state
    let mut successes: BTreeMap<Vec<u8>, u64> = BTreeMap::new(); // per Ethereum address (20 bytes)
    let mut successes_str: BTreeMap<String, u64> = BTreeMap::new(); // per exact string
    let mut total_paid: u128 = 0;
    let mut senders: BTreeSet<String> = BTreeSet::new();
    for (i, op) in case.ops.iter().enumerate() {
        if let Some(a) = &op.admin {
            use sg_whitelist::msg::{AddMembersMsg, ExecuteMsg as WlMsg, RemoveMembersMsg};
            let (msg, who) = match a {
                AdminOp::WlRemove(m) => (WlMsg::RemoveMembers(RemoveMembersMsg { to_remove: vec![m.clone()] }), Some(m.clone())),
                AdminOp::WlAdd(m) => (WlMsg::AddMembers(AddMembersMsg { to_add: vec![m.clone()] }), Some(m.clone())),
                AdminOp::WlAirdropAdmin(b) => {
                    let mut admins = vec![CREATOR.to_string()];
                    if *b {
                        admins.push(w.airdrop.to_string());
                    }
                    (WlMsg::UpdateAdmins { admins }, None)
                }
            };
            let ok = w.wl_admin_exec(&msg).is_ok();
            out.steps += 1;
            out.step_info.push((op.tag.clone(), ok, false));
            let nm = w.wl_num_members();
            let member = who.as_ref().map(|m| w.has_member(m).unwrap_or(false)).unwrap_or(false);
            // the property text on the admin's own operations: a removed wallet is off, an added one is on
            match a {
                AdminOp::WlRemove(m) if ok && member => out.violations.push(("C16:whitelist-remove-ineffective".into(), format!("step {}: RemoveMembers [{}] succeeded, HasMember still true", i, m))),
                AdminOp::WlAdd(m) if ok && !member => out.violations.push(("C16:whitelist-add-ineffective".into(), format!("step {}: AddMembers [{}] succeeded, HasMember false", i, m))),
                _ => {}
            }
            let term = match a {
                AdminOp::WlRemove(m) => format!("WlRemove {} {} {} {}", coq_bytes(m.as_bytes()), coq_bool(ok), coq_bool(member), nm),
                AdminOp::WlAdd(m) => format!("WlAdd {} {} {} {}", coq_bytes(m.as_bytes()), coq_bool(ok), coq_bool(member), nm),
                AdminOp::WlAirdropAdmin(b) => format!("WlAirdropAdmin {} {}", coq_bool(*b), coq_bool(ok)),
            };
            out.defs.push(format!("Definition {}_s{} : c16_step := {}.", name, i, term));
            steps_coq.push(format!("{}_s{}", name, i));
            continue;
        }
        senders.insert(op.sender.clone());
        // ---- independent oracle answers for this call
        let text = spec.template.replace("{wallet}", &op.sender);
        let pre = ind_eth_preimage(&text);
        let hash = ind_keccak(&pre);
        let o_sig = ind_hex_decode(&op.eth_sig);
        let ab = op.eth_address.as_bytes();
        let o_addr = ind_hex_decode_bytes(&ab[ab.len().min(2)..]);
        let rs: Option<Vec<u8>> = o_sig.as_ref().filter(|s| !s.is_empty()).map(|s| s[..s.len() - 1].to_vec());
        let (rec0, rec1) = match &rs {
            Some(rs) if rs.len() == 64 => (ind_recover(&hash, rs, 0), ind_recover(&hash, rs, 1)),
            _ => (None, None),
        };
        let a0 = rec0.as_ref().and_then(|p| ind_address_of(p)).map(|a| a.to_vec());
        let a1 = rec1.as_ref().and_then(|p| ind_address_of(p)).map(|a| a.to_vec());
        let v0 = rec0.as_ref().and_then(|p| ind_verify(&hash, rs.as_ref().unwrap(), p));
        let v1 = rec1.as_ref().and_then(|p| ind_verify(&hash, rs.as_ref().unwrap(), p));
        let ind_valid = ind_valid_personal_sign(&op.eth_address, &text, &op.eth_sig);
        // the repo's verifier called directly on the same data (diagnostic; the verdicts
        // come from the monitors and from the model comparison)
        let repo_valid = match &o_sig {
            Some(sig) => {
                let deps = cosmwasm_std::testing::mock_dependencies();
                matches!(catch(|| ethereum_verify::verify_ethereum_text(deps.as_ref(), &text, sig, &op.eth_address)), Ok(Ok(true)))
            }
            None => false,
        };
        out.crosscheck.push((repo_valid, ind_valid));

        // ---- the call
        let before_sender = w.balance(&op.sender);
        let before_air = w.airdrop_balance();
        let before_dig = w.digests();
        let before_counts = w.raw_counts();
        let before_member = w.has_member(&op.sender);
        let r = w.claim(&op.sender, &op.eth_address, &op.eth_sig);
        let ok = r.is_ok();
        let after_sender = w.balance(&op.sender);
        let after_air = w.airdrop_balance();
        let elig = w.eligible(&op.eth_address).unwrap_or(false);
        let member = w.has_member(&op.sender).unwrap_or(false);
        let count = w.raw_count(&op.eth_address);
        let nm = w.wl_num_members();
        out.steps += 1;
        let reached_sig = spec.list.contains(&op.eth_address) && o_sig.as_ref().map(|s| s.len() == 65).unwrap_or(false);
        out.step_info.push((op.tag.clone(), ok, reached_sig));

        // ---- monitors (the property sentence; nothing shared with the model)
        let ident = eth_identity(&op.eth_address);
        let on_list = match &ident {
            Some(id) => spec.list.iter().any(|l| eth_identity(l).as_ref() == Some(id)),
            None => false,
        };
        let mut viol = |key: &str, what: String| out.violations.push((key.to_string(), format!("step {} ({}): {}", i, op.tag, what)));
        if ok {
            if ident.is_none() {
                viol(
                    "C16:accepted-malformed-address",
                    format!("claim succeeded for {:?}, which is not a well-formed Ethereum address (0x + 40 hex digits)", op.eth_address),
                );
            } else if !on_list {
                viol("C16:claim-without-eligibility", format!("claim for {} succeeded, the address is not on the list", op.eth_address));
            }
            if !ind_valid {
                viol(
                    "C16:accepted-invalid-signature",
                    format!("claim succeeded although the independent verifier rejects the signature for ({}, text with sender {})", op.eth_address, op.sender),
                );
            }
            if after_sender != before_sender + spec.airdrop_amount || after_air + spec.airdrop_amount != before_air {
                viol(
                    "C16:payout-mismatch",
                    format!("airdrop amount {}, claimant {} -> {}, contract {} -> {}", spec.airdrop_amount, before_sender, after_sender, before_air, after_air),
                );
            }
            if !member {
                viol("C16:claimant-not-whitelisted", format!("successful claim, HasMember({}) is false", op.sender));
            }
            total_paid += spec.airdrop_amount;
            *successes_str.entry(op.eth_address.clone()).or_insert(0) += 1;
            // per key: a well-formed string counts for the address it denotes, any other string
            // for the address of the key that made the signature (independent recovery)
            let signer: Option<Vec<u8>> = match &o_sig {
                Some(sg) if sg.len() == 65 => {
                    let rid = match sg[64] {
                        0 | 27 => Some(0u8),
                        1 | 28 => Some(1u8),
                        _ => None,
                    };
                    rid.and_then(|r| ind_recover(&hash, &sg[..64], r)).and_then(|p| ind_address_of(&p)).map(|a| a.to_vec())
                }
                _ => None,
            };
            if let Some(id) = ident.clone().or(signer) {
                let ident = Some(id.clone());
                let n = successes.entry(id).or_insert(0);
                *n += 1;
                if *n > spec.per_address_limit as u64 {
                    let by_string = successes_str[&op.eth_address] > spec.per_address_limit as u64;
                    // the known shape, exactly: the list itself holds this address under several
                    // spellings and every successful spelling is one of those list entries
                    let spellings_on_list = spec.list.iter().filter(|l| eth_identity(l) == ident).collect::<BTreeSet<_>>();
                    let all_listed = successes_str.keys().filter(|s| eth_identity(s) == ident).all(|s| spec.list.contains(s));
                    if by_string || spellings_on_list.len() < 2 || !all_listed {
                        viol("C16:limit-exceeded", format!("{} claimed {} times, limit {}", op.eth_address, *n, spec.per_address_limit));
                    } else {
                        viol(
                            "C16:limit-exceeded-by-case-variants",
                            format!("Ethereum address {} claimed {} times through differently capitalised spellings on the list, limit {}", op.eth_address.to_lowercase(), *n, spec.per_address_limit),
                        );
                    }
                }
            }
        } else {
            let after_dig = w.digests();
            if after_sender != before_sender || after_air != before_air || after_dig != before_dig || w.raw_counts() != before_counts || w.has_member(&op.sender) != before_member {
                viol("C16:failed-claim-changed-state", format!("failed claim: claimant {} -> {}, contract {} -> {}, storage changed: {}", before_sender, after_sender, before_air, after_air, after_dig != before_dig));
            }
        }
        if out.sample.is_none() && i == case.ops.len() / 2 {
            out.sample = Some(serde_json::json!({"world": case.label, "op": op, "impl_ok": ok, "independent_verifier_accepts": ind_valid,
                "claimant_balance": after_sender.to_string(), "contract_balance": after_air.to_string(), "whitelisted": member, "raw_count": count}));
        }
        out.defs.push(format!(
            "Definition {}_s{} : c16_step := Claim {} {} {} (mkOracle {} {} {} {} {} {} {} {} {} {}) {} {} {} {} {} {} {}.",
            name,
            i,
            coq_bytes(op.sender.as_bytes()),
            coq_bytes(op.eth_address.as_bytes()),
            coq_bytes(op.eth_sig.as_bytes()),
            coq_obytes(&o_sig),
            coq_obytes(&o_addr),
            coq_bytes(&pre),
            coq_bytes(&hash),
            coq_obytes(&rec0),
            coq_obytes(&rec1),
            coq_obytes(&a0),
            coq_obytes(&a1),
            coq_obool(v0),
            coq_obool(v1),
            coq_bool(ok),
            after_sender,
            after_air,
            coq_bool(elig),
            coq_bool(member),
            match count {
                Some(c) => format!("(Some {})", c),
                None => "None".into(),
            },
            nm
        ));
        steps_coq.push(format!("{}_s{}", name, i));
    }
    // total-paid accounting
    let held: u128 = senders.iter().map(|s| w.balance(s)).sum();
    if held != total_paid || bal0 - w.airdrop_balance() != total_paid {
        out.violations.push(("C16:total-paid".into(), format!("{} successful claims worth {}, claimants hold {}, contract paid out {}", total_paid / spec.airdrop_amount.max(1), total_paid, held, bal0 - w.airdrop_balance())));
    }
    let finals = w.raw_counts();
    out.coq = format!(
        "{} {} {}",
        head(true, bal0, num0),
        coq_list(&steps_coq),
        coq_list(&finals.iter().map(|(k, v)| format!("({}, {})", coq_bytes(k.as_bytes()), v)).collect::<Vec<_>>())
    );
    out
}

// ---------------------------------------------------------------------------------
// generators
// ---------------------------------------------------------------------------------

const TEMPLATES: &[&str] = &[
    "My Stargaze address is {wallet} and I want a Winter Pal.",
    "{wallet}",
    "{wallet} claims; again: {wallet}",
    "x{wallet}{wallet}y",
    "{{wallet}}",
    "{wallet{wallet}}",
    "{wallet {wallet}",
    "J'adresse \u{e9}t\u{e9} {wallet} \u{1F680} fin",
    "line one\nline two {wallet}\n",
    // multi-byte UTF-8 (2, 3 and 4 bytes per character), also touching the placeholder
    "\u{e9}{wallet}\u{f1}",
    "Mi direcci\u{f3}n: {wallet} \u{2744}",
    "\u{65e5}\u{672c}{wallet}\u{8a9e} \u{2014} {wallet}",
    "{wallet}\u{1F680}\u{1D518}",
    "\u{2744}{wallet}",
    "\u{1F9CA}\u{e9}\u{2744} {wallet} \u{e9}\u{2744}\u{1F9CA}",
    // leading / trailing whitespace (ASCII and U+00A0), mixed case
    " \t{wallet} Claims THIS \u{a0}\n",
];
const WALLETS: &[&str] = &["stars1claimant", "stars1qqqqqqqqqqqqqqqqqqqqqqqqqqqqqqqqqqqqqq", "stars1other", "abc", "stars1claimanu"];

struct Keys {
    k: Vec<EthKey>,
}
impl Keys {
    fn new(seed: u64, n: u64) -> Self {
        Keys { k: (0..n).map(|i| eth_key(seed, i)).collect() }
    }
}

fn text_for(spec: &WorldSpec, sender: &str) -> String {
    spec.template.replace("{wallet}", sender)
}
fn valid_sig(spec: &WorldSpec, k: &EthKey, sender: &str) -> [u8; 65] {
    personal_sign(k, &text_for(spec, sender))
}
/// ECDSA signature by `k` directly over a 32-byte digest (no personal-sign framing), r||s||v with v in {27,28}
fn sign_digest(k: &EthKey, digest: [u8; 32]) -> [u8; 65] {
    let sig = k.wallet.sign_hash(ethers_core::types::H256::from(digest));
    let v = sig.to_vec();
    let mut out = [0u8; 65];
    out.copy_from_slice(&v);
    out
}
/// Digests a plausible slip in the personal-sign framing would hash instead of
/// keccak("\x19Ethereum Signed Message:\n" + <byte length, decimal> + text).  Only those that
/// differ from the genuine digest are returned: a signature by the listed key over any of
/// them is NOT a personal-sign signature over the claim text and must be refused.
fn near_miss_digests(template: &str, text: &str) -> Vec<(&'static str, [u8; 32])> {
    const P: &[u8] = b"\x19Ethereum Signed Message:\n";
    let genuine = ind_keccak(&ind_eth_preimage(text));
    let tb = text.as_bytes();
    let with = |prefix: &[u8], len: &[u8], body: &[u8]| -> [u8; 32] {
        let mut v = prefix.to_vec();
        v.extend_from_slice(len);
        v.extend_from_slice(body);
        ind_keccak(&v)
    };
    let dec = |n: usize| n.to_string().into_bytes();
    let mut out: Vec<(&'static str, [u8; 32])> = vec![
        ("nearmiss-len-chars", with(P, &dec(text.chars().count()), tb)),
        ("nearmiss-len-utf16", with(P, &dec(text.encode_utf16().count()), tb)),
        ("nearmiss-len-plus1", with(P, &dec(tb.len() + 1), tb)),
        ("nearmiss-len-minus1", with(P, &dec(tb.len().saturating_sub(1)), tb)),
        ("nearmiss-len-of-template", with(P, &dec(template.len()), tb)),
        ("nearmiss-len-of-template-chars", with(P, &dec(template.chars().count()), tb)),
        ("nearmiss-len-hex", with(P, format!("{:x}", tb.len()).as_bytes(), tb)),
        ("nearmiss-len-0xhex", with(P, format!("{:#x}", tb.len()).as_bytes(), tb)),
        ("nearmiss-len-padded", with(P, format!("{:04}", tb.len()).as_bytes(), tb)),
        ("nearmiss-len-byte", with(P, &[tb.len() as u8], tb)),
        ("nearmiss-len-u32be", with(P, &(tb.len() as u32).to_be_bytes(), tb)),
        ("nearmiss-len-u64le", with(P, &(tb.len() as u64).to_le_bytes(), tb)),
        ("nearmiss-len-missing", with(P, b"", tb)),
        ("nearmiss-len-then-newline", with(P, format!("{}\n", tb.len()).as_bytes(), tb)),
        ("nearmiss-len-then-space", with(P, format!("{} ", tb.len()).as_bytes(), tb)),
        ("nearmiss-no-prefix", ind_keccak(tb)),
        ("nearmiss-prefix-no-newline", with(&P[..P.len() - 1], &dec(tb.len()), tb)),
        ("nearmiss-prefix-no-x19", with(&P[1..], &dec(tb.len()), tb)),
        ("nearmiss-prefix-x18", with(b"\x18Ethereum Signed Message:\n", &dec(tb.len()), tb)),
        ("nearmiss-prefix-bitcoin", with(b"\x18Bitcoin Signed Message:\n", &dec(tb.len()), tb)),
        ("nearmiss-prefix-lowercase", with(b"\x19ethereum signed message:\n", &dec(tb.len()), tb)),
        ("nearmiss-prefix-crlf", with(b"\x19Ethereum Signed Message:\r\n", &dec(tb.len()), tb)),
        ("nearmiss-hash-of-hash-as-message", with(P, b"32", &ind_keccak(tb))),
        ("nearmiss-hex-of-hash-as-message", with(P, b"64", hex::encode(ind_keccak(tb)).as_bytes())),
        ("nearmiss-double-keccak", ind_keccak(&genuine)),
        ("nearmiss-text-utf16le", {
            let u: Vec<u8> = text.encode_utf16().flat_map(|c| c.to_le_bytes()).collect();
            with(P, &dec(u.len()), &u)
        }),
        ("nearmiss-text-latin1-lossy", {
            let u: Vec<u8> = text.chars().map(|c| if (c as u32) < 256 { c as u8 } else { b'?' }).collect();
            with(P, &dec(u.len()), &u)
        }),
        ("nearmiss-text-trailing-nul", {
            let mut u = tb.to_vec();
            u.push(0);
            with(P, &dec(u.len()), &u)
        }),
        ("nearmiss-sha256", {
            use sha2::{Digest, Sha256};
            let mut h = Sha256::new();
            h.update(ind_eth_preimage(text));
            let mut o = [0u8; 32];
            o.copy_from_slice(&h.finalize());
            o
        }),
    ];
    // genuine framing over a text that a normalising slip would hash instead (and the two
    // mixed forms: length of one, body of the other)
    let transforms: Vec<(&'static str, String)> = vec![
        ("nearmiss-text-trimmed", text.trim().to_string()),
        ("nearmiss-text-trim-end", text.trim_end().to_string()),
        ("nearmiss-text-trim-start", text.trim_start().to_string()),
        ("nearmiss-text-lowercase", text.to_lowercase()),
        ("nearmiss-text-uppercase", text.to_uppercase()),
        ("nearmiss-text-ascii-lowercase", text.to_ascii_lowercase()),
        ("nearmiss-text-crlf", text.replace('\n', "\r\n")),
        ("nearmiss-text-newlines-to-spaces", text.replace('\n', " ")),
        ("nearmiss-text-collapsed-whitespace", text.split_whitespace().collect::<Vec<_>>().join(" ")),
        ("nearmiss-text-escaped-newlines", text.replace('\n', "\\n")),
        ("nearmiss-text-json-quoted", format!("\"{}\"", text)),
        ("nearmiss-text-bom", format!("\u{feff}{}", text)),
        ("nearmiss-text-ascii-only", text.chars().filter(|c| c.is_ascii()).collect()),
        ("nearmiss-text-hex-of-utf8", hex::encode(tb)),
        ("nearmiss-text-0xhex-of-utf8", format!("0x{}", hex::encode(tb))),
    ];
    for (tag, t2) in &transforms {
        let b2 = t2.as_bytes();
        out.push((tag, with(P, &dec(b2.len()), b2)));
        if b2.len() != tb.len() {
            out.push((tag, with(P, &dec(tb.len()), b2)));
            out.push((tag, with(P, &dec(b2.len()), tb)));
        }
    }
    out.retain(|(_, d)| *d != genuine);
    // one signature per distinct digest
    let mut seen = BTreeSet::new();
    out.retain(|(_, d)| seen.insert(*d));
    out
}

fn op(sender: &str, addr: &str, sig: &str, tag: &str) -> ClaimOp {
    ClaimOp { sender: sender.into(), eth_address: addr.into(), eth_sig: sig.into(), tag: tag.into(), admin: None }
}
fn admin_op(a: AdminOp, tag: &str) -> ClaimOp {
    ClaimOp { sender: String::new(), eth_address: String::new(), eth_sig: String::new(), tag: tag.into(), admin: Some(a) }
}
/// (r, n - s, v with flipped parity): the other ECDSA signature of the same message
fn malleate(sig: &[u8; 65]) -> [u8; 65] {
    use ethers_core::k256::elliptic_curve::PrimeField;
    use ethers_core::k256::{FieldBytes, Scalar};
    let s: Option<Scalar> = Scalar::from_repr(FieldBytes::clone_from_slice(&sig[32..64])).into();
    let ns = -s.unwrap();
    let mut o = *sig;
    o[32..64].copy_from_slice(&ns.to_bytes());
    o[64] = match sig[64] {
        27 => 28,
        28 => 27,
        0 => 1,
        _ => 0,
    };
    o
}
fn upper_addr(a: &str) -> String {
    format!("0x{}", a[2..].to_uppercase())
}
fn mixed_addr(a: &str) -> String {
    let mut s = String::from("0x");
    for (i, c) in a[2..].chars().enumerate() {
        s.push(if i % 2 == 0 { c.to_ascii_uppercase() } else { c });
    }
    s
}

fn gen_cases(a: &Args) -> Vec<Case> {
    let mut rng = Rng::new(a.seed);
    let keys = Keys::new(a.seed, 6);
    let k = &keys.k;
    let thorough = a.thorough();
    let mut cases: Vec<Case> = vec![];
    let lower = |i: usize| k[i].addr_lower.clone();
    let w0 = WALLETS[0];
    let w1 = WALLETS[1];
    let w2 = WALLETS[2];

    // ---------------- 1. corpus
    {
        // the repo's own scenario and its immediate neighbours, limit 1
        let spec = WorldSpec::basic(vec![lower(0), lower(1)], 1);
        let s00 = hex::encode(valid_sig(&spec, &k[0], w0));
        let s01 = hex::encode(valid_sig(&spec, &k[0], w1));
        let s10 = hex::encode(valid_sig(&spec, &k[1], w0));
        let s30 = hex::encode(valid_sig(&spec, &k[3], w0));
        cases.push(Case {
            label: "corpus:limit1".into(),
            spec: spec.clone(),
            ops: vec![
                op(w1, &lower(0), &s00, "replay-other-wallet"), // signature made for w0, presented by w1
                op(w0, &lower(0), &s30, "other-key"),           // k3 signed, claims k0's address
                op(w0, &lower(3), &s30, "not-eligible"),        // k3's own valid signature, not on the list
                op(w0, &lower(1), &s00, "other-address"),       // k0's signature presented for k1's address
                op(w0, &lower(0), &s00, "valid"),
                op(w0, &lower(0), &s00, "valid-again"),         // past the limit
                op(w1, &lower(0), &s01, "valid-other-wallet-past-limit"),
                op(w0, &lower(1), &s10, "valid-second-address-same-wallet"), // same wallet, already whitelisted
                op(w1, &lower(1), &s10, "replay-other-wallet"),
            ],
        });
        // signatures by the right key over the wrong text: the bare template, the text with
        // the Ethereum address / nothing / another wallet spliced in, a neighbouring text
        let spec2 = WorldSpec::basic(vec![lower(0), lower(1)], 3);
        let mut ops = vec![];
        for (text, tag) in [
            (spec2.template.clone(), "sig-over-bare-template"),
            (spec2.template.replace("{wallet}", &lower(0)), "sig-over-text-with-eth-address"),
            (spec2.template.replace("{wallet}", ""), "sig-over-text-without-wallet"),
            (spec2.template.replace("{wallet}", w1), "replay-other-wallet"),
            (format!("{} ", text_for(&spec2, w0)), "sig-over-neighbouring-text"),
            (text_for(&spec2, w0).to_uppercase(), "sig-over-neighbouring-text"),
            (text_for(&spec2, w0)[1..].to_string(), "sig-over-neighbouring-text"),
            ("".to_string(), "sig-over-empty-text"),
        ] {
            ops.push(op(w0, &lower(0), &hex::encode(personal_sign(&k[0], &text)), tag));
        }
        // a raw (not personal-sign prefixed) signature over keccak(text)
        {
            let h = ind_keccak(text_for(&spec2, w0).as_bytes());
            let sig = k[0].wallet.sign_hash(ethers_core::types::H256::from(h));
            ops.push(op(w0, &lower(0), &hex::encode(sig.to_vec()), "sig-without-eth-prefix"));
        }
        ops.push(op(w0, &lower(0), &hex::encode(valid_sig(&spec2, &k[0], w0)), "valid"));
        cases.push(Case { label: "corpus:wrong-text".into(), spec: spec2, ops });
        for limit in [0u32, 2, 3] {
            let mut spec = WorldSpec::basic(vec![lower(0), lower(1), lower(2)], limit);
            spec.template = TEMPLATES[2].into();
            let mut ops = vec![];
            for round in 0..(limit + 2) {
                for (ki, w) in [(0usize, w0), (1, w1), (2, w2), (0, w2)] {
                    let s = hex::encode(valid_sig(&spec, &k[ki], w));
                    ops.push(op(w, &lower(ki), &s, if round < limit { "valid" } else { "valid-past-limit" }));
                }
            }
            cases.push(Case { label: format!("corpus:limit{}", limit), spec, ops });
        }
    }
    {
        // eligibility is a string match: spellings of the same address
        let up = upper_addr(&lower(0));
        let mx = mixed_addr(&lower(1));
        let spec = WorldSpec::basic(vec![up.clone(), lower(1), lower(2)], 1);
        let s0 = hex::encode(valid_sig(&spec, &k[0], w0));
        let s1 = hex::encode(valid_sig(&spec, &k[1], w1));
        let s2 = hex::encode(valid_sig(&spec, &k[2], w2));
        cases.push(Case {
            label: "corpus:spellings".into(),
            spec,
            ops: vec![
                op(w0, &lower(0), &s0, "addr-lower-list-upper"),
                op(w0, &up, &s0, "addr-upper-as-listed"),
                op(w0, &up, &s0, "addr-upper-as-listed-again"),
                op(w1, &mx, &s1, "addr-mixed-list-lower"),
                op(w1, &upper_addr(&lower(1)), &s1, "addr-upper-list-lower"),
                op(w1, &lower(1), &s1, "valid"),
                op(w2, &lower(2)[2..].to_string(), &s2, "addr-no-0x"),
                op(w2, &format!("0X{}", &lower(2)[2..]), &s2, "addr-0X"),
                op(w2, &format!("{}0", lower(2)), &s2, "addr-43"),
                op(w2, &lower(2)[..41].to_string(), &s2, "addr-41"),
                op(w2, &format!("0x{}zz", &lower(2)[2..40]), &s2, "addr-nonhex"),
                op(w2, "", &s2, "addr-empty"),
                op(w2, &lower(2), &s2, "valid"),
            ],
        });
        // malformed strings that ARE on the list: eligibility passes, decoding must still refuse
        let bad = vec![lower(2)[2..].to_string(), format!("0X{}", &lower(2)[2..]), format!("{}0", lower(2)), lower(2)[..41].to_string(), format!("0x{}zz", &lower(2)[2..40]), "".to_string(), "0x".to_string(), format!("0x{}\u{e9}", &lower(2)[2..40])];
        let spec = WorldSpec::basic(bad.clone(), 2);
        let s2 = hex::encode(valid_sig(&spec, &k[2], w2));
        cases.push(Case { label: "corpus:malformed-on-list".into(), spec, ops: bad.iter().map(|b| op(w2, b, &s2, "addr-malformed-listed")).collect() });
    }
    {
        // malformed spellings of a listed key's address AS LIST ENTRIES (the list is not validated
        // at instantiation and eligibility is an exact string match): sign characters or a space
        // inside a byte pair, 0X, no prefix, 39/41 digits, non-hex.  The key is one whose address
        // has a byte below 0x10, so that "+a" / "-a" / " a" are candidates for 0x0a.
        let mut mk: Option<EthKey> = None;
        for i in 0..200u64 {
            let cand = eth_key(a.seed, i);
            if cand.addr_bytes.iter().any(|b| *b < 0x10) {
                mk = Some(cand);
                break;
            }
        }
        let mk = mk.expect("a key whose address has a small byte");
        let good = mk.addr_lower.clone();
        let h = &good[2..];
        let small: Vec<usize> = (0..20).filter(|i| mk.addr_bytes[*i] < 0x10).collect();
        let mut bad: Vec<String> = vec![];
        for (n, bi) in small.iter().enumerate().take(2) {
            let p = 2 * bi;
            for c in ["+", "-", " ", "x", "_"] {
                bad.push(format!("0x{}{}{}", &h[..p], c, &h[p + 1..]));
            }
            if n == 0 {
                // the low nibble position and both nibbles
                bad.push(format!("0x{}{}+{}", &h[..p], &h[p + 1..p + 2], &h[p + 2..]));
            }
        }
        // every small byte written with '+' at once
        {
            let mut v: Vec<u8> = h.as_bytes().to_vec();
            for bi in &small {
                v[2 * bi] = b'+';
            }
            bad.push(format!("0x{}", String::from_utf8(v).unwrap()));
        }
        bad.extend([
            format!("0X{}", h),
            h.to_string(),
            format!("00{}", h),
            format!("0x{}", &h[..39]),
            format!("0x{}0", h),
            format!("0x{}", &h[1..]),
            format!("0x{}g", &h[..39]),
            format!("0x{}", h.replacen(&h[0..1], "o", 1)),
            format!(" 0x{}", &h[..39]),
            format!("0x{} ", &h[..39]),
            format!("+0x{}", &h[..39]),
            format!("0x+{}", &h[..39]),
        ]);
        bad.sort();
        bad.dedup();
        bad.retain(|b| *b != good);
        for (label, list, limit) in [
            ("corpus:malformed-spellings-next-to-good", { let mut l = vec![good.clone()]; l.extend(bad.clone()); l }, 1u32),
            ("corpus:malformed-spellings-only", { let mut l = vec![lower(1)]; l.extend(bad.clone()); l }, 2u32),
        ] {
            let mut spec = WorldSpec::basic(list, limit);
            spec.inst_funds = 100_000_000 + 60 * spec.airdrop_amount;
            let sg = hex::encode(valid_sig(&spec, &mk, w0));
            let mut ops = vec![];
            if label.ends_with("good") {
                ops.push(op(w0, &good, &sg, "valid"));
            }
            for b in &bad {
                ops.push(op(w0, b, &sg, "addr-malformed-listed"));
            }
            // and by another wallet with its own genuine signature
            let sg1 = hex::encode(valid_sig(&spec, &mk, w1));
            for b in bad.iter().take(8) {
                ops.push(op(w1, b, &sg1, "addr-malformed-listed"));
            }
            if !label.ends_with("good") {
                ops.push(op(w0, &good, &sg, "not-eligible"));
            }
            cases.push(Case { label: label.into(), spec, ops });
        }
    }
    {
        // the collection whitelist's own admin acts between claims: removes an earlier claimant,
        // adds a future one, takes the airdrop contract off the admin list and puts it back.
        // After EVERY successful claim the caller must be on the collection whitelist.
        let spec = WorldSpec::basic(vec![lower(0), lower(1), lower(2)], 3);
        let sig = |ki: usize, w: &str| hex::encode(valid_sig(&spec, &k[ki], w));
        let ops = vec![
            op(w0, &lower(0), &sig(0, w0), "valid"),
            admin_op(AdminOp::WlRemove(w0.into()), "wl-remove-claimant"),
            op(w0, &lower(1), &sig(1, w0), "valid-after-removal"),
            admin_op(AdminOp::WlAdd(w1.into()), "wl-add-future-claimant"),
            op(w1, &lower(2), &sig(2, w1), "valid-already-member"),
            admin_op(AdminOp::WlRemove(w1.into()), "wl-remove-claimant"),
            admin_op(AdminOp::WlRemove(w1.into()), "wl-remove-non-member"),
            op(w1, &lower(0), &sig(0, w1), "valid-after-removal"),
            admin_op(AdminOp::WlRemove(w0.into()), "wl-remove-claimant"),
            admin_op(AdminOp::WlRemove(w1.into()), "wl-remove-claimant"),
            op(w1, &lower(1), &sig(1, w1), "valid-after-removal"),
            op(w0, &lower(2), &sig(2, w0), "valid-after-removal"),
            admin_op(AdminOp::WlAirdropAdmin(false), "wl-airdrop-not-admin"),
            op(w2, &lower(1), &sig(1, w2), "valid-airdrop-not-admin"),
            admin_op(AdminOp::WlAirdropAdmin(true), "wl-airdrop-admin-again"),
            op(w2, &lower(1), &sig(1, w2), "valid"),
            admin_op(AdminOp::WlRemove(w2.into()), "wl-remove-claimant"),
            op(w2, &lower(0), &sig(0, w2), "valid-after-removal"),
        ];
        cases.push(Case { label: "corpus:wl-admin-between-claims".into(), spec: spec.clone(), ops });
        // member limit reached by the admin's own additions, freed again by a removal
        let mut spec2 = WorldSpec::basic(vec![lower(0), lower(1), lower(2)], 3);
        spec2.cwl_member_limit = 2;
        let sig2 = |ki: usize, w: &str| hex::encode(valid_sig(&spec2, &k[ki], w));
        let ops = vec![
            admin_op(AdminOp::WlAdd("stars1early".into()), "wl-add-other"),
            admin_op(AdminOp::WlAdd("stars1early2".into()), "wl-add-other"),
            admin_op(AdminOp::WlAdd("stars1early3".into()), "wl-add-over-limit"),
            op(w0, &lower(0), &sig2(0, w0), "valid-member-limit-reached"),
            admin_op(AdminOp::WlRemove("stars1early".into()), "wl-remove-other"),
            op(w0, &lower(0), &sig2(0, w0), "valid"),
            op(w1, &lower(1), &sig2(1, w1), "valid-member-limit-reached"),
            op(w0, &lower(1), &sig2(1, w0), "valid-member-limit-reached"), // already a member, still refused: the limit test comes first
            admin_op(AdminOp::WlRemove(w0.into()), "wl-remove-claimant"),
            op(w0, &lower(2), &sig2(2, w0), "valid-after-removal"),
        ];
        cases.push(Case { label: "corpus:wl-admin-member-limit".into(), spec: spec2, ops });
    }
    {
        // one Ethereum address listed under two spellings (candidate finding: each spelling has its own counter)
        let up = upper_addr(&lower(0));
        let spec = WorldSpec::basic(vec![lower(0), up.clone()], 1);
        let s0 = hex::encode(valid_sig(&spec, &k[0], w0));
        cases.push(Case {
            label: "corpus:two-spellings-listed".into(),
            spec,
            ops: vec![op(w0, &lower(0), &s0, "valid"), op(w0, &up, &s0, "valid-second-spelling"), op(w0, &up, &s0, "valid-past-limit")],
        });
    }
    {
        // surroundings: balance, admin, minter whitelist, member limit
        for (label, f) in [
            ("corpus:balance-short", Box::new(|s: &mut WorldSpec| s.inst_funds = 100_000_000 + s.airdrop_amount - 1) as Box<dyn Fn(&mut WorldSpec)>),
            ("corpus:balance-exact", Box::new(|s: &mut WorldSpec| s.inst_funds = 100_000_000 + s.airdrop_amount)),
            ("corpus:balance-plus1-topup", Box::new(|s: &mut WorldSpec| {
                s.inst_funds = 100_000_000;
                s.top_up = s.airdrop_amount + 1
            })),
            ("corpus:not-admin", Box::new(|s: &mut WorldSpec| s.airdrop_is_wl_admin = false)),
            ("corpus:minter-no-whitelist", Box::new(|s: &mut WorldSpec| s.minter_has_whitelist = false)),
            ("corpus:member-limit-1", Box::new(|s: &mut WorldSpec| s.cwl_member_limit = 1)),
            ("corpus:member-limit-2-one-present", Box::new(|s: &mut WorldSpec| {
                s.cwl_member_limit = 2;
                s.cwl_initial_members = vec![WALLETS[2].to_string()]
            })),
            ("corpus:already-member", Box::new(|s: &mut WorldSpec| s.cwl_initial_members = vec![WALLETS[0].to_string()])),
        ] {
            let mut spec = WorldSpec::basic(vec![lower(0), lower(1), lower(2)], 2);
            f(&mut spec);
            let mut ops = vec![];
            for (ki, w) in [(0usize, w0), (1, w1), (2, w2), (0, w0)] {
                ops.push(op(w, &lower(ki), &hex::encode(valid_sig(&spec, &k[ki], w)), "valid"));
            }
            cases.push(Case { label: label.into(), spec, ops });
        }
    }

    // ---------------- 2. guard-boundary probes
    // 2a. instantiate: amount, fee, template
    {
        let mut lits: Vec<u128> = harvest_literals(&["contracts/sg-eth-airdrop/src/contract.rs"]);
        lits.extend([DOC_MIN_AIRDROP, DOC_MAX_AIRDROP, DOC_INSTANTIATION_FEE]);
        let mut amounts = BTreeSet::new();
        for l in &lits {
            for d in [l.saturating_sub(1), *l, l + 1] {
                amounts.insert(d);
            }
        }
        amounts.insert(u128::MAX);
        amounts.insert(0);
        for amt in amounts {
            let mut spec = WorldSpec::basic(vec![lower(0)], 1);
            spec.airdrop_amount = amt;
            spec.inst_funds = 100_000_000;
            spec.top_up = amt.min(DOC_MAX_AIRDROP + 5).saturating_mul(2);
            let s = hex::encode(valid_sig(&spec, &k[0], w0));
            cases.push(Case { label: format!("inst:amount-{}", amt), spec, ops: vec![op(w0, &lower(0), &s, "valid")] });
        }
        for funds in [0u128, 1, 99_999_999, 100_000_000, 100_000_001, 100_000_000 + 66_000_000] {
            let mut spec = WorldSpec::basic(vec![lower(0)], 1);
            spec.inst_funds = funds;
            let s = hex::encode(valid_sig(&spec, &k[0], w0));
            cases.push(Case { label: format!("inst:funds-{}", funds), spec, ops: vec![op(w0, &lower(0), &s, "valid")] });
        }
        let long = |n: usize| format!("{}{}", "{wallet}", "X".repeat(n - 8));
        let mut templates: Vec<String> = TEMPLATES.iter().map(|s| s.to_string()).collect();
        templates.extend([
            "no placeholder".to_string(),
            "".to_string(),
            "{wallet".to_string(),
            "wallet}".to_string(),
            "{Wallet}".to_string(),
            "{ wallet }".to_string(),
            long(999),
            long(1000),
            long(1001),
            format!("{}{}", "\u{e9}".repeat(496), "{wallet}"), // 1000 bytes, 504 chars
            format!("{}{}", "\u{e9}".repeat(497), "{wallet}"), // 1002 bytes, 505 chars
        ]);
        for t in templates {
            let mut spec = WorldSpec::basic(vec![lower(0)], 1);
            spec.template = t.clone();
            let s = hex::encode(valid_sig(&spec, &k[0], w1));
            cases.push(Case { label: format!("inst:template-{}b", t.len()), spec, ops: vec![op(w1, &lower(0), &s, "valid")] });
        }
        // the list: empty, duplicates, limit extremes
        let mut spec = WorldSpec::basic(vec![], 1);
        cases.push(Case { label: "inst:empty-list".into(), spec: spec.clone(), ops: vec![] });
        spec.list = vec![lower(0), lower(0), lower(1)];
        spec.per_address_limit = u32::MAX;
        let s = hex::encode(valid_sig(&spec, &k[0], w0));
        cases.push(Case { label: "inst:dup-list-limit-max".into(), spec, ops: vec![op(w0, &lower(0), &s, "valid"), op(w0, &lower(0), &s, "valid")] });
    }
    // 2b. the recovery byte: every value (thorough) / the accepted ones, their neighbours and a sample (quick)
    {
        let mut vs: BTreeSet<u8> = BTreeSet::new();
        if thorough {
            vs.extend(0..=255u8);
        } else {
            for l in harvest_literals(&["packages/ethereum-verify/src/decode.rs", "packages/ethereum-verify/src/signature_verify.rs"]) {
                for d in [l.saturating_sub(1), l, l + 1] {
                    if d <= 255 {
                        vs.insert(d as u8);
                    }
                }
            }
            vs.extend([0u8, 1, 2, 3, 4, 26, 27, 28, 29, 30, 31, 34, 35, 36, 37, 38, 127, 128, 155, 156, 254, 255]);
            for _ in 0..8 {
                vs.insert(rng.below(256) as u8);
            }
        }
        for (ki, w, t) in [(0usize, w0, 0usize), (1, w1, 2), (2, w2, 3)] {
            let mut spec = WorldSpec::basic(vec![lower(0), lower(1), lower(2)], 1_000_000);
            spec.template = TEMPLATES[t].into();
            spec.inst_funds = 100_000_000 + 600 * spec.airdrop_amount;
            let base = valid_sig(&spec, &k[ki], w);
            let mut ops = vec![];
            for &v in &vs {
                let mut s = base;
                s[64] = v;
                ops.push(op(w, &lower(ki), &hex::encode(s), &format!("v-{}", if [0, 1, 27, 28].contains(&v) { v.to_string() } else { "other".into() })));
            }
            // the other ECDSA signature of the same message, with both spellings of its recovery id
            let m = malleate(&base);
            ops.push(op(w, &lower(ki), &hex::encode(m), "malleated-twin"));
            let mut m2 = m;
            m2[64] = if m[64] >= 27 { m[64] - 27 } else { m[64] + 27 };
            ops.push(op(w, &lower(ki), &hex::encode(m2), "malleated-twin"));
            cases.push(Case { label: format!("probe:recovery-byte-k{}", ki), spec, ops });
        }
    }
    // 2c. length and encoding of the signature
    {
        let mut spec = WorldSpec::basic(vec![lower(0)], 1_000);
        spec.inst_funds = 100_000_000 + 100 * spec.airdrop_amount;
        let base = valid_sig(&spec, &k[0], w0);
        let h = hex::encode(base);
        let mut ops = vec![];
        let mut lens: BTreeSet<usize> = [0usize, 1, 2, 31, 32, 33, 63, 64, 65, 66, 67, 96, 128, 129, 130].into_iter().collect();
        for l in harvest_literals(&["packages/ethereum-verify/src/decode.rs"]) {
            lens.insert(l as usize);
        }
        for n in lens {
            let mut b = base.to_vec();
            b.resize(n, 27);
            ops.push(op(w0, &lower(0), &hex::encode(&b), &format!("sig-len-{}", if n == 65 { "65".into() } else if n < 65 { "short".to_string() } else { "long".to_string() })));
            if n > 0 && n != 65 {
                // keep v as the last byte
                let mut b2 = base[..64.min(n - 1)].to_vec();
                b2.resize(n - 1, 0);
                b2.push(base[64]);
                ops.push(op(w0, &lower(0), &hex::encode(&b2), "sig-len-v-last"));
            }
        }
        ops.push(op(w0, &lower(0), &h[..129], "sig-odd-hex"));
        ops.push(op(w0, &lower(0), &format!("{}0", h), "sig-odd-hex"));
        ops.push(op(w0, &lower(0), &h.to_uppercase(), "sig-upper-hex"));
        ops.push(op(w0, &lower(0), &format!("0x{}", h), "sig-0x-prefixed"));
        ops.push(op(w0, &lower(0), &format!(" {}", h), "sig-space"));
        ops.push(op(w0, &lower(0), &format!("{}zz", &h[..128]), "sig-nonhex"));
        ops.push(op(w0, &lower(0), &format!("{}\u{e9}", &h[..128]), "sig-nonascii"));
        // r or s out of range / zero
        for (lo, hi, name) in [(0usize, 32usize, "r"), (32, 64, "s")] {
            for fill in [0u8, 0xff] {
                let mut b = base;
                for x in &mut b[lo..hi] {
                    *x = fill;
                }
                ops.push(op(w0, &lower(0), &hex::encode(b), &format!("sig-{}-{}", name, if fill == 0 { "zero" } else { "max" })));
            }
        }
        ops.push(op(w0, &lower(0), &h, "valid"));
        cases.push(Case { label: "probe:signature-shape".into(), spec, ops });
    }
    // 2d. single-bit flips
    {
        let mut spec = WorldSpec::basic(vec![lower(0), lower(1)], 1_000);
        spec.inst_funds = 100_000_000 + 50 * spec.airdrop_amount;
        let base = valid_sig(&spec, &k[1], w1);
        let mut bits: BTreeSet<usize> = BTreeSet::new();
        if thorough {
            bits.extend(0..520);
        } else {
            bits.extend([0usize, 1, 7, 8, 255, 256, 257, 263, 511, 512, 513, 514, 515, 516, 517, 518, 519]);
            while bits.len() < 48 {
                bits.insert(rng.below(520) as usize);
            }
        }
        let mut ops = vec![];
        for b in bits {
            let mut s = base;
            s[b / 8] ^= 0x80 >> (b % 8);
            ops.push(op(w1, &lower(1), &hex::encode(s), if b < 256 { "bitflip-r" } else if b < 512 { "bitflip-s" } else { "bitflip-v" }));
        }
        // flips in the address and in the claimant
        for i in [2usize, 3, 20, 41] {
            let mut a = lower(1).into_bytes();
            a[i] = if a[i] == b'0' { b'1' } else { b'0' };
            ops.push(op(w1, &String::from_utf8(a).unwrap(), &hex::encode(base), "addr-digit-changed"));
        }
        ops.push(op(WALLETS[4], &lower(1), &hex::encode(base), "replay-other-wallet")); // differs in the last character
        ops.push(op(w1, &lower(1), &hex::encode(base), "valid"));
        cases.push(Case { label: "probe:bitflips".into(), spec, ops });
    }
    // 2d'. near-miss digests: the listed key signs what a plausible slip in the personal-sign
    // framing would hash (length in characters / UTF-16 units / off by one / of the template,
    // other renderings of the length, missing or altered prefix, hash-as-message, other text
    // encodings, other hash).  None of them is a personal-sign signature over the claim text;
    // the genuine one stays in the stream (accepted), on ASCII and on 2-, 3- and 4-byte UTF-8 texts.
    for (ti, t) in TEMPLATES.iter().enumerate() {
        let mut spec = WorldSpec::basic(vec![lower(0), lower(1)], 1_000);
        spec.template = t.to_string();
        spec.inst_funds = 100_000_000 + 80 * spec.airdrop_amount;
        let mut ops = vec![];
        let wallets: &[&str] = if thorough { &WALLETS[..3] } else { &WALLETS[..1] };
        for (wi, w) in wallets.iter().enumerate() {
            let ki = wi % 2;
            let text = text_for(&spec, w);
            for (tag, d) in near_miss_digests(&spec.template, &text) {
                ops.push(op(w, &lower(ki), &hex::encode(sign_digest(&k[ki], d)), tag));
            }
            ops.push(op(w, &lower(ki), &hex::encode(valid_sig(&spec, &k[ki], w)), if text.is_ascii() { "valid" } else { "valid-non-ascii-text" }));
            // the genuine digest signed directly is the same thing as personal_sign
            let genuine = ind_keccak(&ind_eth_preimage(&text));
            ops.push(op(w, &lower(ki), &hex::encode(sign_digest(&k[ki], genuine)), if text.is_ascii() { "valid" } else { "valid-non-ascii-text" }));
        }
        cases.push(Case { label: format!("probe:near-miss-digests-template{}", ti), spec, ops });
    }
    // 2e. limit boundary on every template, several addresses interleaved, total-paid accounting
    for (ti, t) in TEMPLATES.iter().enumerate() {
        for limit in [1u32, 2] {
            let mut spec = WorldSpec::basic(vec![lower(0), lower(1), lower(2)], limit);
            spec.template = t.to_string();
            let mut ops = vec![];
            for round in 0..(limit + 1) {
                for (ki, w) in [(0usize, w0), (1, w1), (2, w2)] {
                    let w = if round % 2 == 1 { WALLETS[(ki + 1) % 3] } else { w };
                    ops.push(op(w, &lower(ki), &hex::encode(valid_sig(&spec, &k[ki], w)), if round < limit { "valid" } else { "valid-past-limit" }));
                    // and a replay of that very signature by the next wallet
                    let w_other = WALLETS[(ki + 2) % 3];
                    if w_other != w {
                        ops.push(op(w_other, &lower(ki), &hex::encode(valid_sig(&spec, &k[ki], w)), "replay-other-wallet"));
                    }
                }
            }
            cases.push(Case { label: format!("probe:limit{}-template{}", limit, ti), spec, ops });
        }
    }

    // ---------------- 3. structured random histories (~75 % valid)
    let nhist = if thorough { 400 } else { 40 };
    for h in 0..nhist {
        let limit = rng.below(4) as u32;
        let nelig = rng.range(1, 4) as usize;
        let mut list: Vec<String> = (0..nelig).map(|i| lower(i)).collect();
        if rng.chance(1, 4) {
            list.push(upper_addr(&lower(4)));
        }
        let mut spec = WorldSpec::basic(list.clone(), limit);
        spec.template = rng.pick(TEMPLATES).to_string();
        spec.airdrop_amount = *rng.pick(&[10_000_000u128, 66_000_000, 100_000_000_000_000, 12_345_678]);
        let nops = rng.range(20, 40) as usize;
        // sometimes not quite enough money for everything
        let fundable = rng.range(1, nops as u64) as u128;
        spec.inst_funds = 100_000_000;
        spec.top_up = spec.airdrop_amount * fundable + rng.below(3) as u128 * (spec.airdrop_amount / 2);
        if rng.chance(1, 6) {
            spec.cwl_member_limit = rng.range(1, 3) as u32;
        }
        if rng.chance(1, 5) {
            spec.cwl_initial_members = vec![WALLETS[rng.below(3) as usize].to_string()];
        }
        let mut ops = vec![];
        let mut last: Option<ClaimOp> = None;
        for _ in 0..nops {
            if rng.chance(1, 8) {
                let who = WALLETS[rng.below(WALLETS.len() as u64) as usize].to_string();
                ops.push(match rng.below(6) {
                    0 | 1 | 2 => admin_op(AdminOp::WlRemove(who), "wl-remove-random"),
                    3 => admin_op(AdminOp::WlAdd(who), "wl-add-random"),
                    4 => admin_op(AdminOp::WlAirdropAdmin(false), "wl-airdrop-not-admin"),
                    _ => admin_op(AdminOp::WlAirdropAdmin(true), "wl-airdrop-admin-again"),
                });
                continue;
            }
            let ki = rng.below(5) as usize;
            let w = WALLETS[rng.below(WALLETS.len() as u64) as usize];
            let addr = if ki == 4 { upper_addr(&lower(4)) } else { lower(ki) };
            let sig = valid_sig(&spec, &k[ki], w);
            let o = match rng.below(16) {
                0 => {
                    let w2 = WALLETS[(rng.below(4) as usize + 1 + WALLETS.iter().position(|x| *x == w).unwrap()) % WALLETS.len()];
                    op(w2, &addr, &hex::encode(sig), "replay-other-wallet")
                }
                1 => {
                    let kj = (ki + 1 + rng.below(4) as usize) % 5;
                    op(w, &addr, &hex::encode(valid_sig(&spec, &k[kj], w)), "other-key")
                }
                2 => {
                    let mut s = sig;
                    let b = rng.below(520) as usize;
                    s[b / 8] ^= 0x80 >> (b % 8);
                    op(w, &addr, &hex::encode(s), if b < 256 { "bitflip-r" } else if b < 512 { "bitflip-s" } else { "bitflip-v" })
                }
                4 => {
                    let nm = near_miss_digests(&spec.template, &text_for(&spec, w));
                    let (tag, d) = nm[rng.below(nm.len() as u64) as usize];
                    op(w, &addr, &hex::encode(sign_digest(&k[ki], d)), tag)
                }
                3 => match last.clone() {
                    Some(l) => ClaimOp { tag: "repeat-previous".into(), ..l },
                    None => op(w, &addr, &hex::encode(sig), "valid"),
                },
                _ => {
                    let mut s = sig;
                    if rng.chance(1, 3) {
                        s[64] -= 27;
                    }
                    op(w, &addr, &hex::encode(s), "valid")
                }
            };
            last = Some(o.clone());
            ops.push(o);
        }
        cases.push(Case { label: format!("random:{}", h), spec, ops });
    }

    // ---------------- 4. malformed stream
    {
        let mut spec = WorldSpec::basic(vec![lower(0), "garbage".into(), "0xzz".into()], 3);
        spec.inst_funds = 100_000_000 + 10 * spec.airdrop_amount;
        let good = hex::encode(valid_sig(&spec, &k[0], w0));
        let n = if thorough { 600 } else { 60 };
        let mut ops = vec![];
        let alphabet: Vec<char> = "0123456789abcdefABCDEFxX gz{}\u{e9}".chars().collect();
        for _ in 0..n {
            let rs = |rng: &mut Rng, maxlen: u64| -> String { (0..rng.below(maxlen)).map(|_| *rng.pick(&alphabet)).collect() };
            let addr = match rng.below(4) {
                0 => lower(0),
                1 => "garbage".to_string(),
                2 => "0xzz".to_string(),
                _ => rs(&mut rng, 50),
            };
            let sig = match rng.below(4) {
                0 => good.clone(),
                1 => {
                    let cut = rng.below(131) as usize;
                    good[..cut].to_string()
                }
                2 => (0..130).map(|_| *rng.pick(&alphabet[..16])).collect(),
                _ => rs(&mut rng, 140),
            };
            ops.push(op(w0, &addr, &sig, "malformed"));
        }
        cases.push(Case { label: "malformed-stream".into(), spec, ops });
    }
    cases
}

/// greedy shrink of a history: drop ops while the violation key still shows
fn shrink(case: &Case, key: &str) -> Case {
    let mut cur = case.clone();
    let mut i = 0;
    while i < cur.ops.len() {
        let mut t = cur.clone();
        t.ops.remove(i);
        if run_case(&t, "x").violations.iter().any(|(k, _)| k == key) {
            cur = t;
        } else {
            i += 1;
        }
    }
    cur
}

pub fn run(a: &Args) {
    let out = OutDir::new(&a.out);
    let mut rep = Report { property: "C16".into(), tier: a.tier.clone(), seed: a.seed, ..Default::default() };
    let cases: Vec<Case> = if let Some(p) = &a.replay {
        #[derive(Deserialize)]
        struct ReplayFile {
            case: Case,
        }
        let txt = std::fs::read_to_string(p).expect("replay file");
        let rf: ReplayFile = serde_json::from_str(&txt).expect("replay json");
        vec![rf.case]
    } else {
        gen_cases(a)
    };
    let mut coq_cases = Vec::with_capacity(cases.len());
    let mut all_defs: Vec<Vec<String>> = Vec::with_capacity(cases.len());
    let mut distinct: BTreeSet<(String, String, String, String)> = BTreeSet::new();
    let mut nviol = 0u64;
    let mut seen_keys: BTreeSet<String> = BTreeSet::new();
    for (ci, c) in cases.iter().enumerate() {
        let o = run_case(c, &format!("w{}", ci));
        rep.evaluations += o.steps;
        let world_kind = c.label.split(':').next().unwrap_or("world").to_string();
        rep.bump(&format!("world:{}:{}", world_kind, if o.built { "built" } else { "instantiate-rejected" }));
        for (j, (tag, ok, reached)) in o.step_info.iter().enumerate() {
            rep.bump(&format!("claim:{}:{}", tag, if *ok { "ok" } else { "err" }));
            if *reached {
                let p = &c.ops[j];
                distinct.insert((serde_json::to_string(&c.spec).unwrap(), p.sender.clone(), p.eth_address.clone(), p.eth_sig.clone()));
            }
        }
        for (rv, iv) in &o.crosscheck {
            rep.bump(&format!("verifier-crosscheck:repo-{}:independent-{}", if *rv { "accepts" } else { "rejects" }, if *iv { "accepts" } else { "rejects" }));
        }
        for (key, what) in &o.violations {
            nviol += 1;
            if seen_keys.insert(key.clone()) || nviol <= 5 {
                let small = if a.replay.is_some() { c.clone() } else { shrink(c, key) };
                let body = format!(
                    "{{\n \"property\": \"C16\",\n \"key\": {},\n \"violation\": {},\n \"case\": {}\n}}\n",
                    serde_json::to_string(key).unwrap(),
                    serde_json::to_string(what).unwrap(),
                    serde_json::to_string(&small).unwrap()
                );
                let path = out.write_replay(&format!("C16-{}.json", rep.violations.len() + 1), &body);
                rep.violations.push(Violation { key: key.clone(), what: format!("world {}: {}", c.label, what), replay: path });
            }
        }
        if let Some(s) = o.sample {
            if rep.samples.len() < 3 && (ci % 7 == 0 || a.replay.is_some()) {
                rep.samples.push(s);
            }
        }
        coq_cases.push(o.coq);
        all_defs.push(o.defs);
    }
    rep.distinct_nontrivial = distinct.len() as u64;
    rep.rule = "one evaluation = one ClaimAirdrop executed on the real contracts (or one rejected airdrop instantiate). Worlds: curated corpus, instantiate bounds (amount/fee/template/list), every recovery byte (thorough; accepted values, neighbours, harvested literals and a sample in quick), signature length/encoding shapes, single-bit flips in r/s/v, limit boundaries on every template with interleaved addresses and replays, random histories (~75 % valid), malformed stream. Non-trivial = distinct (world, sender, eth address, signature) whose address string is on the list and whose signature decodes to 65 bytes, i.e. the call reached signature verification.".into();
    // one file per shard, each with the step definitions of its own worlds in the header
    let shards = 6usize.min(coq_cases.len().max(1));
    let total: usize = all_defs.iter().map(|d| d.len() + 1).sum();
    let mut lo = 0usize;
    for sh in 0..shards {
        // balance by number of calls, not by number of worlds
        let mut hi = lo;
        let mut acc = 0usize;
        while hi < coq_cases.len() && (acc < (total + shards - 1) / shards || sh + 1 == shards) {
            acc += all_defs[hi].len() + 1;
            hi += 1;
        }
        if lo >= hi {
            break;
        }
        // one physical line, so that `check` finds a failing case's text by its line number
        let mut header = String::from("From Coq Require Import Uint63. From LP Require Import Airdrop C16Corr. Local Open Scope N_scope. ");
        for d in &all_defs[lo..hi] {
            for l in d {
                header.push_str(l);
                header.push(' ');
            }
        }
        out.write_cases(&format!("C16_{}", sh), header.trim_end(), "c16_case", "c16_check", &coq_cases[lo..hi], 1, &mut rep);
        lo = hi;
    }
    out.finish(&rep);
    println!("C16 harness: {} worlds, {} calls, {} monitor violations", cases.len(), rep.evaluations, nviol);
}
