//! C16 smoke
use crate::w_airdrop::*;
use crate::Args;
pub fn run(a: &Args) {
    let k = eth_key(a.seed, 0);
    let spec = WorldSpec::basic(vec![k.addr_lower.clone()], 1);
    let (b, lenient) = build(&spec); println!("lenient {}", lenient); match b {
        Built::AirdropRejected { err, creator_paid } => println!("rejected: {} paid {}", err, creator_paid),
        Built::Ok(mut w) => {
            let sender = "stars1claimant";
            let text = spec.template.replace("{wallet}", sender);
            let sig = personal_sign(&k, &text);
            println!("addr {} sig {}", k.addr_lower, hex::encode(sig));
            println!("ind valid: {}", ind_valid_personal_sign(&k.addr_lower, &text, &hex::encode(sig)));
            println!("airdrop bal {}", w.airdrop_balance());
            let r = w.claim(sender, &k.addr_lower, &hex::encode(sig));
            println!("claim: {:?}", r.map(|_| ()));
            println!("bal {} {} member {:?} count {:?}", w.balance(sender), w.airdrop_balance(), w.has_member(sender), w.raw_count(&k.addr_lower));
            let r = w.claim(sender, &k.addr_lower, &hex::encode(sig));
            println!("claim2: {:?}", r.map(|_| ()));
        }
    }
}
