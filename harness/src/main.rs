//! lpverif — correspondence harness and property monitors for public-awesome/launchpad.
//! Usage: lpverif <property> --seed N --tier quick|thorough --out DIR [--replay FILE]
mod util;
mod c06;

use std::path::PathBuf;

pub struct Args {
    pub seed: u64,
    pub tier: String,
    pub out: PathBuf,
    pub replay: Option<PathBuf>,
}
impl Args {
    pub fn thorough(&self) -> bool {
        self.tier == "thorough"
    }
}

fn main() {
    let argv: Vec<String> = std::env::args().collect();
    if argv.len() < 2 {
        eprintln!("usage: lpverif <Cxx> --seed N --tier quick|thorough --out DIR [--replay FILE]");
        std::process::exit(2);
    }
    let prop = argv[1].to_uppercase();
    let mut a = Args { seed: 1, tier: "quick".into(), out: PathBuf::from("out"), replay: None };
    let mut i = 2;
    while i < argv.len() {
        match argv[i].as_str() {
            "--seed" => {
                a.seed = argv[i + 1].parse().expect("seed");
                i += 2
            }
            "--tier" => {
                a.tier = argv[i + 1].clone();
                i += 2
            }
            "--out" => {
                a.out = PathBuf::from(&argv[i + 1]);
                i += 2
            }
            "--replay" => {
                a.replay = Some(PathBuf::from(&argv[i + 1]));
                i += 2
            }
            x => {
                eprintln!("unknown argument {}", x);
                std::process::exit(2);
            }
        }
    }
    match prop.as_str() {
        "C06" => c06::run(&a),
        _ => {
            eprintln!("property {} has no harness module", prop);
            std::process::exit(2);
        }
    }
}
