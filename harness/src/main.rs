//! lpverif — correspondence harness and property monitors for public-awesome/launchpad.
//! Usage: lpverif <property> --seed N --tier quick|thorough --out DIR [--replay FILE]
mod util;
mod chain;
mod w_whitelist;
mod w_collection;
mod w_sale;
mod w_factory;
mod w_splits;
mod w_merkle;
mod w_airdrop;
mod w_migrate;
mod oe_world;
mod c01;
mod c02;
mod c03;
mod c04;
mod c05;
mod c06;
mod c07;
mod c08;
mod c09;
mod c10;
mod c11;
mod c12;
mod c13;
mod c14;
mod c15;
mod c16;
mod c17;
mod c18;
mod c19;
mod c20;

use std::path::PathBuf;

pub struct Args {
    pub seed: u64,
    pub tier: String,
    pub out: PathBuf,
    pub replay: Option<PathBuf>,
}
impl Args {
    pub fn thorough(&self) -> bool {
        self.tier == "thorough"
    }
}

fn main() {
    let argv: Vec<String> = std::env::args().collect();
    if argv.len() < 2 {
        eprintln!("usage: lpverif <Cxx> --seed N --tier quick|thorough --out DIR [--replay FILE]");
        std::process::exit(2);
    }
    let prop = argv[1].to_uppercase();
    let mut a = Args { seed: 1, tier: "quick".into(), out: PathBuf::from("out"), replay: None };
    let mut i = 2;
    while i < argv.len() {
        match argv[i].as_str() {
            "--seed" => {
                a.seed = argv[i + 1].parse().expect("seed");
                i += 2
            }
            "--tier" => {
                a.tier = argv[i + 1].clone();
                i += 2
            }
            "--out" => {
                a.out = PathBuf::from(&argv[i + 1]);
                i += 2
            }
            "--replay" => {
                a.replay = Some(PathBuf::from(&argv[i + 1]));
                i += 2
            }
            x => {
                eprintln!("unknown argument {}", x);
                std::process::exit(2);
            }
        }
    }
    match prop.as_str() {
        "C01" => c01::run(&a),
        "C02" => c02::run(&a),
        "C03" => c03::run(&a),
        "C04" => c04::run(&a),
        "C05" => c05::run(&a),
        "C06" => c06::run(&a),
        "C07" => c07::run(&a),
        "C08" => c08::run(&a),
        "C09" => c09::run(&a),
        "C10" => c10::run(&a),
        "C11" => c11::run(&a),
        "C12" => c12::run(&a),
        "C13" => c13::run(&a),
        "C14" => c14::run(&a),
        "C15" => c15::run(&a),
        "C16" => c16::run(&a),
        "C17" => c17::run(&a),
        "C18" => c18::run(&a),
        "C19" => c19::run(&a),
        "C20" => c20::run(&a),
        _ => {
            eprintln!("property {} has no harness module", prop);
            std::process::exit(2);
        }
    }
}
