//! C02 — harness module not built yet.
use crate::Args;
pub fn run(_a: &Args) {
    eprintln!("C02: harness module not built yet");
    std::process::exit(2);
}
