//! C02 — a mint charges exactly the price in force and disburses all of it.
//! Part 1: the six vending minters (w_sale.rs / SaleCorr.v).  Part 2: the three open-edition
//! minters and the base minter (oe_world.rs / SaleOeCorr.v).  Token-merge minter: not covered
//! here (its deposit logic is C17's).
//! Worlds with governance-chosen prices / fee bps / airdrop price, native and IBC factory
//! denom, with and without payment address, optional whitelist with its own price.
//! LEDGER RULE: the price in force, the fee rates and the whitelist schedule are NOT read back
//! from the minter under test: the harness keeps its own ledger of what the principals set
//! (list price at creation + accepted UpdateMintPrice; accepted UpdateDiscountPrice /
//! RemoveDiscountPrice; the attached whitelist's window and price as instantiated; governance's
//! airdrop price and fee rates from creation + sudo) and computes the price in force from the
//! ledger and the clock (`Ledger::price_in_force`).  Monitors judge against that.
//! TIERED whitelists (tiered-whitelist, -flex, -merkletree as the variant allows; 1..3 stages with
//! their own prices, touching or with gaps, before / across / after the public start): the price
//! in force is the price of the EARLIEST stage whose inclusive window [start, end] contains the
//! block time (so the earlier stage still rules at the hand-over instant of touching stages);
//! histories probe T-1 ns / T / T+1 ns of the stage edges with exact payments at every stage's
//! price, the price in force +-1 and the exact one.
//! Histories are generated *adaptively*: before every mint the generator computes the ledger
//! price and sends exact payments for every OTHER price some principal set (list, discount,
//! whitelist, what the minter itself reports if different; sometimes +-1), then the sweep
//! (price-1, price+1, wrong denom, two coins, nothing / a coin at price 0), then the exact one.  The executed op list is the
//! case (so a replay re-runs exactly it).  Monitors (`judge`) evaluate the property text on
//! the bank balances of every tracked account and the supply before/after every step; they
//! share no code with the model.  Every minter step is also printed for the Coq model
//! (handler state, queries, every balance after every step).
//! Recorded finding (DESIGN §8 D6): vending airdrops strand price - fee in the minter; key
//! `C02:vending-airdrop-remainder-stranded` is emitted for exactly that shape and nothing else.
use crate::chain;
use crate::util::*;
use crate::oe_world::*;
use crate::w_sale::*;
use crate::Args;
use serde::{Deserialize, Serialize};
use serde_json::Value;
use std::collections::{BTreeMap, BTreeSet};

const BIG: u128 = 1u128 << 100;
const FUND: u128 = 1u128 << 110;
const KNOWN_KEY: &str = "C02:vending-airdrop-remainder-stranded";

#[derive(Clone, Debug, Serialize, Deserialize)]
pub struct Case {
    pub variant: usize,
    pub ibc: bool,
    pub min_price: u128,
    pub price: u128,
    pub mint_fee_bps: u64,
    pub airdrop_price: u128,
    pub airdrop_fee_bps: u64,
    pub payment_address: bool,
    pub wl: bool,
    pub wl_price: u128,
    /// whitelist window (start, end) in seconds after world creation; the minter starts at 3000
    #[serde(default = "default_wl_window")]
    pub wl_window: (u64, u64),
    /// non-empty = a TIERED whitelist (tiered-whitelist, tiered-whitelist-flex on the flex variants) with
    /// these stages (start, end in seconds after world creation, price) instead of the single window
    #[serde(default)]
    pub wl_stages: Vec<(u64, u64, u128)>,
    /// the whitelist's denom differs from the sale's (legal at creation on the vending family)
    #[serde(default)]
    pub wl_other_denom: bool,
    pub ops: Vec<Op>,
}
fn default_wl_window() -> (u64, u64) {
    (1000, 2000)
}

fn cfg_of(c: &Case) -> SaleCfg {
    let mut cfg = SaleCfg::basic(c.variant);
    cfg.fp.min_price = c.min_price;
    cfg.fp.denom = if c.ibc { IBC.into() } else { NATIVE.into() };
    cfg.fp.mint_fee_bps = c.mint_fee_bps;
    cfg.fp.airdrop_price = c.airdrop_price;
    cfg.fp.airdrop_fee_bps = c.airdrop_fee_bps;
    cfg.num_tokens = 100;
    cfg.pal = 3;
    cfg.price = c.price;
    cfg.start_in_secs = 3000;
    cfg.payment_address = c.payment_address;
    let tiered = !c.wl_stages.is_empty();
    cfg.wl = match (c.wl, VARIANTS[c.variant].flex, tiered) {
        (false, _, _) => WlKind::None,
        (true, true, false) => WlKind::Flex,
        (true, false, false) => WlKind::Plain,
        (true, true, true) => WlKind::TieredFlex,
        (true, false, true) => WlKind::Tiered,
    };
    if tiered {
        cfg.wl_windows = c.wl_stages.iter().map(|s| (s.0, s.1)).collect();
        cfg.wl_stage_prices = c.wl_stages.iter().map(|s| s.2).collect();
    } else {
        cfg.wl_windows = vec![c.wl_window];
    }
    if c.wl_other_denom {
        cfg.wl_denom = Some(if c.ibc { NATIVE.into() } else { IBC.into() });
    }
    cfg.wl_price = c.wl_price;
    cfg.wl_limit = 20;
    cfg.wl_flex_count = 20;
    cfg
}

pub struct CaseResult {
    pub coq: Option<String>,
    pub steps: u64,
    pub ok_mints: u64,
    pub violations: Vec<(String, String, usize)>, // (key, what, index of the op in case.ops)
    pub hist: BTreeMap<String, u64>,
    pub distinct: BTreeSet<String>,
}

fn op_kind(op: &Op) -> &'static str {
    match op {
        Op::At { .. } => "at",
        Op::Mint { .. } => "mint",
        Op::MintM { .. } => "mint_merkle",
        Op::MintTo { .. } => "mint_to",
        Op::MintFor { .. } => "mint_for",
        Op::Purge { .. } => "purge",
        Op::Shuffle { .. } => "shuffle",
        Op::BurnRemaining { .. } => "burn_remaining",
        Op::UpdateMintPrice { .. } => "update_mint_price",
        Op::UpdateStartTime { .. } => "update_start_time",
        Op::UpdateStartTradingTime { .. } => "update_start_trading_time",
        Op::UpdatePerAddressLimit { .. } => "update_per_address_limit",
        Op::SetWhitelist { .. } => "set_whitelist",
        Op::UpdateDiscountPrice { .. } => "update_discount_price",
        Op::RemoveDiscountPrice { .. } => "remove_discount_price",
        Op::SudoParams { .. } => "sudo_params",
        Op::WlAddMember { .. } => "wl_add_member",
        Op::Migrate { .. } => "migrate",
        Op::Burn { .. } => "holder_burn",
        Op::TransferNft { .. } => "holder_transfer",
    }
}

fn amount_of(v: &Value) -> Option<(u128, String)> {
    Some((v.get("amount")?.as_str()?.parse().ok()?, v.get("denom")?.as_str()?.to_string()))
}

/// What the property text needs to know before a mint: the price in force for this kind
/// of mint, the fee rate that applies, and who is the seller.
struct Pre {
    price: u128,
    denom: String,
    bps: u64,
    airdrop: bool,
    kind: &'static str, // public | whitelist | airdrop
    payer: String,
    funds: Vec<(String, u128)>,
}

/// LEDGER RULE (DESIGN §4): what the principals set, kept by the harness from the operations it
/// sent (and saw accepted) -- never read back from the minter under test.  The creator's list
/// price (creation + accepted UpdateMintPrice), the creator's discount (accepted
/// UpdateDiscountPrice / RemoveDiscountPrice), the whitelist the creator attached (its window and
/// price as instantiated), governance's airdrop price and fee rates (creation + sudo).  The price
/// in force for a mint is computed from this and the clock:
///   airdrop (MintTo / MintFor)            -> governance's airdrop coin
///   whitelist attached and active         -> the whitelist's price: plain / flex / merkle kinds are
///                                            active for start <= now < end; tiered kinds have 1..3
///                                            stages with their own price, and the stage in force is
///                                            the EARLIEST stage whose inclusive window [start, end]
///                                            contains now (so at the hand-over instant of touching
///                                            stages the earlier stage still rules)
///   otherwise                             -> the discount if one is set, else the list price
#[derive(Clone, Debug)]
pub struct WlLedger {
    pub tiered: bool,
    /// (start, end, price) in absolute nanoseconds, as instantiated
    pub stages: Vec<(u64, u64, u128)>,
    pub denom: String,
}
impl WlLedger {
    pub fn single(tiered: bool, start: u64, end: u64, price: u128, denom: String) -> Self {
        WlLedger { tiered, stages: vec![(start, end, price)], denom }
    }
    /// (stage index, price) of the stage in force at `now`, by the documented rule
    pub fn active(&self, now: u64) -> Option<(usize, u128)> {
        self.stages
            .iter()
            .enumerate()
            .find(|(_, (s, e, _))| if self.tiered { *s <= now && now <= *e } else { *s <= now && now < *e })
            .map(|(i, st)| (i, st.2))
    }
}
#[derive(Clone, Debug)]
pub struct Ledger {
    pub list_price: u128,
    pub denom: String,
    pub discount: Option<u128>,
    pub wl: Option<WlLedger>,
    pub mint_fee_bps: u64,
    pub airdrop_price: u128,
    pub airdrop_denom: String,
    pub airdrop_fee_bps: u64,
    pub dev: String,
}
impl Ledger {
    pub fn wl_active(&self, now: u64) -> bool {
        self.wl_stage(now).is_some()
    }
    pub fn wl_stage(&self, now: u64) -> Option<(usize, u128)> {
        self.wl.as_ref().and_then(|w| w.active(now))
    }
    pub fn price_in_force(&self, airdrop: bool, now: u64) -> (u128, String) {
        if airdrop {
            return (self.airdrop_price, self.airdrop_denom.clone());
        }
        match (&self.wl, self.wl_stage(now)) {
            (Some(w), Some((_, price))) => (price, w.denom.clone()),
            _ => (self.discount.unwrap_or(self.list_price), self.denom.clone()),
        }
    }
    pub fn bps(&self, airdrop: bool) -> u64 {
        if airdrop {
            self.airdrop_fee_bps
        } else {
            self.mint_fee_bps
        }
    }
    /// the prices of the whitelist's stages that are NOT in force now
    pub fn other_stage_prices(&self, now: u64) -> Vec<(u128, String)> {
        let inforce = self.price_in_force(false, now);
        let mut v: Vec<(u128, String)> = match &self.wl {
            Some(w) => w.stages.iter().map(|st| (st.2, w.denom.clone())).collect(),
            None => vec![],
        };
        v.retain(|c| *c != inforce);
        v.sort();
        v.dedup();
        v
    }
    /// every price some principal set that is NOT the one in force now: the amounts a minter that
    /// reads the wrong source would ask for
    pub fn other_candidates(&self, airdrop: bool, now: u64) -> Vec<(u128, String)> {
        let inforce = self.price_in_force(airdrop, now);
        let mut v: Vec<(u128, String)> = vec![(self.list_price, self.denom.clone())];
        if let Some(d) = self.discount {
            v.push((d, self.denom.clone()));
        }
        if let Some(w) = &self.wl {
            // every stage's price: a minter (or whitelist) that selects the wrong stage would ask for one of them
            for st in &w.stages {
                v.push((st.2, w.denom.clone()));
            }
        }
        v.retain(|c| *c != inforce);
        v.sort();
        v.dedup();
        v
    }
}

type Slots = BTreeMap<(String, String), i128>;

/// how the fee schedule splits the network fee
pub enum Split {
    /// vending family: liquidity DAO 1/5 of the fee rounded up (1/8 on featured variants), launchpad DAO the rest
    Vending { featured: bool },
    /// open edition: developer 1/2 rounded up, then liquidity DAO 1/5 of what is left rounded up, launchpad DAO the rest
    Oe { dev: String },
    /// base minter: the whole amount is fair-burned: half (rounded down) burned, the rest to the fair-burn pool; no seller
    Base,
}

pub struct MintFacts {
    pub vname: String,
    pub kind: &'static str,
    pub airdrop: bool,
    pub payer: String,
    pub funds: Vec<(String, u128)>,
    pub price: u128,
    pub denom: String,
    pub bps: u64,
    pub seller: String,
    pub minter: String,
}

/// The property text evaluated on one SUCCESSFUL mint: exact payment, and every balance moved as
/// documented (payer -price, fee = floor(price*bps/10^4) to the fee recipients, the rest to the
/// seller, minter unchanged, nothing else, supply only by the burned amount).
pub fn judge(f: &MintFacts, split: &Split, actual: &Slots, op_dbg: &str) -> Vec<(String, String)> {
    let mut out = vec![];
    let exact = if f.price == 0 { f.funds.is_empty() } else { f.funds.len() == 1 && f.funds[0].0 == f.denom && f.funds[0].1 == f.price };
    if !exact {
        out.push((
            format!("C02:accepted-inexact-payment:{}", f.kind),
            format!("{}: {} mint succeeded with funds {:?} while the price in force is {} {}", f.vname, f.kind, f.funds, f.price, f.denom),
        ));
    }
    let mut want: Slots = BTreeMap::new();
    let mut add = |a: &str, x: i128| {
        if x != 0 {
            *want.entry((a.to_string(), f.denom.clone())).or_insert(0) += x;
        }
    };
    add(&f.payer, -(f.price as i128));
    let fee: u128;
    let rest: i128;
    match split {
        Split::Vending { featured } => {
            fee = f.price * f.bps as u128 / 10_000;
            let div: u128 = if *featured { 8 } else { 5 };
            let liq = (fee + div - 1) / div;
            add(LIQUIDITY_DAO, liq as i128);
            add(LAUNCHPAD_DAO, (fee - liq) as i128);
            rest = f.price as i128 - fee as i128;
            add(&f.seller, rest);
        }
        Split::Oe { dev } => {
            fee = f.price * f.bps as u128 / 10_000;
            let devp = (fee + 1) / 2;
            let left = fee - devp;
            let liq = (left + 4) / 5;
            add(dev, devp as i128);
            add(LIQUIDITY_DAO, liq as i128);
            add(LAUNCHPAD_DAO, (left - liq) as i128);
            rest = f.price as i128 - fee as i128;
            add(&f.seller, rest);
        }
        Split::Base => {
            fee = f.price;
            rest = 0;
            add("#supply", -((fee / 2) as i128));
            add(chain::FAIRBURN_POOL, (fee - fee / 2) as i128);
        }
    }
    want.retain(|_, v| *v != 0);
    let mut diff: Slots = BTreeMap::new();
    for k in actual.keys().chain(want.keys()) {
        let d = actual.get(k).copied().unwrap_or(0) - want.get(k).copied().unwrap_or(0);
        if d != 0 {
            diff.insert(k.clone(), d);
        }
    }
    if diff.is_empty() {
        return out;
    }
    let slot = |a: &str| (a.to_string(), f.denom.clone());
    // the recorded defect, and nothing else: a VENDING airdrop whose remainder price - fee > 0 stays
    // in the minter instead of reaching the seller; every other slot exactly as documented
    let known = matches!(split, Split::Vending { .. })
        && f.airdrop
        && rest > 0
        && diff.len() == 2
        && diff.get(&slot(&f.minter)) == Some(&rest)
        && diff.get(&slot(&f.seller)) == Some(&(-rest));
    if known {
        out.push((
            KNOWN_KEY.to_string(),
            format!(
                "{}: airdrop at price {} {} with airdrop fee {} bps: payer -{}, fee recipients +{}, seller +0, minter balance +{} (remainder stranded)",
                f.vname, f.price, f.denom, f.bps, f.price, fee, rest
            ),
        ));
        return out;
    }
    let detail = format!(
        "{}: {} mint {} at price {} {} ({} bps, fee {}, seller {}): balance changes {:?}, documented {:?}, difference {:?}",
        f.vname, f.kind, op_dbg, f.price, f.denom, f.bps, fee, f.seller, actual, want, diff
    );
    let moved_supply = diff.keys().any(|k| k.0 == "#supply");
    let sum_accounts: i128 = actual.iter().filter(|(k, _)| k.0 != "#supply").map(|(_, v)| *v).sum();
    let sum_supply: i128 = actual.iter().filter(|(k, _)| k.0 == "#supply").map(|(_, v)| *v).sum();
    let is_fee_rcpt = |a: &str| a == LIQUIDITY_DAO || a == LAUNCHPAD_DAO || a == FOUNDATION || a == chain::FAIRBURN_POOL || matches!(split, Split::Oe { dev } if dev == a);
    let key = if diff.keys().any(|k| k.0 == f.minter) {
        format!("C02:minter-balance-changed:{}", f.kind)
    } else if diff.keys().any(|k| k.0 == f.payer) && f.payer != f.seller {
        format!("C02:payer-charged-wrong-amount:{}", f.kind)
    } else if diff.keys().any(|k| is_fee_rcpt(&k.0)) {
        format!("C02:fee-split-wrong:{}", f.kind)
    } else if diff.keys().any(|k| k.0 == f.seller || k.0 == CREATOR || k.0 == PAYADDR) {
        format!("C02:seller-paid-wrong:{}", f.kind)
    } else if moved_supply || sum_accounts != sum_supply {
        format!("C02:coins-created-or-lost:{}", f.kind)
    } else {
        format!("C02:unexpected-balance-change:{}", f.kind)
    };
    out.push((key, detail));
    out
}

fn deltas(b0: &BTreeMap<(String, String), u128>, b1: &BTreeMap<(String, String), u128>) -> Slots {
    let mut actual: Slots = BTreeMap::new();
    for (k, v1) in b1 {
        let v0 = b0.get(k).copied().unwrap_or(0);
        if *v1 != v0 {
            actual.insert(k.clone(), *v1 as i128 - v0 as i128);
        }
    }
    actual
}

pub struct Driver {
    pub w: SaleWorld,
    pub case: Case,
    vname: &'static str,
    featured: bool,
    seller: String,
    init: String,
    init_bal: String,
    steps: Vec<String>,
    pub res: CaseResult,
    op_index: usize,
    pub ledger: Ledger,
}

impl Driver {
    pub fn new(c: &Case) -> Result<Driver, String> {
        let mut w = SaleWorld::new(cfg_of(c))?;
        // very large prices need very rich payers
        for a in [CREATOR, BUYERS[0], BUYERS[1], BUYERS[2], STRANGER] {
            for d in [NATIVE, IBC] {
                chain::mint_coins(&mut w.app, a, FUND, d);
            }
        }
        for d in [NATIVE, IBC] {
            w.initial_supply.insert(d.to_string(), chain::supply(&w.app, d));
        }
        let init = w.init_state_coq();
        let init_bal = w.balances_coq();
        let v = VARIANTS[c.variant];
        let denom: String = if c.ibc { IBC.into() } else { NATIVE.into() };
        let ledger = Ledger {
            list_price: c.price,
            denom: denom.clone(),
            discount: None,
            wl: if c.wl {
                let wl_denom: String = if c.wl_other_denom { other(&denom).to_string() } else { denom };
                if c.wl_stages.is_empty() {
                    Some(WlLedger::single(false, w.abs_time(c.wl_window.0, 0), w.abs_time(c.wl_window.1, 0), c.wl_price, wl_denom))
                } else {
                    Some(WlLedger { tiered: true, stages: c.wl_stages.iter().map(|s| (w.abs_time(s.0, 0), w.abs_time(s.1, 0), s.2)).collect(), denom: wl_denom })
                }
            } else {
                None
            },
            mint_fee_bps: c.mint_fee_bps,
            airdrop_price: c.airdrop_price,
            airdrop_denom: NATIVE.into(), // the vending factory's airdrop coin is always native
            airdrop_fee_bps: c.airdrop_fee_bps,
            dev: String::new(),
        };
        Ok(Driver {
            ledger,
            w,
            case: Case { ops: vec![], ..c.clone() },
            vname: v.name,
            featured: v.featured,
            seller: if c.payment_address { PAYADDR.into() } else { CREATOR.into() },
            init,
            init_bal,
            steps: vec![],
            res: CaseResult { coq: None, steps: 0, ok_mints: 0, violations: vec![], hist: BTreeMap::new(), distinct: BTreeSet::new() },
            op_index: 0,
        })
    }

    /// price in force from the ledger and the clock
    pub fn price_in_force(&self, airdrop: bool) -> Option<(u128, String)> {
        Some(self.ledger.price_in_force(airdrop, chain::now(&self.w.app)))
    }
    /// what the minter itself reports (used only to aim payments, never to judge)
    pub fn reported_price(&self, airdrop: bool) -> Option<(u128, String)> {
        if airdrop {
            amount_of(&self.w.factory_params()["extension"]["airdrop_mint_price"])
        } else {
            amount_of(&self.w.mint_price_q()?["current_price"])
        }
    }

    fn pre_observe(&self, op: &Op) -> Option<Pre> {
        let (airdrop, payer, funds) = match op {
            Op::Mint { who, funds } => (false, who.clone(), funds.clone()),
            Op::MintTo { who, funds, .. } | Op::MintFor { who, funds, .. } => (true, who.clone(), funds.clone()),
            _ => return None,
        };
        let now = chain::now(&self.w.app);
        let (price, denom) = self.ledger.price_in_force(airdrop, now);
        let bps = self.ledger.bps(airdrop);
        let kind = if airdrop {
            "airdrop"
        } else if self.ledger.wl_active(now) {
            "whitelist"
        } else {
            "public"
        };
        Some(Pre { price, denom, bps, airdrop, kind, payer, funds })
    }

    /// the principals' accepted operations update the ledger
    fn record(&mut self, op: &Op, ok: bool, now: u64) {
        if !ok {
            return;
        }
        match op {
            Op::UpdateMintPrice { price, .. } => self.ledger.list_price = *price,
            Op::UpdateDiscountPrice { price, .. } => self.ledger.discount = Some(*price),
            Op::RemoveDiscountPrice { .. } => self.ledger.discount = None,
            Op::SudoParams { mint_fee_bps, airdrop_price, airdrop_fee_bps, .. } => {
                if let Some(b) = mint_fee_bps {
                    self.ledger.mint_fee_bps = *b;
                }
                if let Some(p) = airdrop_price {
                    self.ledger.airdrop_price = *p;
                }
                if let Some(b) = airdrop_fee_bps {
                    self.ledger.airdrop_fee_bps = *b;
                }
            }
            Op::SetWhitelist { kind, start_in, end_in, price, ibc, .. } => {
                // kinds 1 and 3 are the tiered ones (one stage, inclusive end)
                self.ledger.wl = Some(WlLedger::single(
                    *kind == 1 || *kind >= 3,
                    now + start_in * 1_000_000_000,
                    now + end_in * 1_000_000_000,
                    *price,
                    if *ibc { IBC.into() } else { NATIVE.into() },
                ))
            }
            _ => {}
        }
    }

    fn violation(&mut self, key: &str, what: String) {
        if self.res.violations.len() < 8 {
            self.res.violations.push((key.to_string(), what, self.op_index));
        }
    }

    /// execute one op on the real contracts, evaluate the property text, record the step
    pub fn step(&mut self, op: &Op) -> bool {
        self.case.ops.push(op.clone());
        self.op_index = self.case.ops.len() - 1;
        let pre = self.pre_observe(op);
        let now0 = chain::now(&self.w.app);
        let bal0 = self.w.balances_raw();
        let out = self.w.run(op);
        self.record(op, out.ok, now0);
        if !out.is_minter_step {
            *self.res.hist.entry(format!("{}:{}:{}", self.vname, op_kind(op), if out.ok { "ok" } else { "err" })).or_insert(0) += 1;
            return out.ok;
        }
        let bal1 = self.w.balances_raw();
        self.res.steps += 1;
        let kind = pre.as_ref().map(|p| p.kind).unwrap_or("-");
        *self.res.hist.entry(format!("{}:{}:{}:{}", self.vname, op_kind(op), kind, if out.ok { "ok" } else { "err" })).or_insert(0) += 1;
        if let Some(s) = out.coq {
            self.steps.push(s);
        }
        let is_mint = matches!(op, Op::Mint { .. } | Op::MintTo { .. } | Op::MintFor { .. });
        // actual balance movements of every tracked account and of the supply
        let mut actual: BTreeMap<(String, String), i128> = BTreeMap::new();
        for (k, v1) in &bal1 {
            let v0 = bal0.get(k).copied().unwrap_or(0);
            if *v1 != v0 {
                actual.insert(k.clone(), *v1 as i128 - v0 as i128);
            }
        }
        if !out.ok {
            // Failed calls move no funds (SetWhitelist creates its whitelist outside the call)
            if !matches!(op, Op::SetWhitelist { .. }) {
                if !actual.is_empty() {
                    self.violation("C02:failed-call-moved-funds", format!("{}: {:?} failed but balances moved: {:?}", self.vname, op, actual));
                }
                if let Some(e) = &out.err {
                    if e.starts_with("STATE-CHANGED-ON-FAILURE") {
                        self.violation("C02:failed-call-changed-state", format!("{}: {:?}: {}", self.vname, op, e));
                    }
                }
            }
            return false;
        }
        if !is_mint {
            return true;
        }
        let Some(p) = pre else {
            self.violation("C02:mint-without-price", format!("{}: {:?} succeeded although the price in force could not be determined", self.vname, op));
            return true;
        };
        self.res.ok_mints += 1;
        self.res.distinct.insert(format!("{}|{}|{}|{}|{}|{}|d{}|w{}", self.vname, p.kind, p.price, p.denom, p.bps, self.case.payment_address, self.ledger.discount.is_some(), self.ledger.wl.is_some()));
        let facts = MintFacts {
            vname: self.vname.to_string(),
            kind: p.kind,
            airdrop: p.airdrop,
            payer: p.payer.clone(),
            funds: p.funds.clone(),
            price: p.price,
            denom: p.denom.clone(),
            bps: p.bps,
            seller: self.seller.clone(),
            minter: self.w.minter.to_string(),
        };
        for (k, w) in judge(&facts, &Split::Vending { featured: self.featured }, &actual, &format!("{:?}", op)) {
            self.violation(&k, w);
        }
        true
    }

    pub fn finish(mut self) -> (Case, CaseResult) {
        let coq = case_coq(&mut self.w, &self.init, &self.init_bal, &self.steps);
        self.res.coq = Some(coq);
        (self.case, self.res)
    }
}

pub fn run_case(c: &Case) -> CaseResult {
    match Driver::new(c) {
        Ok(mut d) => {
            for op in &c.ops {
                d.step(op);
            }
            d.finish().1
        }
        Err(_) => {
            let mut res = CaseResult { coq: None, steps: 0, ok_mints: 0, violations: vec![], hist: BTreeMap::new(), distinct: BTreeSet::new() };
            *res.hist.entry(format!("{}:create:err", VARIANTS[c.variant].name)).or_insert(0) += 1;
            res
        }
    }
}

// ---------- payments ----------
fn other(d: &str) -> &'static str {
    if d == NATIVE {
        IBC
    } else {
        NATIVE
    }
}
fn sorted(mut v: Vec<(String, u128)>) -> Vec<(String, u128)> {
    v.sort();
    v
}
fn exact_payment(price: u128, d: &str) -> Vec<(String, u128)> {
    if price == 0 {
        vec![]
    } else {
        vec![(d.to_string(), price)]
    }
}
/// every way of not paying exactly `price d`
fn wrong_payments(price: u128, d: &str) -> Vec<Vec<(String, u128)>> {
    let o = other(d);
    let mut v: Vec<Vec<(String, u128)>> = vec![];
    if price == 0 {
        v.push(vec![(d.to_string(), 1)]); // a coin when the price is 0
        v.push(vec![(o.to_string(), 1)]);
        v.push(sorted(vec![(d.to_string(), 1), (o.to_string(), 1)]));
    } else {
        if price > 1 {
            v.push(vec![(d.to_string(), price - 1)]);
        }
        v.push(vec![(d.to_string(), price + 1)]);
        v.push(vec![(o.to_string(), price)]); // right amount, wrong denom
        v.push(sorted(vec![(d.to_string(), price), (o.to_string(), 1)])); // an extra coin
        v.push(sorted(vec![(d.to_string(), price), (o.to_string(), price)]));
        v.push(vec![]); // nothing when the price is > 0
        v.push(vec![(d.to_string(), price * 2)]);
    }
    v
}

fn bps_pool() -> Vec<u64> {
    vec![0, 1, 3333, 9999, 10000, 1000, 500, 5000]
}

fn price_pool(min: u128, lits: &[u128]) -> Vec<u128> {
    let mut v: Vec<u128> = vec![min, min + 1, 9999, 10000, 10001, 100_000_001, BIG];
    for l in lits {
        for x in [l.saturating_sub(1), *l, l + 1] {
            if x <= BIG {
                v.push(x);
            }
        }
    }
    v.retain(|p| *p >= min);
    v.sort();
    v.dedup();
    v
}

fn literals() -> Vec<u128> {
    let mut l = harvest_literals(&[
        "contracts/minters/vending-minter/src/contract.rs",
        "contracts/minters/vending-minter-featured/src/contract.rs",
        "contracts/minters/vending-minter-wl-flex/src/contract.rs",
        "contracts/minters/vending-minter-wl-flex-featured/src/contract.rs",
        "contracts/minters/vending-minter-merkle-wl/src/contract.rs",
        "contracts/minters/vending-minter-merkle-wl-featured/src/contract.rs",
        "packages/sg1/src/lib.rs",
    ]);
    l.retain(|x| *x <= BIG);
    l
}

// ---------- adaptive generator ----------
/// payments that are exact for a price some principal set but that is NOT in force now (the list
/// price under a discount, the discount during a whitelist, the whitelist price after its end,
/// what the minter itself reports if that differs): each must be rejected
fn aimed_payments(rng: &mut Rng, inforce: &(u128, String), others: &[(u128, String)], reported: Option<(u128, String)>) -> Vec<Vec<(String, u128)>> {
    let exact = exact_payment(inforce.0, &inforce.1);
    let mut cands: Vec<(u128, String)> = others.to_vec();
    if let Some(r) = reported {
        if r != *inforce && !cands.contains(&r) {
            cands.push(r);
        }
    }
    let mut out: Vec<Vec<(String, u128)>> = vec![];
    for (p, d) in cands {
        let mut v = vec![exact_payment(p, &d)];
        if rng.chance(1, 3) {
            v.push(exact_payment(p + 1, &d));
            if p > 1 {
                v.push(exact_payment(p - 1, &d));
            }
        }
        for f in v {
            if f != exact && !out.contains(&f) {
                out.push(f);
            }
        }
    }
    out
}

fn sweep(d: &mut Driver, rng: &mut Rng, airdrop: bool, who: &str, n_wrong: usize, do_exact: bool) {
    let now = chain::now(&d.w.app);
    let (price, dn) = d.ledger.price_in_force(airdrop, now);
    let mk = |d: &Driver, rng: &mut Rng, funds: Vec<(String, u128)>| -> Op {
        if !airdrop {
            Op::Mint { who: who.into(), funds }
        } else if rng.chance(1, 2) {
            Op::MintTo { who: who.into(), recipient: (*rng.pick(&[BUYERS[0], BUYERS[1], STRANGER])).into(), funds }
        } else {
            let pos = d.w.positions();
            let id = if pos.is_empty() || rng.chance(1, 12) { 0 } else { pos[rng.below(pos.len() as u64) as usize].1 };
            Op::MintFor { who: who.into(), token_id: id, recipient: (*rng.pick(&[BUYERS[0], BUYERS[2]])).into(), funds }
        }
    };
    let mut others = d.ledger.other_candidates(airdrop, now);
    if airdrop && !rng.chance(1, 3) {
        others.clear();
    }
    for f in aimed_payments(rng, &(price, dn.clone()), &others, d.reported_price(airdrop)) {
        let op = mk(d, rng, f);
        d.step(&op);
    }
    let wrong = wrong_payments(price, &dn);
    for _ in 0..n_wrong {
        let f = rng.pick(&wrong).clone();
        let op = mk(d, rng, f);
        d.step(&op);
    }
    if do_exact {
        let op = mk(d, rng, exact_payment(price, &dn));
        d.step(&op);
    }
}

fn gen_case(rng: &mut Rng, variant: usize, thorough: bool, lits: &[u128]) -> (Case, CaseResult) {
    let min_price = *rng.pick(&[0u128, 0, 1, 50, 50, 9999, 10000, 100_000_000, BIG - 1]);
    let pool = price_pool(min_price, lits);
    let base: Vec<u128> = vec![min_price, min_price + 1, 9999, 10000, 10001, 100_000_001, BIG].into_iter().filter(|p| *p >= min_price).collect();
    let price = if rng.chance(3, 4) { *rng.pick(&base) } else { *rng.pick(&pool) };
    let wl = rng.chance(2, 5);
    let c = Case {
        variant,
        ibc: rng.chance(1, 3),
        min_price,
        price,
        mint_fee_bps: *rng.pick(&bps_pool()),
        airdrop_price: *rng.pick(&[0u128, 0, 1, 100, 9999, 10001, 100_000_001, BIG]),
        airdrop_fee_bps: *rng.pick(&bps_pool()),
        payment_address: rng.chance(1, 2),
        wl,
        wl_price: *rng.pick(&[0u128, 1, min_price, price.saturating_sub(1).max(1), 60, 10001, BIG]),
        // the whitelist runs before the public start, across it, or long after it
        wl_window: *rng.pick(&[(1000u64, 2000u64), (1000, 2000), (4000, 60_000), (62_000, 100_000)]),
        wl_stages: vec![],
        // a whitelist in the other denom (legal at creation; the minter then charges that denom while it is active)
        wl_other_denom: wl && rng.chance(1, 6),
        ops: vec![],
    };
    let mut d = match Driver::new(&c) {
        Ok(d) => d,
        Err(_) => {
            let r = run_case(&c);
            return (c, r);
        }
    };
    // sometimes pre-fund the minter through the recorded defect (an airdrop whose whole price is
    // stranded), so that a later over-disbursement has something to pay from
    if rng.chance(1, 3) {
        d.step(&Op::SudoParams { min_price: None, mint_fee_bps: None, airdrop_price: Some(*rng.pick(&[100_000_001u128, BIG])), airdrop_fee_bps: Some(0), offset: None, max_pal: None, shuffle_fee: None });
        sweep(&mut d, rng, true, CREATOR, 0, true);
        d.step(&Op::SudoParams { min_price: None, mint_fee_bps: None, airdrop_price: Some(c.airdrop_price), airdrop_fee_bps: Some(c.airdrop_fee_bps), offset: None, max_pal: None, shuffle_fee: None });
    }
    let h13 = 13 * 3600;
    // the public sale starts at 3000; the last two instants fall inside / after the late whitelist windows
    let mut phases: Vec<(u64, &str)> = vec![(500, "pre"), (1500, "early"), (3100, "public"), (3100 + h13, "late")];
    if c.wl && c.wl_window.0 >= 4000 {
        phases.push((65_000, "late2"));
        phases.push((110_000, "late3"));
    }
    let mut t_extra = 0u64;
    let mig_pool = migrate_version_pool();
    for (secs, phase) in phases {
        d.step(&Op::At { secs: secs + t_extra, nanos: rng.below(1000) as i64 });
        let started = secs >= 3000;
        let rounds = if thorough { 3 } else if secs > 3100 + h13 { 1 } else { 2 };
        for _ in 0..rounds {
            // governance moves the fee schedule / airdrop price
            if rng.chance(2, 5) {
                d.step(&Op::SudoParams {
                    min_price: None,
                    mint_fee_bps: if rng.chance(1, 2) { Some(*rng.pick(&bps_pool())) } else { None },
                    airdrop_price: if rng.chance(1, 2) { Some(*rng.pick(&[0u128, 1, 100, 9999, 10001, 100_000_001, BIG])) } else { None },
                    airdrop_fee_bps: if rng.chance(1, 2) { Some(*rng.pick(&bps_pool())) } else { None },
                    offset: None,
                    max_pal: None,
                    shuffle_fee: None,
                });
            }
            // the creator moves the price / discount
            if rng.chance(1, 4) {
                let cur: u128 = d.ledger.list_price;
                let p = if started {
                    if cur > min_price { *rng.pick(&[cur - 1, min_price, min_price + (cur - min_price) / 2]) } else { cur }
                } else {
                    *rng.pick(&pool)
                };
                d.step(&Op::UpdateMintPrice { who: CREATOR.into(), price: p });
            }
            if started && rng.chance(1, 2) {
                let cur: u128 = d.ledger.list_price;
                if d.ledger.discount.is_some() && rng.chance(1, 2) {
                    t_extra += 3700;
                    d.step(&Op::At { secs: secs + t_extra, nanos: 0 });
                    d.step(&Op::RemoveDiscountPrice { who: CREATOR.into() });
                } else {
                    let p = *rng.pick(&[min_price, cur, cur.saturating_sub(1).max(min_price), min_price + (cur - min_price) / 2]);
                    d.step(&Op::UpdateDiscountPrice { who: CREATOR.into(), price: p });
                }
            }
            // now and then the minter is migrated (the price in force and the payout must not move)
            if rng.chance(1, 7) {
                let (who, stored) = gen_migrate_args(rng, &mig_pool);
                d.step(&Op::Migrate { who, stored });
            }
            // a mint of some kind with its payment sweep
            let _ = phase;
            let wl_now = d.ledger.wl_active(chain::now(&d.w.app));
            let airdrop = if started || wl_now { rng.chance(1, 4) } else { rng.chance(4, 5) };
            let who: &str = if airdrop {
                if rng.chance(11, 12) { CREATOR } else { BUYERS[0] }
            } else if wl_now {
                *rng.pick(&[BUYERS[0], BUYERS[1], BUYERS[0], BUYERS[1], STRANGER])
            } else {
                *rng.pick(&[BUYERS[0], BUYERS[1], BUYERS[2], STRANGER, CREATOR])
            };
            let n_wrong = rng.range(1, 3) as usize;
            let do_exact = rng.chance(9, 10);
            sweep(&mut d, rng, airdrop, who, n_wrong, do_exact);
        }
    }
    d.finish()
}

// ---------- tiered whitelists: per-stage prices, probes at every stage edge ----------
/// stage windows in seconds after world creation (the public sale starts at 3000)
fn stage_layouts() -> Vec<Vec<(u64, u64)>> {
    vec![
        vec![(4000, 4200), (4200, 4400), (4500, 4600)], // touching pair (hand-over at 4200), then a gap
        vec![(4000, 4200), (4200, 4400)],               // touching pair
        vec![(4000, 4100), (4200, 4300)],               // gap
        vec![(4000, 4300)],                             // one stage
        vec![(1000, 1200), (1200, 1400), (1400, 1600)], // all touching, before the public start
        vec![(2900, 3100), (3100, 3300)],               // hand-over a while after the public start (3000)
    ]
}
fn stage_edges(stages: &[(u64, u64, u128)]) -> Vec<u64> {
    let mut v: Vec<u64> = stages.iter().flat_map(|s| [s.0, s.1]).collect();
    v.sort();
    v.dedup();
    v
}
fn handover_edges(stages: &[(u64, u64, u128)]) -> Vec<u64> {
    stages.windows(2).filter(|w| w[0].1 == w[1].0).map(|w| w[0].1).collect()
}
/// the edges a history probes: all of them, or the hand-over instants plus a few others
fn probe_edges(rng: &mut Rng, stages: &[(u64, u64, u128)], full: bool) -> Vec<u64> {
    let all = stage_edges(stages);
    if full && all.len() > 3 {
        return all;
    }
    if full {
        return handover_edges(stages);
    }
    let mut v = handover_edges(stages);
    for _ in 0..2 {
        v.push(*rng.pick(&all));
    }
    v.sort();
    v.dedup();
    v
}
fn stage_prices(rng: &mut Rng, n: usize, floor: u128) -> Vec<u128> {
    let p = (*rng.pick(&[1u128, 60, 60, 9999, 100_000_001])).max(floor);
    // neighbours differ by 1 somewhere (so +-1 of one stage's price is another stage's price) and by more elsewhere
    let mut v = vec![p, p + 20, p + 1];
    if rng.chance(1, 2) {
        v.swap(1, 2);
    }
    v.truncate(n);
    v
}

/// at the current instant: exact payments for every other price some principal set (the list price, the
/// discount, EVERY stage's price; now and then +-1), then the price in force -1 / +1, then exact
fn probe_vending(d: &mut Driver, rng: &mut Rng, k: usize) {
    let now = chain::now(&d.w.app);
    let (price, dn) = d.ledger.price_in_force(false, now);
    let who: &str = if d.ledger.wl_active(now) { [BUYERS[0], BUYERS[1]][k % 2] } else { [BUYERS[2], STRANGER, CREATOR][k % 3] };
    // every other stage's price at every probe; the list price / discount as well at every third one
    let others = if k % 3 == 1 { d.ledger.other_candidates(false, now) } else { d.ledger.other_stage_prices(now) };
    let mut pays = aimed_payments(rng, &(price, dn.clone()), &others, d.reported_price(false));
    if price > 1 {
        pays.push(exact_payment(price - 1, &dn));
    }
    pays.push(exact_payment(price + 1, &dn));
    pays.push(exact_payment(price, &dn));
    for f in pays {
        d.step(&Op::Mint { who: who.into(), funds: f });
    }
}
fn probe_oe(d: &mut OeDriver, rng: &mut Rng, k: usize) {
    let now = chain::now(&d.w.app);
    let (price, dn) = d.ledger.price_in_force(false, now);
    let who: &str = if d.ledger.wl_active(now) { [BUYERS[0], BUYERS[1]][k % 2] } else { [BUYERS[2], STRANGER, CREATOR][k % 3] };
    // every other stage's price at every probe; the list price / discount as well at every third one
    let others = if k % 3 == 1 { d.ledger.other_candidates(false, now) } else { d.ledger.other_stage_prices(now) };
    let mut pays = aimed_payments(rng, &(price, dn.clone()), &others, d.reported_price(false));
    if price > 1 {
        pays.push(exact_payment(price - 1, &dn));
    }
    pays.push(exact_payment(price + 1, &dn));
    pays.push(exact_payment(price, &dn));
    for f in pays {
        d.step(&OeOp::Mint { who: who.into(), funds: f });
    }
}

/// a vending world with a tiered whitelist (tiered-whitelist; tiered-whitelist-flex on the flex variants):
/// T-1 ns / T / T+1 ns of the chosen stage edges, a discount in force in the gaps
fn gen_tiered(rng: &mut Rng, variant: usize, full: bool, layout: Option<usize>) -> (Case, CaseResult) {
    let layouts = stage_layouts();
    let lay = &layouts[layout.unwrap_or_else(|| rng.below(layouts.len() as u64) as usize)];
    let prices = stage_prices(rng, lay.len(), 0);
    let stages: Vec<(u64, u64, u128)> = lay.iter().zip(prices.iter()).map(|((s, e), p)| (*s, *e, *p)).collect();
    let price = *rng.pick(&[100u128, 10001, 100_000_001]);
    let c = Case {
        variant,
        ibc: rng.chance(1, 3),
        min_price: 50,
        price,
        mint_fee_bps: *rng.pick(&[1000u64, 3333, 500, 10000, 0]),
        airdrop_price: 0,
        airdrop_fee_bps: 10000,
        payment_address: rng.chance(1, 2),
        wl: true,
        wl_price: stages[0].2,
        wl_window: (stages[0].0, stages[0].1),
        wl_stages: stages.clone(),
        wl_other_denom: !full && rng.chance(1, 5),
        ops: vec![],
    };
    let mut d = match Driver::new(&c) {
        Ok(d) => d,
        Err(_) => {
            let r = run_case(&c);
            return (c, r);
        }
    };
    let mut k = 0usize;
    let mut discounted = false;
    for t in probe_edges(rng, &stages, full) {
        // once the public sale runs (3000) the creator sets a discount: the public price in the gaps
        if !discounted && t > 3000 {
            d.step(&Op::At { secs: 3050, nanos: 0 });
            if full || rng.chance(2, 3) {
                d.step(&Op::UpdateDiscountPrice { who: CREATOR.into(), price: price - 7 });
            }
            discounted = true;
        }
        for nanos in [-1i64, 0, 1] {
            d.step(&Op::At { secs: t, nanos });
            probe_vending(&mut d, rng, k);
            k += 1;
        }
    }
    let last = stages.iter().map(|s| s.1).max().unwrap();
    d.step(&Op::At { secs: last.max(3000) + 100, nanos: 0 });
    probe_vending(&mut d, rng, k);
    d.finish()
}

// ---------- corpus ----------
fn sudo(mint_fee_bps: Option<u64>, airdrop_price: Option<u128>, airdrop_fee_bps: Option<u64>) -> Op {
    Op::SudoParams { min_price: None, mint_fee_bps, airdrop_price, airdrop_fee_bps, offset: None, max_pal: None, shuffle_fee: None }
}
fn base_case(variant: usize) -> Case {
    Case { variant, ibc: false, min_price: 50, price: 100, mint_fee_bps: 1000, airdrop_price: 0, airdrop_fee_bps: 10000, payment_address: false, wl: false, wl_price: 60, wl_window: (1000, 2000), wl_stages: vec![], wl_other_denom: false, ops: vec![] }
}
fn mint(who: &str, funds: Vec<(String, u128)>) -> Op {
    Op::Mint { who: who.into(), funds }
}
fn mint_to(who: &str, funds: Vec<(String, u128)>) -> Op {
    Op::MintTo { who: who.into(), recipient: BUYERS[2].into(), funds }
}
fn n(a: u128) -> Vec<(String, u128)> {
    vec![(NATIVE.to_string(), a)]
}
fn i(a: u128) -> Vec<(String, u128)> {
    vec![(IBC.to_string(), a)]
}

/// curated minimal histories (always first); the first one per variant is the replay of the
/// recorded finding (DESIGN §8 D6)
fn corpus() -> Vec<Case> {
    let mut v = vec![];
    for variant in 0..6 {
        // D6: airdrop price 100, airdrop fee 50 %: payer -100, fee recipients +50, minter 0 -> 50;
        // then a public mint pays out exactly its own price (the stranded 100 stay put)
        v.push(Case {
            ops: vec![
                sudo(None, Some(100), Some(5000)),
                mint_to(CREATOR, n(100)),
                Op::MintFor { who: CREATOR.into(), token_id: 7, recipient: BUYERS[0].into(), funds: n(100) },
                mint_to(CREATOR, n(99)),
                mint_to(CREATOR, vec![]),
                mint_to(BUYERS[0], n(100)),
                Op::At { secs: 3100, nanos: 0 },
                mint(BUYERS[0], n(100)),
                // outside the known class: fee = whole price, price = 0
                sudo(None, Some(100), Some(10000)),
                mint_to(CREATOR, n(100)),
                sudo(None, Some(0), Some(5000)),
                mint_to(CREATOR, vec![]),
                mint_to(CREATOR, n(1)),
            ],
            ..base_case(variant)
        });
        // migrations inside the sale: after a discount, after a price cut, by a stranger; the price
        // in force and the payout of the next mint are what they were
        {
            let mig = |who: &str, stored: Option<(&str, &str)>| Op::Migrate { who: who.into(), stored: stored.map(|(a, b)| (a.to_string(), b.to_string())) };
            v.push(Case {
                payment_address: variant % 2 == 0,
                ops: vec![
                    mint_to(CREATOR, vec![]),
                    mig(CREATOR, Some(("@own", "3.8.9"))),
                    mint_to(CREATOR, vec![]),
                    Op::At { secs: 3100, nanos: 0 },
                    mint(BUYERS[0], n(100)),
                    Op::UpdateDiscountPrice { who: CREATOR.into(), price: 80 },
                    mig(CREATOR, Some(("@own", "3.8.9"))),
                    mint(BUYERS[0], n(100)),
                    mint(BUYERS[0], n(80)),
                    Op::UpdateMintPrice { who: CREATOR.into(), price: 90 },
                    mig(CREATOR, None),
                    mig(STRANGER, Some(("@own", "3.0.0"))),
                    mint(BUYERS[1], n(90)),
                    mint(BUYERS[1], n(80)),
                    mig(CREATOR, Some(("@own", "3.9.0"))),
                    mint(BUYERS[1], n(80)),
                    mig(CREATOR, Some(("@own", "99.0.0"))),
                    mig(CREATOR, Some(("crates.io:something-else", "3.0.0"))),
                    mint_to(CREATOR, vec![]),
                ],
                ..base_case(variant)
            });
        }
        // the payment sweep on a public mint, price 101 (not a multiple of anything), payment address set
        v.push(Case {
            price: 101,
            payment_address: true,
            ops: {
                let mut o = vec![Op::At { secs: 3100, nanos: 0 }];
                for f in wrong_payments(101, NATIVE) {
                    o.push(mint(BUYERS[0], f));
                }
                o.push(mint(BUYERS[0], n(101)));
                o.push(mint(CREATOR, n(101)));
                o
            },
            ..base_case(variant)
        });
        // fee boundaries through governance: fee 0 (0 bps), fee 1 (the DAO share 0 makes the bank reject
        // the whole mint), fee 2, fee = price (10000 bps: the seller gets nothing), fee = price - 1
        v.push(Case {
            price: 10000,
            ops: vec![
                Op::At { secs: 3100, nanos: 0 },
                sudo(Some(0), None, None),
                mint(BUYERS[0], n(10000)),
                sudo(Some(1), None, None),
                mint(BUYERS[0], n(10000)),
                sudo(Some(2), None, None),
                mint(BUYERS[0], n(10000)),
                sudo(Some(10000), None, None),
                mint(BUYERS[0], n(10000)),
                sudo(Some(9999), None, None),
                mint(BUYERS[1], n(10000)),
                sudo(Some(3333), None, None),
                mint(BUYERS[1], n(10000)),
                mint(BUYERS[1], n(9999)),
                mint(BUYERS[1], n(10001)),
                // airdrop fee rate differs from the mint fee rate
                sudo(Some(500), Some(10001), Some(10000)),
                mint_to(CREATOR, n(10001)),
                mint(BUYERS[2], n(10000)),
            ],
            ..base_case(variant)
        });
        // zero price: nothing must be attached; a coin is rejected; a zero coin cannot be attached
        v.push(Case {
            min_price: 0,
            price: 0,
            payment_address: true,
            ops: vec![
                Op::At { secs: 3100, nanos: 0 },
                mint(BUYERS[0], n(1)),
                mint(BUYERS[0], i(1)),
                mint(BUYERS[0], n(0)),
                mint(BUYERS[0], vec![]),
                mint_to(CREATOR, vec![]),
                mint_to(CREATOR, n(1)),
            ],
            ..base_case(variant)
        });
        // price 1 (fee 0 at every rate below 10000; fee 1 at 10000 bps => the mint fails)
        v.push(Case {
            min_price: 1,
            price: 1,
            ops: vec![
                Op::At { secs: 3100, nanos: 0 },
                mint(BUYERS[0], vec![]),
                mint(BUYERS[0], n(2)),
                mint(BUYERS[0], n(1)),
                sudo(Some(10000), None, None),
                mint(BUYERS[0], n(1)),
                sudo(Some(9999), None, None),
                mint(BUYERS[0], n(1)),
            ],
            ..base_case(variant)
        });
        // whitelist price, then public price, then discount, then discount removed
        v.push(Case {
            wl: true,
            wl_price: 60,
            payment_address: variant % 2 == 0,
            ops: vec![
                Op::At { secs: 1500, nanos: 0 },
                mint(BUYERS[0], n(100)),
                mint(BUYERS[0], n(59)),
                mint(BUYERS[0], n(61)),
                mint(BUYERS[0], i(60)),
                mint(BUYERS[0], n(60)),
                mint(STRANGER, n(60)),
                mint(BUYERS[1], n(60)),
                Op::At { secs: 3100, nanos: 0 },
                mint(BUYERS[0], n(60)),
                mint(BUYERS[0], n(100)),
                Op::UpdateDiscountPrice { who: CREATOR.into(), price: 80 },
                mint(BUYERS[1], n(100)),
                mint(BUYERS[1], n(79)),
                mint(BUYERS[1], n(80)),
                Op::At { secs: 3100 + 3700, nanos: 0 },
                Op::RemoveDiscountPrice { who: CREATOR.into() },
                mint(BUYERS[2], n(80)),
                mint(BUYERS[2], n(100)),
                Op::UpdateMintPrice { who: CREATOR.into(), price: 70 },
                mint(BUYERS[2], n(100)),
                mint(BUYERS[2], n(70)),
            ],
            ..base_case(variant)
        });
        // no whitelist at all x discount set / price lowered / discount removed
        v.push(Case {
            payment_address: variant % 2 == 0,
            ops: vec![
                Op::At { secs: 3100, nanos: 0 },
                Op::UpdateDiscountPrice { who: CREATOR.into(), price: 80 },
                mint(BUYERS[0], n(100)),
                mint(BUYERS[0], n(80)),
                Op::UpdateMintPrice { who: CREATOR.into(), price: 90 },
                mint(BUYERS[0], n(90)),
                mint(BUYERS[0], n(80)),
                Op::At { secs: 3100 + 3700, nanos: 0 },
                Op::RemoveDiscountPrice { who: CREATOR.into() },
                mint(BUYERS[1], n(80)),
                mint(BUYERS[1], n(100)),
                mint(BUYERS[1], n(90)),
            ],
            ..base_case(variant)
        });
        // LEDGER histories.  Whitelist configured and ENDED x discount set: every price some principal
        // set other than the one in force (list 100, whitelist 60) must be refused, the discount 80 taken;
        // then the price is lowered under the discount still in force; then the discount is removed
        v.push(Case {
            wl: true,
            wl_price: 60,
            payment_address: variant % 2 == 1,
            ops: vec![
                Op::At { secs: 3100, nanos: 0 },
                Op::UpdateDiscountPrice { who: CREATOR.into(), price: 80 },
                mint(BUYERS[0], n(100)),
                mint(BUYERS[0], n(60)),
                mint(BUYERS[0], n(81)),
                mint(BUYERS[0], n(79)),
                mint(BUYERS[0], n(80)),
                Op::UpdateMintPrice { who: CREATOR.into(), price: 90 },
                mint(BUYERS[1], n(90)),
                mint(BUYERS[1], n(100)),
                mint(BUYERS[1], n(80)),
                Op::At { secs: 3100 + 3700, nanos: 0 },
                Op::RemoveDiscountPrice { who: CREATOR.into() },
                mint(BUYERS[2], n(80)),
                mint(BUYERS[2], n(100)),
                mint(BUYERS[2], n(60)),
                mint(BUYERS[2], n(90)),
            ],
            ..base_case(variant)
        });
        // Whitelist configured but NOT YET STARTED (window long after the public start) x discount;
        // then the whitelist becomes active (its price rules, discount or not); then it ends
        v.push(Case {
            wl: true,
            wl_price: 60,
            wl_window: (62_000, 100_000),
            ops: vec![
                Op::At { secs: 3100, nanos: 0 },
                mint(BUYERS[0], n(60)),
                mint(BUYERS[0], n(100)),
                Op::UpdateDiscountPrice { who: CREATOR.into(), price: 80 },
                mint(BUYERS[0], n(100)),
                mint(BUYERS[0], n(60)),
                mint(BUYERS[0], n(80)),
                Op::At { secs: 65_000, nanos: 0 },
                mint(BUYERS[0], n(80)),
                mint(BUYERS[0], n(100)),
                mint(BUYERS[0], n(61)),
                mint(BUYERS[0], n(60)),
                Op::UpdateDiscountPrice { who: CREATOR.into(), price: 70 },
                mint(BUYERS[1], n(70)),
                mint(BUYERS[1], n(60)),
                Op::At { secs: 101_000, nanos: 0 },
                mint(BUYERS[1], n(60)),
                mint(BUYERS[1], n(100)),
                mint(BUYERS[1], n(70)),
                Op::At { secs: 105_000, nanos: 0 },
                Op::RemoveDiscountPrice { who: CREATOR.into() },
                mint(BUYERS[2], n(70)),
                mint(BUYERS[2], n(100)),
            ],
            ..base_case(variant)
        });
        // free whitelist on a priced sale
        v.push(Case {
            wl: true,
            wl_price: 0,
            ops: vec![
                Op::At { secs: 1500, nanos: 0 },
                mint(BUYERS[0], n(100)),
                mint(BUYERS[0], n(1)),
                mint(BUYERS[0], vec![]),
                Op::At { secs: 3100, nanos: 0 },
                mint(BUYERS[0], vec![]),
                mint(BUYERS[0], n(100)),
            ],
            ..base_case(variant)
        });
        // a minter that holds coins (stranded by the recorded defect): every later mint must still
        // pay out exactly its own price, and a payment in the wrong denom must still be rejected
        v.push(Case {
            payment_address: true,
            ops: vec![
                sudo(None, Some(100_000_001), Some(0)),
                mint_to(CREATOR, n(100_000_001)),
                sudo(None, Some(0), Some(10000)),
                Op::At { secs: 3100, nanos: 0 },
                mint(BUYERS[0], i(100)),
                mint(BUYERS[0], n(101)),
                mint(BUYERS[0], n(99)),
                mint(BUYERS[0], vec![]),
                mint(BUYERS[0], sorted(vec![(NATIVE.to_string(), 100), (IBC.to_string(), 100)])),
                mint(BUYERS[0], n(100)),
                mint_to(CREATOR, i(1)),
                mint_to(CREATOR, vec![]),
                sudo(Some(3333), Some(50), Some(1)),
                mint_to(CREATOR, i(50)),
                mint_to(CREATOR, n(50)),
                mint(BUYERS[1], n(100)),
            ],
            ..base_case(variant)
        });
        // IBC-denominated sale: price and fees in the IBC denom; the airdrop price stays native
        v.push(Case {
            ibc: true,
            price: 10001,
            mint_fee_bps: 3333,
            payment_address: variant % 2 == 1,
            ops: vec![
                Op::At { secs: 3100, nanos: 0 },
                mint(BUYERS[0], n(10001)),
                mint(BUYERS[0], i(10000)),
                mint(BUYERS[0], i(10001)),
                sudo(None, Some(9999), Some(10000)),
                mint_to(CREATOR, i(9999)),
                mint_to(CREATOR, n(9999)),
            ],
            ..base_case(variant)
        });
        // very large price
        v.push(Case {
            min_price: BIG - 1,
            price: BIG,
            mint_fee_bps: 9999,
            ops: vec![
                Op::At { secs: 3100, nanos: 0 },
                mint(BUYERS[0], n(BIG - 1)),
                mint(BUYERS[0], n(BIG + 1)),
                mint(BUYERS[0], n(BIG)),
                sudo(Some(3333), Some(BIG), Some(10000)),
                mint_to(CREATOR, n(BIG)),
                mint(BUYERS[0], n(BIG)),
            ],
            ..base_case(variant)
        });
    }
    v
}

// ---------- shrinking ----------
/// the shortest prefix that still shows the violation, then greedy removal of earlier ops
fn shrink(c: &Case, key: &str, at: usize) -> Case {
    let mut best = Case { ops: c.ops[..=at.min(c.ops.len() - 1)].to_vec(), ..c.clone() };
    let shows = |cand: &Case| run_case(cand).violations.iter().any(|v| v.0 == key);
    if !shows(&best) {
        return c.clone();
    }
    let mut budget = 60;
    let mut k = 0;
    while k + 1 < best.ops.len() && budget > 0 {
        let mut cand = best.clone();
        cand.ops.remove(k);
        budget -= 1;
        if shows(&cand) {
            best = cand;
        } else {
            k += 1;
        }
    }
    best
}

// =====================================================================================
// Part 2: the three open-edition minters and the base minter (oe_world.rs, SaleOeCorr.v).
// Same monitors; the documented split differs (developer share; fair burn on the base
// minter) and the seller is paid on airdrops too, so there is no known class here.
// =====================================================================================
#[derive(Clone, Debug, Serialize, Deserialize)]
pub enum Case2 {
    Oe { cfg: OeCfg, ops: Vec<OeOp> },
    Base { cfg: BaseCfg, ops: Vec<OeOp> },
}

fn new_result() -> CaseResult {
    CaseResult { coq: None, steps: 0, ok_mints: 0, violations: vec![], hist: BTreeMap::new(), distinct: BTreeSet::new() }
}

pub struct OeDriver {
    pub w: OeWorld,
    pub ops: Vec<OeOp>,
    vname: &'static str,
    seller: String,
    init: String,
    init_bal: String,
    steps: Vec<String>,
    pub res: CaseResult,
    pub ledger: Ledger,
    spares: Vec<SpareWl>,
}

impl OeDriver {
    pub fn new(cfg: &OeCfg) -> Result<OeDriver, String> {
        let mut w = OeWorld::new(cfg.clone())?;
        for a in [CREATOR, BUYERS[0], BUYERS[1], BUYERS[2], STRANGER] {
            for d in [NATIVE, IBC] {
                chain::mint_coins(&mut w.app, a, FUND, d);
            }
        }
        for d in [NATIVE, IBC] {
            w.initial_supply.insert(d.to_string(), chain::supply(&w.app, d));
        }
        let init = w.init_state_coq();
        let init_bal = w.balances_coq();
        let vname = OE_VARIANTS[cfg.variant].name;
        let ledger = Ledger {
            list_price: cfg.price,
            denom: cfg.fp.denom.clone(),
            discount: None, // open editions have no discount
            wl: if cfg.wl != OeWl::None {
                let tiered = matches!(cfg.wl, OeWl::Tiered | OeWl::TieredFlex | OeWl::TieredMerkle);
                let stages: Vec<(u64, u64, u128)> = if tiered {
                    cfg.wl_windows.iter().enumerate().map(|(i, (s, e))| (w.abs_time(*s, 0), w.abs_time(*e, 0), cfg.wl_stage_prices.get(i).copied().unwrap_or(cfg.wl_price))).collect()
                } else {
                    vec![(w.abs_time(cfg.wl_windows[0].0, 0), w.abs_time(cfg.wl_windows[0].1, 0), cfg.wl_price)]
                };
                Some(WlLedger { tiered, stages, denom: cfg.fp.denom.clone() })
            } else {
                None
            },
            mint_fee_bps: cfg.fp.mint_fee_bps,
            airdrop_price: cfg.fp.airdrop_price,
            airdrop_denom: cfg.fp.denom.clone(), // the world sets the open-edition airdrop coin in the factory denom
            airdrop_fee_bps: cfg.fp.airdrop_fee_bps,
            dev: cfg.fp.dev.clone(),
        };
        Ok(OeDriver {
            w,
            ops: vec![],
            vname,
            seller: if cfg.payment_address { PAYADDR.into() } else { CREATOR.into() },
            init,
            init_bal,
            steps: vec![],
            res: new_result(),
            ledger,
            spares: cfg.spares.clone(),
        })
    }
    /// what the minter itself reports (used only to aim payments, never to judge)
    pub fn reported_price(&self, airdrop: bool) -> Option<(u128, String)> {
        if airdrop {
            amount_of(&self.w.factory_params()["extension"]["airdrop_mint_price"])
        } else {
            let mp = self.w.app.wrap().query_wasm_smart::<Value>(self.w.minter.clone(), &serde_json::json!({"mint_price": {}})).ok()?;
            amount_of(&mp["current_price"])
        }
    }
    fn record(&mut self, op: &OeOp, ok: bool) {
        if !ok {
            return;
        }
        match op {
            OeOp::UpdateMintPrice { price, .. } => self.ledger.list_price = *price,
            OeOp::SudoParams { mint_fee_bps, airdrop_price, airdrop_fee_bps, dev, .. } => {
                if let Some(b) = mint_fee_bps {
                    self.ledger.mint_fee_bps = *b;
                }
                if let Some(p) = airdrop_price {
                    self.ledger.airdrop_price = *p;
                }
                if let Some(b) = airdrop_fee_bps {
                    self.ledger.airdrop_fee_bps = *b;
                }
                if let Some(d) = dev {
                    self.ledger.dev = d.clone();
                }
            }
            OeOp::SetWhitelist { spare, .. } => {
                if let Some(sp) = self.spares.get(*spare) {
                    let tiered = matches!(OeWl::from_u8(sp.kind), OeWl::Tiered | OeWl::TieredFlex | OeWl::TieredMerkle);
                    self.ledger.wl = Some(WlLedger::single(
                        tiered,
                        self.w.abs_time(sp.start_in, 0),
                        self.w.abs_time(sp.end_in, 0),
                        sp.price,
                        if sp.ibc { IBC.into() } else { NATIVE.into() },
                    ));
                }
            }
            _ => {}
        }
    }
    fn violation(&mut self, key: &str, what: String) {
        if self.res.violations.len() < 8 {
            let at = self.ops.len() - 1;
            self.res.violations.push((key.to_string(), what, at));
        }
    }
    pub fn step(&mut self, op: &OeOp) -> bool {
        self.ops.push(op.clone());
        let mint = match op {
            OeOp::Mint { who, funds } | OeOp::MintM { who, funds, .. } => Some((false, who.clone(), funds.clone())),
            OeOp::MintTo { who, funds, .. } => Some((true, who.clone(), funds.clone())),
            _ => None,
        };
        let now = chain::now(&self.w.app);
        let pre = mint.as_ref().map(|(airdrop, _, _)| {
            let (price, denom) = self.ledger.price_in_force(*airdrop, now);
            let kind = if *airdrop {
                "airdrop"
            } else if self.ledger.wl_active(now) {
                "whitelist"
            } else {
                "public"
            };
            (price, denom, self.ledger.bps(*airdrop), self.ledger.dev.clone(), kind)
        });
        let bal0 = self.w.balances_raw();
        let out = self.w.run(op);
        self.record(op, out.ok);
        if !out.is_minter_step {
            *self.res.hist.entry(format!("{}:{}:{}", self.vname, oe_op_kind(op), if out.ok { "ok" } else { "err" })).or_insert(0) += 1;
            return out.ok;
        }
        let bal1 = self.w.balances_raw();
        self.res.steps += 1;
        let kind = pre.as_ref().map(|p| p.4).unwrap_or("-");
        *self.res.hist.entry(format!("{}:{}:{}:{}", self.vname, oe_op_kind(op), kind, if out.ok { "ok" } else { "err" })).or_insert(0) += 1;
        if let Some(s) = out.coq {
            self.steps.push(s);
        }
        let actual = deltas(&bal0, &bal1);
        if !out.ok {
            if !actual.is_empty() {
                self.violation("C02:failed-call-moved-funds", format!("{}: {:?} failed but balances moved: {:?}", self.vname, op, actual));
            }
            if let Some(e) = &out.err {
                if e.starts_with("STATE-CHANGED-ON-FAILURE") {
                    self.violation("C02:failed-call-changed-state", format!("{}: {:?}: {}", self.vname, op, e));
                }
            }
            return false;
        }
        let Some((airdrop, payer, funds)) = mint else { return true };
        let Some((price, denom, bps, dev, kind)) = pre else {
            self.violation("C02:mint-without-price", format!("{}: {:?} succeeded although the price in force could not be queried", self.vname, op));
            return true;
        };
        self.res.ok_mints += 1;
        self.res.distinct.insert(format!("{}|{}|{}|{}|{}|{}", self.vname, kind, price, denom, bps, self.seller));
        let facts = MintFacts { vname: self.vname.to_string(), kind, airdrop, payer, funds, price, denom, bps, seller: self.seller.clone(), minter: self.w.minter.to_string() };
        for (k, w) in judge(&facts, &Split::Oe { dev }, &actual, &format!("{:?}", op)) {
            self.violation(&k, w);
        }
        true
    }
    pub fn finish(mut self) -> (Vec<OeOp>, CaseResult) {
        // every token the payments bought exists in the collection with the configured metadata
        for what in self.w.metadata_violations() {
            self.violation("C02:oe-token-metadata", what);
        }
        let coq = self.w.case_coq(&self.init, &self.init_bal, &self.steps);
        self.res.coq = Some(coq);
        (self.ops, self.res)
    }
}

pub struct BaseDriver {
    pub w: BaseWorld,
    pub ops: Vec<OeOp>,
    init: String,
    init_bal: String,
    steps: Vec<String>,
    pub res: CaseResult,
    /// ledger: the factory minimum at creation (the base minter's price) and governance's fee rate
    price_at_creation: u128,
    fee_bps: u64,
}
impl BaseDriver {
    pub fn new(cfg: &BaseCfg) -> Result<BaseDriver, String> {
        let mut w = BaseWorld::new(cfg.clone())?;
        for a in [CREATOR, BUYERS[0], STRANGER] {
            chain::mint_coins(&mut w.app, a, FUND, NATIVE);
            chain::mint_coins(&mut w.app, a, FUND, IBC);
        }
        for d in [NATIVE, IBC] {
            w.initial_supply.insert(d.to_string(), chain::supply(&w.app, d));
        }
        let init = w.init_state_coq();
        let init_bal = w.balances_coq();
        Ok(BaseDriver { w, ops: vec![], init, init_bal, steps: vec![], res: new_result(), price_at_creation: cfg.min_price, fee_bps: cfg.mint_fee_bps })
    }
    /// the amount in force, from the ledger: floor(price at creation * governance's mint_fee_bps / 10000) ustars
    pub fn price_in_force(&self) -> u128 {
        self.price_at_creation * self.fee_bps as u128 / 10_000
    }
    /// what the contracts report (to aim payments only)
    pub fn reported_price(&self) -> u128 {
        self.w.config_price() * self.w.fee_bps() as u128 / 10_000
    }
    fn violation(&mut self, key: &str, what: String) {
        if self.res.violations.len() < 8 {
            let at = self.ops.len() - 1;
            self.res.violations.push((key.to_string(), what, at));
        }
    }
    pub fn step(&mut self, op: &OeOp) -> bool {
        self.ops.push(op.clone());
        let price = self.price_in_force();
        let bps = self.fee_bps;
        let bal0 = self.w.balances_raw();
        let out = self.w.run(op);
        if let (true, OeOp::BaseSudoParams { mint_fee_bps: Some(b), .. }) = (out.ok, op) {
            self.fee_bps = *b;
        }
        if !out.is_minter_step {
            *self.res.hist.entry(format!("base-minter:{}:{}", oe_op_kind(op), if out.ok { "ok" } else { "err" })).or_insert(0) += 1;
            return out.ok;
        }
        let bal1 = self.w.balances_raw();
        self.res.steps += 1;
        *self.res.hist.entry(format!("base-minter:{}:{}", oe_op_kind(op), if out.ok { "ok" } else { "err" })).or_insert(0) += 1;
        if let Some(s) = out.coq {
            self.steps.push(s);
        }
        let actual = deltas(&bal0, &bal1);
        if !out.ok {
            if !actual.is_empty() {
                self.violation("C02:failed-call-moved-funds", format!("base-minter: {:?} failed but balances moved: {:?}", op, actual));
            }
            return false;
        }
        if let OeOp::BaseMint { who, funds, .. } = op {
            self.res.ok_mints += 1;
            self.res.distinct.insert(format!("base-minter|{}|{}", price, bps));
            let facts = MintFacts {
                vname: "base-minter".into(),
                kind: "base",
                airdrop: false,
                payer: who.clone(),
                funds: funds.clone(),
                price,
                denom: NATIVE.into(),
                bps,
                seller: who.clone(),
                minter: self.w.minter.to_string(),
            };
            // a base mint is never free: a zero amount in force must make the mint fail
            if price == 0 {
                self.violation("C02:base-mint-at-zero-fee", format!("base-minter: {:?} succeeded although the amount in force is 0", op));
            }
            for (k, w) in judge(&facts, &Split::Base, &actual, &format!("{:?}", op)) {
                self.violation(&k, w);
            }
        }
        true
    }
    pub fn finish(mut self) -> (Vec<OeOp>, CaseResult) {
        let coq = self.w.case_coq(&self.init, &self.init_bal, &self.steps);
        self.res.coq = Some(coq);
        (self.ops, self.res)
    }
}

pub fn run_case2(c: &Case2) -> CaseResult {
    match c {
        Case2::Oe { cfg, ops } => match OeDriver::new(cfg) {
            Ok(mut d) => {
                for op in ops {
                    d.step(op);
                }
                d.finish().1
            }
            Err(_) => {
                let mut r = new_result();
                *r.hist.entry(format!("{}:create:err", OE_VARIANTS[cfg.variant].name)).or_insert(0) += 1;
                r
            }
        },
        Case2::Base { cfg, ops } => match BaseDriver::new(cfg) {
            Ok(mut d) => {
                for op in ops {
                    d.step(op);
                }
                d.finish().1
            }
            Err(_) => {
                let mut r = new_result();
                *r.hist.entry("base-minter:create:err".to_string()).or_insert(0) += 1;
                r
            }
        },
    }
}

fn oe_sudo(mint_fee_bps: Option<u64>, airdrop_price: Option<u128>, airdrop_fee_bps: Option<u64>) -> OeOp {
    OeOp::SudoParams { min_price: None, mint_fee_bps, airdrop_price, airdrop_fee_bps, offset: None, max_pal: None, max_token_limit: None, dev: None }
}

fn oe_sweep(d: &mut OeDriver, rng: &mut Rng, airdrop: bool, who: &str, n_wrong: usize, do_exact: bool) {
    let now = chain::now(&d.w.app);
    let (price, dn) = d.ledger.price_in_force(airdrop, now);
    let mk = |rng: &mut Rng, funds: Vec<(String, u128)>| -> OeOp {
        if airdrop {
            OeOp::MintTo { who: who.into(), recipient: (*rng.pick(&[BUYERS[0], BUYERS[1], STRANGER])).into(), funds }
        } else {
            OeOp::Mint { who: who.into(), funds }
        }
    };
    let mut others = d.ledger.other_candidates(airdrop, now);
    if airdrop && !rng.chance(1, 3) {
        others.clear();
    }
    for f in aimed_payments(rng, &(price, dn.clone()), &others, d.reported_price(airdrop)) {
        let op = mk(rng, f);
        d.step(&op);
    }
    let wrong = wrong_payments(price, &dn);
    for _ in 0..n_wrong {
        let f = rng.pick(&wrong).clone();
        let op = mk(rng, f);
        d.step(&op);
    }
    if do_exact {
        let op = mk(rng, exact_payment(price, &dn));
        d.step(&op);
    }
}

fn oe_cfg(variant: usize) -> OeCfg {
    let v = OE_VARIANTS[variant];
    let mut cfg = OeCfg::basic(variant);
    cfg.fp.max_per_address = 50;
    cfg.fp.max_token_limit = 200;
    cfg.num_tokens = Some(60);
    cfg.end_in_secs = Some(400_000);
    cfg.pal = 20;
    cfg.start_in_secs = 3000;
    cfg.wl_windows = vec![(1000, 2000)];
    cfg.wl_limit = 20;
    cfg.wl_flex_count = 20;
    cfg.wl = OeWl::None;
    let _ = v;
    cfg
}
fn oe_wl_kind(variant: usize) -> OeWl {
    let v = OE_VARIANTS[variant];
    if v.flex {
        OeWl::Flex
    } else if v.merkle {
        OeWl::Merkle
    } else {
        OeWl::Plain
    }
}

fn gen_oe(rng: &mut Rng, variant: usize, thorough: bool, lits: &[u128]) -> (Case2, CaseResult) {
    let mut cfg = oe_cfg(variant);
    let capped = rng.chance(2, 3);
    let min_price = *rng.pick(&[0u128, 1, 50, 50, 9999, 10000, 100_000_000, BIG - 1]);
    let pool = price_pool(min_price, lits);
    let base: Vec<u128> = vec![min_price, min_price + 1, 9999, 10000, 10001, 100_000_001, BIG].into_iter().filter(|p| *p >= min_price).collect();
    let mut price = if rng.chance(3, 4) { *rng.pick(&base) } else { *rng.pick(&pool) };
    let mut airdrop_price = *rng.pick(&[0u128, 1, 40, 100, 9999, 10001, 100_000_001, BIG]);
    if !capped {
        // an uncapped open edition cannot be free
        cfg.num_tokens = None;
        price = price.max(1);
        airdrop_price = airdrop_price.max(1);
    }
    cfg.fp.min_price = min_price;
    cfg.fp.denom = if rng.chance(1, 3) { IBC.into() } else { NATIVE.into() };
    cfg.fp.mint_fee_bps = *rng.pick(&bps_pool());
    cfg.fp.airdrop_price = airdrop_price;
    cfg.fp.airdrop_fee_bps = *rng.pick(&bps_pool());
    cfg.price = price;
    cfg.payment_address = rng.chance(1, 2);
    // NFT metadata mode: on-chain metadata (sg721-metadata-onchain collection) in two of five editions
    cfg.onchain = rng.chance(2, 5);
    let wl = rng.chance(2, 5);
    if wl {
        cfg.wl = oe_wl_kind(variant);
        cfg.wl_price = *rng.pick(&[0u128, 1, min_price, price.saturating_sub(1).max(1), 60, 10001, BIG]);
        // the whitelist runs before the public start, across it, or long after it
        cfg.wl_windows = vec![*rng.pick(&[(1000u64, 2000u64), (1000, 2000), (4000, 60_000), (62_000, 100_000)])];
    }
    let mut d = match OeDriver::new(&cfg) {
        Ok(d) => d,
        Err(_) => {
            let c = Case2::Oe { cfg, ops: vec![] };
            let r = run_case2(&c);
            return (c, r);
        }
    };
    let h13 = 13 * 3600;
    let mut phases: Vec<(u64, &str)> = vec![(500, "pre"), (1500, "early"), (3100, "public"), (3100 + h13, "late")];
    if wl && cfg.wl_windows[0].0 >= 4000 {
        phases.push((65_000, "late2"));
        phases.push((110_000, "late3"));
    }
    let mig_pool = migrate_version_pool();
    for (secs, phase) in phases {
        d.step(&OeOp::At { secs, nanos: rng.below(1000) as i64 });
        let started = secs >= 3000;
        let wl_now = d.ledger.wl_active(chain::now(&d.w.app));
        let _ = phase;
        let rounds = if thorough { 3 } else if secs > 3100 + h13 { 1 } else { 2 };
        for _ in 0..rounds {
            if rng.chance(2, 5) {
                let floor = if capped { 0u128 } else { 1 };
                d.step(&oe_sudo(
                    if rng.chance(1, 2) { Some(*rng.pick(&bps_pool())) } else { None },
                    if rng.chance(1, 2) { Some((*rng.pick(&[0u128, 1, 100, 9999, 10001, 100_000_001, BIG])).max(floor)) } else { None },
                    if rng.chance(1, 2) { Some(*rng.pick(&bps_pool())) } else { None },
                ));
            }
            if rng.chance(1, 4) {
                let cur: u128 = d.ledger.list_price;
                let p = if started {
                    if cur > min_price { *rng.pick(&[cur - 1, min_price, min_price + (cur - min_price) / 2]) } else { cur }
                } else {
                    *rng.pick(&pool)
                };
                d.step(&OeOp::UpdateMintPrice { who: CREATOR.into(), price: p });
            }
            if rng.chance(1, 7) {
                let (who, stored) = gen_migrate_args(rng, &mig_pool);
                d.step(&OeOp::Migrate { who, stored });
            }
            let airdrop = if started || wl_now { rng.chance(1, 3) } else { rng.chance(4, 5) };
            let who: &str = if airdrop {
                if rng.chance(11, 12) { CREATOR } else { BUYERS[0] }
            } else if wl_now {
                *rng.pick(&[BUYERS[0], BUYERS[1], BUYERS[0], BUYERS[1], STRANGER])
            } else {
                *rng.pick(&[BUYERS[0], BUYERS[1], BUYERS[2], STRANGER, CREATOR])
            };
            let n_wrong = rng.range(1, 3) as usize;
            let do_exact = rng.chance(9, 10);
            oe_sweep(&mut d, rng, airdrop, who, n_wrong, do_exact);
        }
    }
    let (ops, r) = d.finish();
    (Case2::Oe { cfg, ops }, r)
}

/// an open-edition world with a tiered whitelist of the kind the variant talks to (tiered-whitelist,
/// tiered-whitelist-flex, tiered-whitelist-merkletree)
fn gen_tiered_oe(rng: &mut Rng, variant: usize, full: bool, layout: Option<usize>) -> (Case2, CaseResult) {
    let layouts = stage_layouts();
    let lay = &layouts[layout.unwrap_or_else(|| rng.below(layouts.len() as u64) as usize)];
    let mut cfg = oe_cfg(variant);
    let v = OE_VARIANTS[variant];
    cfg.wl = if v.flex {
        OeWl::TieredFlex
    } else if v.merkle {
        OeWl::TieredMerkle
    } else {
        OeWl::Tiered
    };
    cfg.fp.min_price = 50;
    cfg.fp.denom = if rng.chance(1, 3) { IBC.into() } else { NATIVE.into() };
    cfg.fp.mint_fee_bps = *rng.pick(&[1000u64, 3333, 500, 10000, 0]);
    cfg.price = *rng.pick(&[100u128, 10001, 100_000_001]);
    cfg.payment_address = rng.chance(1, 2);
    cfg.wl_windows = lay.clone();
    cfg.wl_stage_prices = stage_prices(rng, lay.len(), 0);
    cfg.wl_price = cfg.wl_stage_prices[0];
    let stages: Vec<(u64, u64, u128)> = lay.iter().zip(cfg.wl_stage_prices.iter()).map(|((s, e), p)| (*s, *e, *p)).collect();
    let mut d = match OeDriver::new(&cfg) {
        Ok(d) => d,
        Err(_) => {
            let c = Case2::Oe { cfg, ops: vec![] };
            let r = run_case2(&c);
            return (c, r);
        }
    };
    let mut k = 0usize;
    let mut lowered = false;
    for t in probe_edges(rng, &stages, full) {
        if !lowered && t > 3000 {
            d.step(&OeOp::At { secs: 3050, nanos: 0 });
            if full || rng.chance(2, 3) {
                d.step(&OeOp::UpdateMintPrice { who: CREATOR.into(), price: cfg.price - 7 });
            }
            lowered = true;
        }
        for nanos in [-1i64, 0, 1] {
            d.step(&OeOp::At { secs: t, nanos });
            probe_oe(&mut d, rng, k);
            k += 1;
        }
    }
    let last = stages.iter().map(|s| s.1).max().unwrap();
    d.step(&OeOp::At { secs: last.max(3000) + 100, nanos: 0 });
    probe_oe(&mut d, rng, k);
    let (ops, r) = d.finish();
    (Case2::Oe { cfg, ops }, r)
}

const URI: &str = "ipfs://bafybeigi3bwpvyvsmnbj46ra4hyffcxdeaj6ntfk5jpic5mx27x6ih2qvq/1.json";

fn base_sweep(d: &mut BaseDriver, rng: &mut Rng, who: &str, n_wrong: usize, do_exact: bool) {
    let fee = d.price_in_force();
    let rep = d.reported_price();
    if rep != fee {
        d.step(&OeOp::BaseMint { who: who.into(), uri: URI.into(), funds: exact_payment(rep, NATIVE) });
    }
    let wrong = wrong_payments(fee, NATIVE);
    for _ in 0..n_wrong {
        let f = rng.pick(&wrong).clone();
        d.step(&OeOp::BaseMint { who: who.into(), uri: URI.into(), funds: f });
    }
    if do_exact {
        d.step(&OeOp::BaseMint { who: who.into(), uri: URI.into(), funds: exact_payment(fee, NATIVE) });
    }
}

fn gen_base(rng: &mut Rng, thorough: bool) -> (Case2, CaseResult) {
    let cfg = BaseCfg {
        min_price: *rng.pick(&[0u128, 1, 3, 1000, 9999, 10000, 10001, 100_000_001, BIG]),
        mint_fee_bps: *rng.pick(&bps_pool()),
        ..BaseCfg::default()
    };
    let mut d = match BaseDriver::new(&cfg) {
        Ok(d) => d,
        Err(_) => {
            let c = Case2::Base { cfg, ops: vec![] };
            let r = run_case2(&c);
            return (c, r);
        }
    };
    let rounds = if thorough { 8 } else { 5 };
    for k in 0..rounds {
        d.step(&OeOp::At { secs: 100 + k as u64, nanos: 0 });
        if rng.chance(1, 2) {
            d.step(&OeOp::BaseSudoParams {
                min_price: if rng.chance(1, 3) { Some(*rng.pick(&[1u128, 500, 10001])) } else { None },
                mint_fee_bps: Some(*rng.pick(&[0u64, 1, 2, 3, 20, 3333, 9999, 10000, 1000, 5000])),
            });
        }
        let who = if rng.chance(9, 10) { CREATOR } else { STRANGER };
        let nw = rng.range(1, 3) as usize;
        let ex = rng.chance(9, 10);
        base_sweep(&mut d, rng, who, nw, ex);
    }
    let (ops, r) = d.finish();
    (Case2::Base { cfg, ops }, r)
}

/// curated open-edition / base histories
fn corpus2() -> Vec<Case2> {
    let mut v = vec![];
    let omint = |who: &str, funds: Vec<(String, u128)>| OeOp::Mint { who: who.into(), funds };
    let omint_to = |who: &str, funds: Vec<(String, u128)>| OeOp::MintTo { who: who.into(), recipient: BUYERS[2].into(), funds };
    for variant in 0..3 {
        {
            let omig = |who: &str, stored: Option<(&str, &str)>| OeOp::Migrate { who: who.into(), stored: stored.map(|(a, b)| (a.to_string(), b.to_string())) };
            let cfg = oe_cfg(variant);
            v.push(Case2::Oe {
                cfg,
                ops: vec![
                    omig(CREATOR, Some(("@own", "3.8.9"))),
                    OeOp::At { secs: 3100, nanos: 0 },
                    omint(BUYERS[0], n(100)),
                    OeOp::UpdateMintPrice { who: CREATOR.into(), price: 90 },
                    omig(CREATOR, Some(("@own", "3.9.0"))),
                    omig(STRANGER, None),
                    omint(BUYERS[0], n(100)),
                    omint(BUYERS[0], n(90)),
                    omig(CREATOR, Some(("@own", "99.0.0"))),
                    omint_to(CREATOR, n(40)),
                ],
            });
        }
        // the history that strands coins on the vending family pays the seller here:
        // airdrop price 100, airdrop fee 50 %: developer 25, DAOs 5 + 20, seller 50, minter 0
        let mut cfg = oe_cfg(variant);
        cfg.fp.airdrop_price = 100;
        cfg.fp.airdrop_fee_bps = 5000;
        cfg.payment_address = true;
        cfg.onchain = true;
        v.push(Case2::Oe {
            cfg,
            ops: vec![
                omint_to(CREATOR, n(100)),
                omint_to(CREATOR, n(99)),
                omint_to(CREATOR, n(101)),
                omint_to(CREATOR, i(100)),
                omint_to(CREATOR, vec![]),
                omint_to(BUYERS[0], n(100)),
                OeOp::At { secs: 3100, nanos: 0 },
                omint(BUYERS[0], n(100)),
                omint(BUYERS[0], n(101)),
                omint(BUYERS[0], n(99)),
                omint(BUYERS[0], sorted(vec![(NATIVE.to_string(), 100), (IBC.to_string(), 1)])),
                omint(CREATOR, n(100)),
            ],
        });
        // fee boundaries: 0, 1..3 (a zero DAO share makes the bank reject the mint), 4, = price
        let mut cfg = oe_cfg(variant);
        cfg.price = 10000;
        v.push(Case2::Oe {
            cfg,
            ops: {
                let mut o = vec![OeOp::At { secs: 3100, nanos: 0 }];
                for bps in [0u64, 1, 2, 3, 4, 5, 3333, 9999, 10000] {
                    o.push(oe_sudo(Some(bps), None, None));
                    o.push(omint(BUYERS[(bps % 3) as usize], n(10000)));
                }
                o.push(omint(BUYERS[0], n(9999)));
                o.push(omint(BUYERS[0], n(10001)));
                o
            },
        });
        // whitelist price then public price; zero whitelist price; IBC denom
        let mut cfg = oe_cfg(variant);
        cfg.wl = oe_wl_kind(variant);
        cfg.wl_price = 60;
        cfg.fp.denom = IBC.into();
        cfg.payment_address = variant == 1;
        v.push(Case2::Oe {
            cfg,
            ops: vec![
                OeOp::At { secs: 1500, nanos: 0 },
                omint(BUYERS[0], i(100)),
                omint(BUYERS[0], n(60)),
                omint(BUYERS[0], i(59)),
                omint(BUYERS[0], i(60)),
                omint(STRANGER, i(60)),
                OeOp::At { secs: 3100, nanos: 0 },
                omint(BUYERS[0], i(60)),
                omint(BUYERS[0], n(100)),
                omint(BUYERS[0], i(100)),
                omint_to(CREATOR, n(40)),
                omint_to(CREATOR, i(40)),
            ],
        });
        // LEDGER histories: whitelist not yet started (list price), price lowered after the start, whitelist
        // active (its price; the list price is refused), whitelist ended (the lowered list price again)
        let mut cfg = oe_cfg(variant);
        cfg.wl = oe_wl_kind(variant);
        cfg.wl_price = 60;
        cfg.wl_windows = vec![(62_000, 100_000)];
        cfg.payment_address = variant != 1;
        v.push(Case2::Oe {
            cfg,
            ops: vec![
                OeOp::At { secs: 3100, nanos: 0 },
                omint(BUYERS[0], n(60)),
                omint(BUYERS[0], n(100)),
                OeOp::UpdateMintPrice { who: CREATOR.into(), price: 90 },
                omint(BUYERS[0], n(100)),
                omint(BUYERS[0], n(60)),
                omint(BUYERS[0], n(91)),
                omint(BUYERS[0], n(90)),
                OeOp::At { secs: 65_000, nanos: 0 },
                omint(BUYERS[0], n(90)),
                omint(BUYERS[0], n(100)),
                omint(BUYERS[0], n(59)),
                omint(BUYERS[0], n(60)),
                omint(STRANGER, n(60)),
                OeOp::At { secs: 101_000, nanos: 0 },
                omint(BUYERS[0], n(60)),
                omint(BUYERS[0], n(100)),
                omint(BUYERS[0], n(90)),
            ],
        });
        // free capped edition
        let mut cfg = oe_cfg(variant);
        cfg.fp.min_price = 0;
        cfg.price = 0;
        cfg.fp.airdrop_price = 0;
        v.push(Case2::Oe {
            cfg,
            ops: vec![
                OeOp::At { secs: 3100, nanos: 0 },
                omint(BUYERS[0], n(1)),
                omint(BUYERS[0], vec![]),
                omint_to(CREATOR, n(1)),
                omint_to(CREATOR, vec![]),
            ],
        });
        // very large price
        let mut cfg = oe_cfg(variant);
        cfg.fp.min_price = BIG - 1;
        cfg.price = BIG;
        cfg.fp.mint_fee_bps = 3333;
        cfg.fp.airdrop_price = BIG;
        cfg.fp.airdrop_fee_bps = 9999;
        v.push(Case2::Oe {
            cfg,
            ops: vec![
                OeOp::At { secs: 3100, nanos: 0 },
                omint(BUYERS[0], n(BIG - 1)),
                omint(BUYERS[0], n(BIG)),
                omint_to(CREATOR, n(BIG + 1)),
                omint_to(CREATOR, n(BIG)),
            ],
        });
    }
    // base minter: amounts 0 (never mintable), 1 (burn share 0: rejected), 2, odd, large
    let bm = |funds: Vec<(String, u128)>| OeOp::BaseMint { who: CREATOR.into(), uri: URI.into(), funds };
    let bs = |bps: u64| OeOp::BaseSudoParams { min_price: None, mint_fee_bps: Some(bps) };
    v.push(Case2::Base {
        cfg: BaseCfg { min_price: 10000, mint_fee_bps: 0, ..BaseCfg::default() },
        ops: vec![
            bm(vec![]),
            bm(n(1)),
            bs(1),
            bm(n(1)),
            bm(vec![]),
            bs(2),
            bm(n(1)),
            bm(n(3)),
            bm(i(2)),
            bm(n(2)),
            bs(3),
            bm(n(3)),
            bs(10000),
            bm(n(9999)),
            bm(n(10001)),
            bm(sorted(vec![(NATIVE.to_string(), 10000), (IBC.to_string(), 1)])),
            bm(n(10000)),
            OeOp::BaseMint { who: STRANGER.into(), uri: URI.into(), funds: n(10000) },
            // the factory's minimum moves: the amount in force stays tied to the price stored at creation
            OeOp::BaseSudoParams { min_price: Some(500), mint_fee_bps: Some(5000) },
            bm(n(250)),
            bm(n(5000)),
        ],
    });
    v.push(Case2::Base {
        cfg: BaseCfg { min_price: BIG, mint_fee_bps: 3333, ..BaseCfg::default() },
        ops: vec![bm(n(BIG * 3333 / 10000 - 1)), bm(n(BIG * 3333 / 10000 + 1)), bm(n(BIG * 3333 / 10000))],
    });
    v
}

fn shrink2(c: &Case2, key: &str, at: usize) -> Case2 {
    let with_ops = |ops: Vec<OeOp>| match c {
        Case2::Oe { cfg, .. } => Case2::Oe { cfg: cfg.clone(), ops },
        Case2::Base { cfg, .. } => Case2::Base { cfg: cfg.clone(), ops },
    };
    let all: &Vec<OeOp> = match c {
        Case2::Oe { ops, .. } | Case2::Base { ops, .. } => ops,
    };
    let shows = |ops: &Vec<OeOp>| run_case2(&with_ops(ops.clone())).violations.iter().any(|v| v.0 == key);
    let mut best: Vec<OeOp> = all[..=at.min(all.len() - 1)].to_vec();
    if !shows(&best) {
        return c.clone();
    }
    let mut budget = 60;
    let mut k = 0;
    while k + 1 < best.len() && budget > 0 {
        let mut cand = best.clone();
        cand.remove(k);
        budget -= 1;
        if shows(&cand) {
            best = cand;
        } else {
            k += 1;
        }
    }
    with_ops(best)
}

/// order the cases so that every block of `ceil(n/shards)` cases has about the same text size
/// (write_cases cuts the list into equal counts)
fn balance_shards(coq_cases: &mut Vec<String>, shards: usize) {
    if coq_cases.is_empty() {
        return;
    }
    let per = (coq_cases.len() + shards - 1) / shards;
    let mut order: Vec<usize> = (0..coq_cases.len()).collect();
    order.sort_by_key(|i| std::cmp::Reverse(coq_cases[*i].len()));
    let mut buckets: Vec<(usize, Vec<usize>)> = vec![(0, vec![]); shards];
    for i in order {
        let b = buckets.iter_mut().filter(|b| b.1.len() < per).min_by_key(|b| b.0).unwrap();
        b.0 += coq_cases[i].len();
        b.1.push(i);
    }
    let idx: Vec<usize> = buckets.into_iter().flat_map(|b| b.1).collect();
    let taken: Vec<String> = idx.into_iter().map(|i| std::mem::take(&mut coq_cases[i])).collect();
    *coq_cases = taken;
}

enum AnyCase {
    V(Case),
    O(Case2),
}

pub fn run(a: &Args) {
    let out = OutDir::new(&a.out);
    let mut rep = Report { property: "C02".into(), tier: a.tier.clone(), seed: a.seed, ..Default::default() };
    let mut results: Vec<(AnyCase, CaseResult)> = vec![];
    if let Some(p) = &a.replay {
        #[derive(Deserialize)]
        struct ReplayFile {
            case: Option<Case>,
            case2: Option<Case2>,
        }
        let rf: ReplayFile = serde_json::from_str(&std::fs::read_to_string(p).expect("replay file")).expect("replay json");
        if let Some(c) = rf.case {
            let r = run_case(&c);
            results.push((AnyCase::V(c), r));
        }
        if let Some(c) = rf.case2 {
            let r = run_case2(&c);
            results.push((AnyCase::O(c), r));
        }
    } else {
        let mut rng = Rng::new(a.seed);
        for c in corpus() {
            let r = run_case(&c);
            results.push((AnyCase::V(c), r));
        }
        for c in corpus2() {
            let r = run_case2(&c);
            results.push((AnyCase::O(c), r));
        }
        // curated tiered-whitelist worlds (fixed seed): every edge of the touching-pair-then-gap layout and of the
        // hand-over-after-public-start layout, on every variant
        let mut trng = Rng::new(20_260_214);
        for variant in 0..6 {
            for lay in [0usize, 5] {
                let (c, r) = gen_tiered(&mut trng, variant, true, Some(lay));
                results.push((AnyCase::V(c), r));
            }
        }
        for variant in 0..3 {
            for lay in [0usize, 5] {
                let (c, r) = gen_tiered_oe(&mut trng, variant, true, Some(lay));
                results.push((AnyCase::O(c), r));
            }
        }
        for _ in 0..(if a.thorough() { 30 } else { 1 }) {
            for variant in 0..6 {
                let (c, r) = gen_tiered(&mut rng, variant, false, None);
                results.push((AnyCase::V(c), r));
            }
            for variant in 0..3 {
                let (c, r) = gen_tiered_oe(&mut rng, variant, false, None);
                results.push((AnyCase::O(c), r));
            }
        }
        let lits = literals();
        let per_variant = if a.thorough() { 100 } else { 8 };
        for _ in 0..per_variant {
            for variant in 0..6 {
                let (c, r) = gen_case(&mut rng, variant, a.thorough(), &lits);
                results.push((AnyCase::V(c), r));
            }
        }
        let per_oe = if a.thorough() { 80 } else { 6 };
        for _ in 0..per_oe {
            for variant in 0..3 {
                let (c, r) = gen_oe(&mut rng, variant, a.thorough(), &lits);
                results.push((AnyCase::O(c), r));
            }
        }
        for _ in 0..(if a.thorough() { 80 } else { 8 }) {
            let (c, r) = gen_base(&mut rng, a.thorough());
            results.push((AnyCase::O(c), r));
        }
    }
    let mut coq_cases = vec![];
    let mut coq_cases2 = vec![];
    let mut nviol = 0;
    let mut distinct: BTreeSet<String> = BTreeSet::new();
    let mut seen_keys: BTreeMap<String, u32> = BTreeMap::new();
    let ncases = results.len();
    for (idx, (c, r)) in results.into_iter().enumerate() {
        rep.evaluations += r.steps;
        for (k, v) in &r.hist {
            *rep.histogram.entry(k.clone()).or_insert(0) += v;
        }
        distinct.extend(r.distinct.iter().cloned());
        for (key, what, at) in r.violations.iter() {
            let seen = seen_keys.entry(key.clone()).or_insert(0);
            *seen += 1;
            // one replay for the recorded finding, up to three per key for anything else
            if *seen > if key == KNOWN_KEY { 1 } else { 3 } || nviol >= 20 {
                continue;
            }
            nviol += 1;
            let case_json = match &c {
                AnyCase::V(c) => {
                    let small = if a.replay.is_some() { c.clone() } else { shrink(c, key, *at) };
                    format!("\"case\": {}", serde_json::to_string(&small).unwrap())
                }
                AnyCase::O(c) => {
                    let small = if a.replay.is_some() { c.clone() } else { shrink2(c, key, *at) };
                    format!("\"case2\": {}", serde_json::to_string(&small).unwrap())
                }
            };
            let body = format!(
                "{{\n \"property\": \"C02\",\n \"key\": {},\n {},\n \"violation\": {}\n}}\n",
                serde_json::to_string(key).unwrap(),
                case_json,
                serde_json::to_string(what).unwrap()
            );
            let path = out.write_replay(&format!("C02-{}.json", nviol), &body);
            rep.violations.push(Violation { key: key.clone(), what: what.clone(), replay: path });
        }
        if rep.samples.len() < 3 && (idx % 61 == 7 || a.replay.is_some()) {
            match &c {
                AnyCase::V(c) => rep.samples.push(serde_json::json!({"variant": VARIANTS[c.variant].name, "ibc": c.ibc, "price": c.price.to_string(),
                    "mint_fee_bps": c.mint_fee_bps, "airdrop_price": c.airdrop_price.to_string(), "airdrop_fee_bps": c.airdrop_fee_bps,
                    "payment_address": c.payment_address, "whitelist": c.wl,
                    "first_ops": c.ops.iter().take(8).map(|o| format!("{:?}", o)).collect::<Vec<_>>(), "steps": r.steps, "ok_mints": r.ok_mints})),
                AnyCase::O(Case2::Oe { cfg, ops }) => rep.samples.push(serde_json::json!({"variant": OE_VARIANTS[cfg.variant].name, "denom": cfg.fp.denom,
                    "price": cfg.price.to_string(), "mint_fee_bps": cfg.fp.mint_fee_bps, "airdrop_price": cfg.fp.airdrop_price.to_string(),
                    "airdrop_fee_bps": cfg.fp.airdrop_fee_bps, "payment_address": cfg.payment_address, "num_tokens": cfg.num_tokens,
                    "first_ops": ops.iter().take(8).map(|o| format!("{:?}", o)).collect::<Vec<_>>(), "steps": r.steps, "ok_mints": r.ok_mints})),
                AnyCase::O(Case2::Base { cfg, ops }) => rep.samples.push(serde_json::json!({"variant": "base-minter", "min_price": cfg.min_price.to_string(),
                    "mint_fee_bps": cfg.mint_fee_bps,
                    "first_ops": ops.iter().take(8).map(|o| format!("{:?}", o)).collect::<Vec<_>>(), "steps": r.steps, "ok_mints": r.ok_mints})),
            }
        }
        if let Some(cq) = r.coq {
            match &c {
                AnyCase::V(_) => coq_cases.push(cq),
                AnyCase::O(_) => coq_cases2.push(cq),
            }
        }
    }
    balance_shards(&mut coq_cases, 6);
    balance_shards(&mut coq_cases2, 3);
    rep.distinct_nontrivial = distinct.len() as u64;
    rep.rule = "sale worlds on each of the six vending minters, the three open-edition minters and the base minter, created through their factories with governance-chosen price / mint fee bps / airdrop price / airdrop fee bps (moved by sudo during the history), native or IBC denom, with/without payment address, optional whitelist with its own price and a window before / across / long after the public start, or a TIERED whitelist (1-3 stages with their own prices, touching or with gaps; price in force = the earliest stage whose inclusive window contains the block time; probes at T-1ns/T/T+1ns of the stage edges with payments at every stage's price and +-1), discount set/removed and price lowered after the start (vending), capped/uncapped (open edition); the price in force comes from the harness's own ledger of the principals' accepted operations and the clock (never from the minter's MintPrice answer); before every mint exact payments for every other candidate price (list, discount, whitelist, minter-reported) are sent, then the sweep price-1, price+1, wrong denom, two coins, nothing (a coin at price 0), exact is sent; evaluations = minter steps executed on the real contracts; distinct_nontrivial = distinct (variant, mint kind, price, denom, fee bps, seller) among SUCCESSFUL mints".into();
    if !coq_cases.is_empty() {
        out.write_cases("C02", "From LP Require Import Num Pay Sg1 Bank MinterVending SaleCorr.", "scase", "sale_check", &coq_cases, 6, &mut rep);
    }
    if !coq_cases2.is_empty() {
        out.write_cases("C02oe", "From LP Require Import Num Pay Sg1 Bank MinterVending MinterOpen SaleOeCorr.", "oecase", "sale_oe_check", &coq_cases2, 3, &mut rep);
    }
    rep.notes.push("observation (not a C02 clause, not flagged): the vending and open-edition MintPrice queries build airdrop_price = coin(factory airdrop amount, CONFIG mint denom) while the handler charges the factory's airdrop coin in its own denom (vending factory: always ustars); on an IBC-denominated vending minter the query therefore shows e.g. `9999 ibc/..` while MintTo only accepts `9999 ustars`. The monitors take the airdrop price in force (amount and denom) from the factory parameters.".into());
    rep.notes.push("token-merge minter: not covered by C02's model (deposit logic belongs to C17); by reading, its airdrop path shares the vending airdrop-remainder behaviour".into());
    out.finish(&rep);
    println!("C02 harness: {} cases, {} steps, {} monitor violations reported", ncases, rep.evaluations, nviol);
}
