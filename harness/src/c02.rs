//! C02 — a mint charges exactly the price in force and disburses all of it (vending family).
//! Worlds with governance-chosen prices / fee bps / airdrop price, native and IBC factory
//! denom, with and without payment address, optional whitelist with its own price, on all
//! six vending minters.  Histories are generated *adaptively*: before every mint the
//! generator asks the real contracts for the price in force and then sends the payment
//! sweep (price-1, price+1, wrong denom, two coins, nothing / a coin at price 0, exact).
//! The executed op list is the case (so a replay re-runs exactly it).  Monitors evaluate
//! the property text on bank balances before/after every step; every minter step is also
//! printed for the Coq model (corr/SaleCorr.v: handler state, queries, every balance).
use crate::chain;
use crate::util::*;
use crate::w_sale::*;
use crate::Args;
use serde::{Deserialize, Serialize};
use serde_json::Value;
use std::collections::{BTreeMap, BTreeSet};

const BIG: u128 = 1u128 << 100;
const FUND: u128 = 1u128 << 110;
const KNOWN_KEY: &str = "C02:vending-airdrop-remainder-stranded";

#[derive(Clone, Debug, Serialize, Deserialize)]
pub struct Case {
    pub variant: usize,
    pub ibc: bool,
    pub min_price: u128,
    pub price: u128,
    pub mint_fee_bps: u64,
    pub airdrop_price: u128,
    pub airdrop_fee_bps: u64,
    pub payment_address: bool,
    pub wl: bool,
    pub wl_price: u128,
    pub ops: Vec<Op>,
}

fn cfg_of(c: &Case) -> SaleCfg {
    let mut cfg = SaleCfg::basic(c.variant);
    cfg.fp.min_price = c.min_price;
    cfg.fp.denom = if c.ibc { IBC.into() } else { NATIVE.into() };
    cfg.fp.mint_fee_bps = c.mint_fee_bps;
    cfg.fp.airdrop_price = c.airdrop_price;
    cfg.fp.airdrop_fee_bps = c.airdrop_fee_bps;
    cfg.num_tokens = 100;
    cfg.pal = 3;
    cfg.price = c.price;
    cfg.start_in_secs = 3000;
    cfg.payment_address = c.payment_address;
    cfg.wl = if !c.wl {
        WlKind::None
    } else if VARIANTS[c.variant].flex {
        WlKind::Flex
    } else {
        WlKind::Plain
    };
    cfg.wl_windows = vec![(1000, 2000)];
    cfg.wl_price = c.wl_price;
    cfg.wl_limit = 20;
    cfg.wl_flex_count = 20;
    cfg
}

pub struct CaseResult {
    pub coq: Option<String>,
    pub steps: u64,
    pub ok_mints: u64,
    pub violations: Vec<(String, String, usize)>, // (key, what, index of the op in case.ops)
    pub hist: BTreeMap<String, u64>,
    pub distinct: BTreeSet<String>,
}

fn op_kind(op: &Op) -> &'static str {
    match op {
        Op::At { .. } => "at",
        Op::Mint { .. } => "mint",
        Op::MintM { .. } => "mint_merkle",
        Op::MintTo { .. } => "mint_to",
        Op::MintFor { .. } => "mint_for",
        Op::Purge { .. } => "purge",
        Op::Shuffle { .. } => "shuffle",
        Op::BurnRemaining { .. } => "burn_remaining",
        Op::UpdateMintPrice { .. } => "update_mint_price",
        Op::UpdateStartTime { .. } => "update_start_time",
        Op::UpdateStartTradingTime { .. } => "update_start_trading_time",
        Op::UpdatePerAddressLimit { .. } => "update_per_address_limit",
        Op::SetWhitelist { .. } => "set_whitelist",
        Op::UpdateDiscountPrice { .. } => "update_discount_price",
        Op::RemoveDiscountPrice { .. } => "remove_discount_price",
        Op::SudoParams { .. } => "sudo_params",
        Op::WlAddMember { .. } => "wl_add_member",
    }
}

fn amount_of(v: &Value) -> Option<(u128, String)> {
    Some((v.get("amount")?.as_str()?.parse().ok()?, v.get("denom")?.as_str()?.to_string()))
}

/// What the property text needs to know before a mint: the price in force for this kind
/// of mint, the fee rate that applies, and who is the seller.
struct Pre {
    price: u128,
    denom: String,
    bps: u64,
    airdrop: bool,
    kind: &'static str, // public | whitelist | airdrop
    payer: String,
    funds: Vec<(String, u128)>,
}

pub struct Driver {
    pub w: SaleWorld,
    pub case: Case,
    vname: &'static str,
    featured: bool,
    seller: String,
    init: String,
    init_bal: String,
    steps: Vec<String>,
    pub res: CaseResult,
    op_index: usize,
}

impl Driver {
    pub fn new(c: &Case) -> Result<Driver, String> {
        let mut w = SaleWorld::new(cfg_of(c))?;
        // very large prices need very rich payers
        for a in [CREATOR, BUYERS[0], BUYERS[1], BUYERS[2], STRANGER] {
            for d in [NATIVE, IBC] {
                chain::mint_coins(&mut w.app, a, FUND, d);
            }
        }
        for d in [NATIVE, IBC] {
            w.initial_supply.insert(d.to_string(), chain::supply(&w.app, d));
        }
        let init = w.init_state_coq();
        let init_bal = w.balances_coq();
        let v = VARIANTS[c.variant];
        Ok(Driver {
            w,
            case: Case { ops: vec![], ..c.clone() },
            vname: v.name,
            featured: v.featured,
            seller: if c.payment_address { PAYADDR.into() } else { CREATOR.into() },
            init,
            init_bal,
            steps: vec![],
            res: CaseResult { coq: None, steps: 0, ok_mints: 0, violations: vec![], hist: BTreeMap::new(), distinct: BTreeSet::new() },
            op_index: 0,
        })
    }

    /// price in force as the contracts report it right now (MintPrice query for public /
    /// whitelist mints; the factory's airdrop coin for MintTo / MintFor)
    pub fn price_in_force(&self, airdrop: bool) -> Option<(u128, String)> {
        if airdrop {
            let p = self.w.factory_params();
            amount_of(&p["extension"]["airdrop_mint_price"])
        } else {
            let mp = self.w.mint_price_q()?;
            amount_of(&mp["current_price"])
        }
    }

    fn whitelist_active(&self) -> bool {
        let c = self.w.minter_config();
        match c["whitelist"].as_str() {
            Some(a) => self
                .w
                .app
                .wrap()
                .query_wasm_smart::<Value>(a.to_string(), &serde_json::json!({"config": {}}))
                .ok()
                .and_then(|v| v["is_active"].as_bool())
                .unwrap_or(false),
            None => false,
        }
    }

    fn pre_observe(&self, op: &Op) -> Option<Pre> {
        let (airdrop, payer, funds) = match op {
            Op::Mint { who, funds } => (false, who.clone(), funds.clone()),
            Op::MintTo { who, funds, .. } | Op::MintFor { who, funds, .. } => (true, who.clone(), funds.clone()),
            _ => return None,
        };
        let (price, denom) = self.price_in_force(airdrop)?;
        let fp = self.w.factory_params();
        let bps = if airdrop { fp["extension"]["airdrop_mint_fee_bps"].as_u64()? } else { fp["mint_fee_bps"].as_u64()? };
        let kind = if airdrop {
            "airdrop"
        } else if self.whitelist_active() {
            "whitelist"
        } else {
            "public"
        };
        Some(Pre { price, denom, bps, airdrop, kind, payer, funds })
    }

    fn violation(&mut self, key: &str, what: String) {
        if self.res.violations.len() < 8 {
            self.res.violations.push((key.to_string(), what, self.op_index));
        }
    }

    /// execute one op on the real contracts, evaluate the property text, record the step
    pub fn step(&mut self, op: &Op) -> bool {
        self.case.ops.push(op.clone());
        self.op_index = self.case.ops.len() - 1;
        let pre = self.pre_observe(op);
        let bal0 = self.w.balances_raw();
        let out = self.w.run(op);
        if !out.is_minter_step {
            *self.res.hist.entry(format!("{}:{}:{}", self.vname, op_kind(op), if out.ok { "ok" } else { "err" })).or_insert(0) += 1;
            return out.ok;
        }
        let bal1 = self.w.balances_raw();
        self.res.steps += 1;
        let kind = pre.as_ref().map(|p| p.kind).unwrap_or("-");
        *self.res.hist.entry(format!("{}:{}:{}:{}", self.vname, op_kind(op), kind, if out.ok { "ok" } else { "err" })).or_insert(0) += 1;
        if let Some(s) = out.coq {
            self.steps.push(s);
        }
        let is_mint = matches!(op, Op::Mint { .. } | Op::MintTo { .. } | Op::MintFor { .. });
        // actual balance movements of every tracked account and of the supply
        let mut actual: BTreeMap<(String, String), i128> = BTreeMap::new();
        for (k, v1) in &bal1 {
            let v0 = bal0.get(k).copied().unwrap_or(0);
            if *v1 != v0 {
                actual.insert(k.clone(), *v1 as i128 - v0 as i128);
            }
        }
        if !out.ok {
            // Failed calls move no funds (SetWhitelist creates its whitelist outside the call)
            if !matches!(op, Op::SetWhitelist { .. }) {
                if !actual.is_empty() {
                    self.violation("C02:failed-call-moved-funds", format!("{}: {:?} failed but balances moved: {:?}", self.vname, op, actual));
                }
                if let Some(e) = &out.err {
                    if e.starts_with("STATE-CHANGED-ON-FAILURE") {
                        self.violation("C02:failed-call-changed-state", format!("{}: {:?}: {}", self.vname, op, e));
                    }
                }
            }
            return false;
        }
        if !is_mint {
            return true;
        }
        let Some(p) = pre else {
            self.violation("C02:mint-without-price", format!("{}: {:?} succeeded although the price in force could not be queried", self.vname, op));
            return true;
        };
        self.res.ok_mints += 1;
        self.res.distinct.insert(format!("{}|{}|{}|{}|{}|{}", self.vname, p.kind, p.price, p.denom, p.bps, self.case.payment_address));
        // --- succeeds only if exactly the price in force was attached ---
        let exact = if p.price == 0 { p.funds.is_empty() } else { p.funds.len() == 1 && p.funds[0].0 == p.denom && p.funds[0].1 == p.price };
        if !exact {
            self.violation(
                &format!("C02:accepted-inexact-payment:{}", p.kind),
                format!("{}: {} mint succeeded with funds {:?} while the price in force is {} {}", self.vname, p.kind, p.funds, p.price, p.denom),
            );
        }
        // --- expected movements, from the property text ---
        let fee: u128 = p.price * p.bps as u128 / 10_000;
        let div: u128 = if self.featured { 8 } else { 5 };
        let liq: u128 = (fee + div - 1) / div; // liquidity DAO: 1/5 (featured 1/8) of the fee, rounded up
        let lp: u128 = fee.saturating_sub(liq);
        let rest: i128 = p.price as i128 - fee as i128;
        let mut want: BTreeMap<(String, String), i128> = BTreeMap::new();
        let mut add = |a: &str, x: i128| {
            if x != 0 {
                *want.entry((a.to_string(), p.denom.clone())).or_insert(0) += x;
            }
        };
        add(&p.payer, -(p.price as i128));
        add(LIQUIDITY_DAO, liq as i128);
        add(LAUNCHPAD_DAO, lp as i128);
        add(&self.seller, rest);
        want.retain(|_, v| *v != 0);
        // difference actual - expected on every slot
        let mut diff: BTreeMap<(String, String), i128> = BTreeMap::new();
        for k in actual.keys().chain(want.keys()) {
            let d = actual.get(k).copied().unwrap_or(0) - want.get(k).copied().unwrap_or(0);
            if d != 0 {
                diff.insert(k.clone(), d);
            }
        }
        if diff.is_empty() {
            return true;
        }
        let minter = self.w.minter.to_string();
        let slot = |a: &str| (a.to_string(), p.denom.clone());
        // the recorded defect, and nothing else: a vending airdrop whose remainder price - fee > 0
        // stays in the minter instead of reaching the seller; every other slot as documented
        let known = p.airdrop
            && rest > 0
            && diff.len() == 2
            && diff.get(&slot(&minter)) == Some(&rest)
            && diff.get(&slot(&self.seller)) == Some(&(-rest));
        if known {
            self.violation(
                KNOWN_KEY,
                format!(
                    "{}: airdrop at price {} {} with airdrop fee {} bps: payer -{}, fee recipients +{}, seller +0, minter balance +{} (remainder stranded)",
                    self.vname, p.price, p.denom, p.bps, p.price, fee, rest
                ),
            );
            return true;
        }
        let detail = format!(
            "{}: {} mint {:?} at price {} {} ({} bps, fee {}, seller {}): balance changes {:?}, documented {:?}, difference {:?}",
            self.vname, p.kind, op, p.price, p.denom, p.bps, fee, self.seller, actual, want, diff
        );
        let moved_supply = diff.keys().any(|k| k.0 == "#supply");
        let sum_accounts: i128 = actual.iter().filter(|(k, _)| k.0 != "#supply").map(|(_, v)| *v).sum();
        let sum_supply: i128 = actual.iter().filter(|(k, _)| k.0 == "#supply").map(|(_, v)| *v).sum();
        let key = if diff.contains_key(&slot(&minter)) || diff.keys().any(|k| k.0 == minter) {
            format!("C02:minter-balance-changed:{}", p.kind)
        } else if diff.keys().any(|k| k.0 == p.payer) && p.payer != self.seller {
            format!("C02:payer-charged-wrong-amount:{}", p.kind)
        } else if diff.keys().any(|k| k.0 == LIQUIDITY_DAO || k.0 == LAUNCHPAD_DAO || k.0 == FOUNDATION || k.0 == chain::FAIRBURN_POOL) {
            format!("C02:fee-split-wrong:{}", p.kind)
        } else if diff.keys().any(|k| k.0 == self.seller || k.0 == CREATOR || k.0 == PAYADDR) {
            format!("C02:seller-paid-wrong:{}", p.kind)
        } else if moved_supply || sum_accounts != sum_supply {
            format!("C02:coins-created-or-lost:{}", p.kind)
        } else {
            format!("C02:unexpected-balance-change:{}", p.kind)
        };
        self.violation(&key, detail);
        true
    }

    pub fn finish(mut self) -> (Case, CaseResult) {
        let coq = case_coq(&mut self.w, &self.init, &self.init_bal, &self.steps);
        self.res.coq = Some(coq);
        (self.case, self.res)
    }
}

pub fn run_case(c: &Case) -> CaseResult {
    match Driver::new(c) {
        Ok(mut d) => {
            for op in &c.ops {
                d.step(op);
            }
            d.finish().1
        }
        Err(_) => {
            let mut res = CaseResult { coq: None, steps: 0, ok_mints: 0, violations: vec![], hist: BTreeMap::new(), distinct: BTreeSet::new() };
            *res.hist.entry(format!("{}:create:err", VARIANTS[c.variant].name)).or_insert(0) += 1;
            res
        }
    }
}

// ---------- payments ----------
fn other(d: &str) -> &'static str {
    if d == NATIVE {
        IBC
    } else {
        NATIVE
    }
}
fn sorted(mut v: Vec<(String, u128)>) -> Vec<(String, u128)> {
    v.sort();
    v
}
fn exact_payment(price: u128, d: &str) -> Vec<(String, u128)> {
    if price == 0 {
        vec![]
    } else {
        vec![(d.to_string(), price)]
    }
}
/// every way of not paying exactly `price d`
fn wrong_payments(price: u128, d: &str) -> Vec<Vec<(String, u128)>> {
    let o = other(d);
    let mut v: Vec<Vec<(String, u128)>> = vec![];
    if price == 0 {
        v.push(vec![(d.to_string(), 1)]); // a coin when the price is 0
        v.push(vec![(o.to_string(), 1)]);
        v.push(sorted(vec![(d.to_string(), 1), (o.to_string(), 1)]));
    } else {
        if price > 1 {
            v.push(vec![(d.to_string(), price - 1)]);
        }
        v.push(vec![(d.to_string(), price + 1)]);
        v.push(vec![(o.to_string(), price)]); // right amount, wrong denom
        v.push(sorted(vec![(d.to_string(), price), (o.to_string(), 1)])); // an extra coin
        v.push(sorted(vec![(d.to_string(), price), (o.to_string(), price)]));
        v.push(vec![]); // nothing when the price is > 0
        v.push(vec![(d.to_string(), price * 2)]);
    }
    v
}

fn bps_pool() -> Vec<u64> {
    vec![0, 1, 3333, 9999, 10000, 1000, 500, 5000]
}

fn price_pool(min: u128, lits: &[u128]) -> Vec<u128> {
    let mut v: Vec<u128> = vec![min, min + 1, 9999, 10000, 10001, 100_000_001, BIG];
    for l in lits {
        for x in [l.saturating_sub(1), *l, l + 1] {
            if x <= BIG {
                v.push(x);
            }
        }
    }
    v.retain(|p| *p >= min);
    v.sort();
    v.dedup();
    v
}

fn literals() -> Vec<u128> {
    let mut l = harvest_literals(&[
        "contracts/minters/vending-minter/src/contract.rs",
        "contracts/minters/vending-minter-featured/src/contract.rs",
        "contracts/minters/vending-minter-wl-flex/src/contract.rs",
        "contracts/minters/vending-minter-wl-flex-featured/src/contract.rs",
        "contracts/minters/vending-minter-merkle-wl/src/contract.rs",
        "contracts/minters/vending-minter-merkle-wl-featured/src/contract.rs",
        "packages/sg1/src/lib.rs",
    ]);
    l.retain(|x| *x <= BIG);
    l
}

// ---------- adaptive generator ----------
fn sweep(d: &mut Driver, rng: &mut Rng, airdrop: bool, who: &str, n_wrong: usize, do_exact: bool) {
    let Some((price, dn)) = d.price_in_force(airdrop) else { return };
    let mk = |d: &Driver, rng: &mut Rng, funds: Vec<(String, u128)>| -> Op {
        if !airdrop {
            Op::Mint { who: who.into(), funds }
        } else if rng.chance(1, 2) {
            Op::MintTo { who: who.into(), recipient: (*rng.pick(&[BUYERS[0], BUYERS[1], STRANGER])).into(), funds }
        } else {
            let pos = d.w.positions();
            let id = if pos.is_empty() || rng.chance(1, 12) { 0 } else { pos[rng.below(pos.len() as u64) as usize].1 };
            Op::MintFor { who: who.into(), token_id: id, recipient: (*rng.pick(&[BUYERS[0], BUYERS[2]])).into(), funds }
        }
    };
    let wrong = wrong_payments(price, &dn);
    for _ in 0..n_wrong {
        let f = rng.pick(&wrong).clone();
        let op = mk(d, rng, f);
        d.step(&op);
    }
    if do_exact {
        let op = mk(d, rng, exact_payment(price, &dn));
        d.step(&op);
    }
}

fn gen_case(rng: &mut Rng, variant: usize, thorough: bool, lits: &[u128]) -> (Case, CaseResult) {
    let min_price = *rng.pick(&[0u128, 0, 1, 50, 50, 9999, 10000, 100_000_000, BIG - 1]);
    let pool = price_pool(min_price, lits);
    let base: Vec<u128> = vec![min_price, min_price + 1, 9999, 10000, 10001, 100_000_001, BIG].into_iter().filter(|p| *p >= min_price).collect();
    let price = if rng.chance(3, 4) { *rng.pick(&base) } else { *rng.pick(&pool) };
    let wl = rng.chance(2, 5);
    let c = Case {
        variant,
        ibc: rng.chance(1, 3),
        min_price,
        price,
        mint_fee_bps: *rng.pick(&bps_pool()),
        airdrop_price: *rng.pick(&[0u128, 0, 1, 100, 9999, 10001, 100_000_001, BIG]),
        airdrop_fee_bps: *rng.pick(&bps_pool()),
        payment_address: rng.chance(1, 2),
        wl,
        wl_price: *rng.pick(&[0u128, 1, min_price, price.saturating_sub(1).max(1), 60, 10001, BIG]),
        ops: vec![],
    };
    let mut d = match Driver::new(&c) {
        Ok(d) => d,
        Err(_) => {
            let r = run_case(&c);
            return (c, r);
        }
    };
    // sometimes pre-fund the minter through the recorded defect (an airdrop whose whole price is
    // stranded), so that a later over-disbursement has something to pay from
    if rng.chance(1, 3) {
        d.step(&Op::SudoParams { min_price: None, mint_fee_bps: None, airdrop_price: Some(*rng.pick(&[100_000_001u128, BIG])), airdrop_fee_bps: Some(0), offset: None, max_pal: None, shuffle_fee: None });
        sweep(&mut d, rng, true, CREATOR, 0, true);
        d.step(&Op::SudoParams { min_price: None, mint_fee_bps: None, airdrop_price: Some(c.airdrop_price), airdrop_fee_bps: Some(c.airdrop_fee_bps), offset: None, max_pal: None, shuffle_fee: None });
    }
    let h13 = 13 * 3600;
    let phases: [(u64, &str); 4] = [(500, "pre"), (1500, "wl"), (3100, "public"), (3100 + h13, "late")];
    let rounds = if thorough { 3 } else { 2 };
    let mut t_extra = 0u64;
    for (secs, phase) in phases {
        d.step(&Op::At { secs: secs + t_extra, nanos: rng.below(1000) as i64 });
        let started = phase == "public" || phase == "late";
        for _ in 0..rounds {
            // governance moves the fee schedule / airdrop price
            if rng.chance(2, 5) {
                d.step(&Op::SudoParams {
                    min_price: None,
                    mint_fee_bps: if rng.chance(1, 2) { Some(*rng.pick(&bps_pool())) } else { None },
                    airdrop_price: if rng.chance(1, 2) { Some(*rng.pick(&[0u128, 1, 100, 9999, 10001, 100_000_001, BIG])) } else { None },
                    airdrop_fee_bps: if rng.chance(1, 2) { Some(*rng.pick(&bps_pool())) } else { None },
                    offset: None,
                    max_pal: None,
                    shuffle_fee: None,
                });
            }
            // the creator moves the price / discount
            if rng.chance(1, 4) {
                let cur: u128 = d.w.minter_config()["mint_price"]["amount"].as_str().unwrap().parse().unwrap();
                let p = if started {
                    if cur > min_price { *rng.pick(&[cur - 1, min_price, min_price + (cur - min_price) / 2]) } else { cur }
                } else {
                    *rng.pick(&pool)
                };
                d.step(&Op::UpdateMintPrice { who: CREATOR.into(), price: p });
            }
            if started && rng.chance(1, 3) {
                let cur: u128 = d.w.minter_config()["mint_price"]["amount"].as_str().unwrap().parse().unwrap();
                if d.w.minter_config()["discount_price"].get("amount").is_some() && rng.chance(1, 2) {
                    t_extra += 3700;
                    d.step(&Op::At { secs: secs + t_extra, nanos: 0 });
                    d.step(&Op::RemoveDiscountPrice { who: CREATOR.into() });
                } else {
                    let p = *rng.pick(&[min_price, cur, cur.saturating_sub(1).max(min_price), min_price + (cur - min_price) / 2]);
                    d.step(&Op::UpdateDiscountPrice { who: CREATOR.into(), price: p });
                }
            }
            // a mint of some kind with its payment sweep
            let airdrop = if started || (phase == "wl" && c.wl) { rng.chance(1, 3) } else { rng.chance(4, 5) };
            let who: &str = if airdrop {
                if rng.chance(11, 12) { CREATOR } else { BUYERS[0] }
            } else if phase == "wl" && c.wl {
                *rng.pick(&[BUYERS[0], BUYERS[1], BUYERS[0], BUYERS[1], STRANGER])
            } else {
                *rng.pick(&[BUYERS[0], BUYERS[1], BUYERS[2], STRANGER, CREATOR])
            };
            let n_wrong = rng.range(1, 3) as usize;
            let do_exact = rng.chance(9, 10);
            sweep(&mut d, rng, airdrop, who, n_wrong, do_exact);
        }
    }
    d.finish()
}

// ---------- corpus ----------
fn sudo(mint_fee_bps: Option<u64>, airdrop_price: Option<u128>, airdrop_fee_bps: Option<u64>) -> Op {
    Op::SudoParams { min_price: None, mint_fee_bps, airdrop_price, airdrop_fee_bps, offset: None, max_pal: None, shuffle_fee: None }
}
fn base_case(variant: usize) -> Case {
    Case { variant, ibc: false, min_price: 50, price: 100, mint_fee_bps: 1000, airdrop_price: 0, airdrop_fee_bps: 10000, payment_address: false, wl: false, wl_price: 60, ops: vec![] }
}
fn mint(who: &str, funds: Vec<(String, u128)>) -> Op {
    Op::Mint { who: who.into(), funds }
}
fn mint_to(who: &str, funds: Vec<(String, u128)>) -> Op {
    Op::MintTo { who: who.into(), recipient: BUYERS[2].into(), funds }
}
fn n(a: u128) -> Vec<(String, u128)> {
    vec![(NATIVE.to_string(), a)]
}
fn i(a: u128) -> Vec<(String, u128)> {
    vec![(IBC.to_string(), a)]
}

/// curated minimal histories (always first); the first one per variant is the replay of the
/// recorded finding (DESIGN §8 D6)
fn corpus() -> Vec<Case> {
    let mut v = vec![];
    for variant in 0..6 {
        // D6: airdrop price 100, airdrop fee 50 %: payer -100, fee recipients +50, minter 0 -> 50;
        // then a public mint pays out exactly its own price (the stranded 100 stay put)
        v.push(Case {
            ops: vec![
                sudo(None, Some(100), Some(5000)),
                mint_to(CREATOR, n(100)),
                Op::MintFor { who: CREATOR.into(), token_id: 7, recipient: BUYERS[0].into(), funds: n(100) },
                mint_to(CREATOR, n(99)),
                mint_to(CREATOR, vec![]),
                mint_to(BUYERS[0], n(100)),
                Op::At { secs: 3100, nanos: 0 },
                mint(BUYERS[0], n(100)),
                // outside the known class: fee = whole price, price = 0
                sudo(None, Some(100), Some(10000)),
                mint_to(CREATOR, n(100)),
                sudo(None, Some(0), Some(5000)),
                mint_to(CREATOR, vec![]),
                mint_to(CREATOR, n(1)),
            ],
            ..base_case(variant)
        });
        // the payment sweep on a public mint, price 101 (not a multiple of anything), payment address set
        v.push(Case {
            price: 101,
            payment_address: true,
            ops: {
                let mut o = vec![Op::At { secs: 3100, nanos: 0 }];
                for f in wrong_payments(101, NATIVE) {
                    o.push(mint(BUYERS[0], f));
                }
                o.push(mint(BUYERS[0], n(101)));
                o.push(mint(CREATOR, n(101)));
                o
            },
            ..base_case(variant)
        });
        // fee boundaries through governance: fee 0 (0 bps), fee 1 (the DAO share 0 makes the bank reject
        // the whole mint), fee 2, fee = price (10000 bps: the seller gets nothing), fee = price - 1
        v.push(Case {
            price: 10000,
            ops: vec![
                Op::At { secs: 3100, nanos: 0 },
                sudo(Some(0), None, None),
                mint(BUYERS[0], n(10000)),
                sudo(Some(1), None, None),
                mint(BUYERS[0], n(10000)),
                sudo(Some(2), None, None),
                mint(BUYERS[0], n(10000)),
                sudo(Some(10000), None, None),
                mint(BUYERS[0], n(10000)),
                sudo(Some(9999), None, None),
                mint(BUYERS[1], n(10000)),
                sudo(Some(3333), None, None),
                mint(BUYERS[1], n(10000)),
                mint(BUYERS[1], n(9999)),
                mint(BUYERS[1], n(10001)),
                // airdrop fee rate differs from the mint fee rate
                sudo(Some(500), Some(10001), Some(10000)),
                mint_to(CREATOR, n(10001)),
                mint(BUYERS[2], n(10000)),
            ],
            ..base_case(variant)
        });
        // zero price: nothing must be attached; a coin is rejected; a zero coin cannot be attached
        v.push(Case {
            min_price: 0,
            price: 0,
            payment_address: true,
            ops: vec![
                Op::At { secs: 3100, nanos: 0 },
                mint(BUYERS[0], n(1)),
                mint(BUYERS[0], i(1)),
                mint(BUYERS[0], n(0)),
                mint(BUYERS[0], vec![]),
                mint_to(CREATOR, vec![]),
                mint_to(CREATOR, n(1)),
            ],
            ..base_case(variant)
        });
        // price 1 (fee 0 at every rate below 10000; fee 1 at 10000 bps => the mint fails)
        v.push(Case {
            min_price: 1,
            price: 1,
            ops: vec![
                Op::At { secs: 3100, nanos: 0 },
                mint(BUYERS[0], vec![]),
                mint(BUYERS[0], n(2)),
                mint(BUYERS[0], n(1)),
                sudo(Some(10000), None, None),
                mint(BUYERS[0], n(1)),
                sudo(Some(9999), None, None),
                mint(BUYERS[0], n(1)),
            ],
            ..base_case(variant)
        });
        // whitelist price, then public price, then discount, then discount removed
        v.push(Case {
            wl: true,
            wl_price: 60,
            payment_address: variant % 2 == 0,
            ops: vec![
                Op::At { secs: 1500, nanos: 0 },
                mint(BUYERS[0], n(100)),
                mint(BUYERS[0], n(59)),
                mint(BUYERS[0], n(61)),
                mint(BUYERS[0], i(60)),
                mint(BUYERS[0], n(60)),
                mint(STRANGER, n(60)),
                mint(BUYERS[1], n(60)),
                Op::At { secs: 3100, nanos: 0 },
                mint(BUYERS[0], n(60)),
                mint(BUYERS[0], n(100)),
                Op::UpdateDiscountPrice { who: CREATOR.into(), price: 80 },
                mint(BUYERS[1], n(100)),
                mint(BUYERS[1], n(79)),
                mint(BUYERS[1], n(80)),
                Op::At { secs: 3100 + 3700, nanos: 0 },
                Op::RemoveDiscountPrice { who: CREATOR.into() },
                mint(BUYERS[2], n(80)),
                mint(BUYERS[2], n(100)),
                Op::UpdateMintPrice { who: CREATOR.into(), price: 70 },
                mint(BUYERS[2], n(100)),
                mint(BUYERS[2], n(70)),
            ],
            ..base_case(variant)
        });
        // free whitelist on a priced sale
        v.push(Case {
            wl: true,
            wl_price: 0,
            ops: vec![
                Op::At { secs: 1500, nanos: 0 },
                mint(BUYERS[0], n(100)),
                mint(BUYERS[0], n(1)),
                mint(BUYERS[0], vec![]),
                Op::At { secs: 3100, nanos: 0 },
                mint(BUYERS[0], vec![]),
                mint(BUYERS[0], n(100)),
            ],
            ..base_case(variant)
        });
        // a minter that holds coins (stranded by the recorded defect): every later mint must still
        // pay out exactly its own price, and a payment in the wrong denom must still be rejected
        v.push(Case {
            payment_address: true,
            ops: vec![
                sudo(None, Some(100_000_001), Some(0)),
                mint_to(CREATOR, n(100_000_001)),
                sudo(None, Some(0), Some(10000)),
                Op::At { secs: 3100, nanos: 0 },
                mint(BUYERS[0], i(100)),
                mint(BUYERS[0], n(101)),
                mint(BUYERS[0], n(99)),
                mint(BUYERS[0], vec![]),
                mint(BUYERS[0], sorted(vec![(NATIVE.to_string(), 100), (IBC.to_string(), 100)])),
                mint(BUYERS[0], n(100)),
                mint_to(CREATOR, i(1)),
                mint_to(CREATOR, vec![]),
                sudo(Some(3333), Some(50), Some(1)),
                mint_to(CREATOR, i(50)),
                mint_to(CREATOR, n(50)),
                mint(BUYERS[1], n(100)),
            ],
            ..base_case(variant)
        });
        // IBC-denominated sale: price and fees in the IBC denom; the airdrop price stays native
        v.push(Case {
            ibc: true,
            price: 10001,
            mint_fee_bps: 3333,
            payment_address: variant % 2 == 1,
            ops: vec![
                Op::At { secs: 3100, nanos: 0 },
                mint(BUYERS[0], n(10001)),
                mint(BUYERS[0], i(10000)),
                mint(BUYERS[0], i(10001)),
                sudo(None, Some(9999), Some(10000)),
                mint_to(CREATOR, i(9999)),
                mint_to(CREATOR, n(9999)),
            ],
            ..base_case(variant)
        });
        // very large price
        v.push(Case {
            min_price: BIG - 1,
            price: BIG,
            mint_fee_bps: 9999,
            ops: vec![
                Op::At { secs: 3100, nanos: 0 },
                mint(BUYERS[0], n(BIG - 1)),
                mint(BUYERS[0], n(BIG + 1)),
                mint(BUYERS[0], n(BIG)),
                sudo(Some(3333), Some(BIG), Some(10000)),
                mint_to(CREATOR, n(BIG)),
                mint(BUYERS[0], n(BIG)),
            ],
            ..base_case(variant)
        });
    }
    v
}

// ---------- shrinking ----------
/// the shortest prefix that still shows the violation, then greedy removal of earlier ops
fn shrink(c: &Case, key: &str, at: usize) -> Case {
    let mut best = Case { ops: c.ops[..=at.min(c.ops.len() - 1)].to_vec(), ..c.clone() };
    let shows = |cand: &Case| run_case(cand).violations.iter().any(|v| v.0 == key);
    if !shows(&best) {
        return c.clone();
    }
    let mut budget = 60;
    let mut k = 0;
    while k + 1 < best.ops.len() && budget > 0 {
        let mut cand = best.clone();
        cand.ops.remove(k);
        budget -= 1;
        if shows(&cand) {
            best = cand;
        } else {
            k += 1;
        }
    }
    best
}

pub fn run(a: &Args) {
    let out = OutDir::new(&a.out);
    let mut rep = Report { property: "C02".into(), tier: a.tier.clone(), seed: a.seed, ..Default::default() };
    let mut results: Vec<(Case, CaseResult)> = vec![];
    if let Some(p) = &a.replay {
        #[derive(Deserialize)]
        struct ReplayFile {
            case: Case,
        }
        let rf: ReplayFile = serde_json::from_str(&std::fs::read_to_string(p).expect("replay file")).expect("replay json");
        let r = run_case(&rf.case);
        results.push((rf.case, r));
    } else {
        let mut rng = Rng::new(a.seed);
        for c in corpus() {
            let r = run_case(&c);
            results.push((c, r));
        }
        let lits = literals();
        let per_variant = if a.thorough() { 120 } else { 15 };
        for _ in 0..per_variant {
            for variant in 0..6 {
                results.push(gen_case(&mut rng, variant, a.thorough(), &lits));
            }
        }
    }
    let mut coq_cases = vec![];
    let mut nviol = 0;
    let mut distinct: BTreeSet<String> = BTreeSet::new();
    let mut seen_keys: BTreeMap<String, u32> = BTreeMap::new();
    let ncases = results.len();
    for (idx, (c, r)) in results.into_iter().enumerate() {
        rep.evaluations += r.steps;
        for (k, v) in &r.hist {
            *rep.histogram.entry(k.clone()).or_insert(0) += v;
        }
        distinct.extend(r.distinct.iter().cloned());
        for (key, what, at) in r.violations.iter() {
            let seen = seen_keys.entry(key.clone()).or_insert(0);
            *seen += 1;
            // one replay per key for the recorded finding, up to three for anything else
            if *seen > if key == KNOWN_KEY { 1 } else { 3 } || nviol >= 20 {
                continue;
            }
            nviol += 1;
            let small = if a.replay.is_some() { c.clone() } else { shrink(&c, key, *at) };
            let body = format!(
                "{{\n \"property\": \"C02\",\n \"key\": {},\n \"case\": {},\n \"violation\": {}\n}}\n",
                serde_json::to_string(key).unwrap(),
                serde_json::to_string(&small).unwrap(),
                serde_json::to_string(what).unwrap()
            );
            let path = out.write_replay(&format!("C02-{}.json", nviol), &body);
            rep.violations.push(Violation { key: key.clone(), what: what.clone(), replay: path });
        }
        if rep.samples.len() < 3 && (idx % 41 == 7 || a.replay.is_some()) {
            rep.samples.push(serde_json::json!({"variant": VARIANTS[c.variant].name, "ibc": c.ibc, "price": c.price.to_string(),
                "mint_fee_bps": c.mint_fee_bps, "airdrop_price": c.airdrop_price.to_string(), "airdrop_fee_bps": c.airdrop_fee_bps,
                "payment_address": c.payment_address, "whitelist": c.wl,
                "first_ops": c.ops.iter().take(8).map(|o| format!("{:?}", o)).collect::<Vec<_>>(), "steps": r.steps, "ok_mints": r.ok_mints}));
        }
        if let Some(cq) = r.coq {
            coq_cases.push(cq);
        }
    }
    // balance the shards: write_cases cuts the list into equal counts, so order the cases such
    // that every block of that many cases has about the same text size
    {
        let shards = 6usize;
        let per = (coq_cases.len() + shards - 1) / shards;
        let mut order: Vec<usize> = (0..coq_cases.len()).collect();
        order.sort_by_key(|i| std::cmp::Reverse(coq_cases[*i].len()));
        let mut buckets: Vec<(usize, Vec<usize>)> = vec![(0, vec![]); shards];
        for i in order {
            let b = buckets.iter_mut().filter(|b| b.1.len() < per).min_by_key(|b| b.0).unwrap();
            b.0 += coq_cases[i].len();
            b.1.push(i);
        }
        let idx: Vec<usize> = buckets.into_iter().flat_map(|b| b.1).collect();
        coq_cases = idx.into_iter().map(|i| std::mem::take(&mut coq_cases[i])).collect();
    }
    rep.distinct_nontrivial = distinct.len() as u64;
    rep.rule = "sale worlds on each of the six vending minters with governance-chosen price / mint fee bps / airdrop price / airdrop fee bps (moved by sudo during the history), native or IBC denom, with/without payment address, optional whitelist with its own price, discount set/removed; before every mint the price in force is queried and the sweep price-1, price+1, wrong denom, two coins, nothing (a coin at price 0), exact is sent; evaluations = minter steps executed on the real contracts; distinct_nontrivial = distinct (variant, mint kind, price, denom, fee bps, payment address) among SUCCESSFUL mints".into();
    out.write_cases("C02", "From LP Require Import Num Pay Sg1 Bank MinterVending SaleCorr.", "scase", "sale_check", &coq_cases, 6, &mut rep);
    out.finish(&rep);
    println!("C02 harness: {} cases, {} steps, {} monitor violations reported", ncases, rep.evaluations, nviol);
}
