//! C13 world: one tiered whitelist of one of the three kinds on a fresh chain, driven
//! through hand-built JSON (so the three near-copies are exercised through exactly the
//! wire format a user sends, and messages a kind does not know are real parse errors).
//! Also: id <-> string tables, parsing of query answers, Coq term printing.
use crate::chain::{self, App};
use crate::util::*;
use cosmwasm_std::{coins, Addr};
use cw_multi_test::Executor;
use serde::{Deserialize, Serialize};
use serde_json::{json, Value};

pub const ADMIN: u64 = 1;
pub const STRANGER: u64 = 2;

pub fn addr_str(id: u64) -> String {
    match id {
        1 => "admin001".into(),
        2 => "stranger".into(),
        3 => "admin002".into(),
        n => format!("user{:04}", n), // fixed width: string order = id order (ids 100..9999)
    }
}
pub fn addr_id(s: &str) -> u64 {
    match s {
        "admin001" => 1,
        "stranger" => 2,
        "admin002" => 3,
        _ => s.strip_prefix("user").and_then(|x| x.parse().ok()).unwrap_or_else(|| panic!("unknown address {}", s)),
    }
}
pub fn denom_str(id: u64) -> String {
    match id {
        0 => "ustars".into(),
        1 => "uother".into(),
        n => format!("udenom{}", n),
    }
}
pub fn denom_id(s: &str) -> u64 {
    match s {
        "ustars" => 0,
        "uother" => 1,
        _ => s.strip_prefix("udenom").and_then(|x| x.parse().ok()).unwrap_or_else(|| panic!("unknown denom {}", s)),
    }
}
pub fn name_str(id: u64) -> String {
    format!("stage{}", id)
}
pub fn name_id(s: &str) -> u64 {
    s.strip_prefix("stage").and_then(|x| x.parse().ok()).unwrap_or_else(|| panic!("unknown stage name {}", s))
}

#[derive(Clone, Copy, Debug, Serialize, Deserialize, PartialEq, Eq, PartialOrd, Ord, Hash)]
pub enum Kind {
    Plain,
    Flex,
    Merkle,
}
impl Kind {
    pub fn all() -> [Kind; 3] {
        [Kind::Plain, Kind::Flex, Kind::Merkle]
    }
    pub fn coq(&self) -> &'static str {
        match self {
            Kind::Plain => "KPlain",
            Kind::Flex => "KFlex",
            Kind::Merkle => "KMerkle",
        }
    }
    pub fn name(&self) -> &'static str {
        match self {
            Kind::Plain => "tiered-whitelist",
            Kind::Flex => "tiered-whitelist-flex",
            Kind::Merkle => "tiered-whitelist-merkletree",
        }
    }
}

#[derive(Clone, Debug, Serialize, Deserialize, PartialEq, Eq, PartialOrd, Ord)]
pub struct St {
    pub name: u64,
    pub start: u64,
    pub end: u64,
    pub denom: u64,
    pub price: u64,
    pub pal: u32,
    pub mcl: Option<u32>,
}
fn ts(v: &Value) -> u64 {
    v.as_str().and_then(|s| s.parse().ok()).unwrap_or_else(|| panic!("timestamp {:?}", v))
}
fn coin_json(denom: u64, amount: u64) -> Value {
    json!({"denom": denom_str(denom), "amount": amount.to_string()})
}
fn coin_parse(v: &Value) -> (u64, u64) {
    (denom_id(v["denom"].as_str().unwrap()), v["amount"].as_str().unwrap().parse().unwrap())
}
impl St {
    pub fn json(&self, k: Kind) -> Value {
        let mut v = json!({
            "name": name_str(self.name),
            "start_time": self.start.to_string(),
            "end_time": self.end.to_string(),
            "mint_price": coin_json(self.denom, self.price),
            "mint_count_limit": self.mcl,
        });
        if k != Kind::Flex {
            v["per_address_limit"] = json!(self.pal);
        }
        v
    }
    pub fn parse(v: &Value) -> St {
        let (denom, price) = coin_parse(&v["mint_price"]);
        St {
            name: name_id(v["name"].as_str().unwrap()),
            start: ts(&v["start_time"]),
            end: ts(&v["end_time"]),
            denom,
            price,
            pal: v.get("per_address_limit").and_then(|x| x.as_u64()).unwrap_or(0) as u32,
            mcl: v.get("mint_count_limit").and_then(|x| x.as_u64()).map(|x| x as u32),
        }
    }
    pub fn coq(&self) -> String {
        format!(
            "(mkStage {} {} {} {} {} {} {})",
            self.name,
            self.start,
            self.end,
            self.denom,
            self.price,
            self.pal,
            coq_opt_n(self.mcl.map(|x| x as u64))
        )
    }
    pub fn contains(&self, t: u64) -> bool {
        self.start <= t && t <= self.end
    }
}

// ---------- Merkle strings (own fold; blake3 is the only shared primitive) ----------
pub fn leaf_hash(member: u64) -> [u8; 16] {
    let h = blake3::hash(addr_str(member).as_bytes());
    let mut o = [0u8; 16];
    o.copy_from_slice(&h.as_bytes()[0..16]);
    o
}
pub fn node_hash(a: [u8; 16], b: [u8; 16]) -> [u8; 16] {
    let (lo, hi) = if a <= b { (a, b) } else { (b, a) };
    let mut buf = Vec::with_capacity(32);
    buf.extend_from_slice(&lo);
    buf.extend_from_slice(&hi);
    let h = blake3::hash(&buf);
    let mut o = [0u8; 16];
    o.copy_from_slice(&h.as_bytes()[0..16]);
    o
}
#[derive(Clone, Debug, Serialize, Deserialize, PartialEq, Eq, PartialOrd, Ord)]
pub enum Root {
    Leaf(u64),
    Pair(u64, u64),
    Bad,
    /// the leaf hash written in upper-case hex (accepted by instantiate; compared
    /// case-insensitively since fix c2c314c)
    LeafUpper(u64),
}
impl Root {
    pub fn string(&self) -> String {
        match self {
            Root::Leaf(m) => hex::encode(leaf_hash(*m)),
            Root::Pair(a, b) => hex::encode(node_hash(leaf_hash(*a), leaf_hash(*b))),
            Root::Bad => "nothex".into(),
            Root::LeafUpper(m) => hex::encode(leaf_hash(*m)).to_uppercase(),
        }
    }
    pub fn is_hash_string(&self) -> bool {
        let s = self.string();
        s.len() == 32 && s.bytes().all(|c| c.is_ascii_hexdigit())
    }
}
/// probe: a member and (Merkle) the sibling leaves of its proof; -1 = a string that is no hash
#[derive(Clone, Debug, Serialize, Deserialize, PartialEq, Eq, PartialOrd, Ord)]
pub struct Probe {
    pub member: u64,
    pub proof: Vec<i64>,
}
impl Probe {
    pub fn proof_strings(&self) -> Vec<String> {
        self.proof.iter().map(|p| if *p < 0 { "xyz".to_string() } else { hex::encode(leaf_hash(*p as u64)) }).collect()
    }
    /// the hash string member+proof fold to; None if an element is not a hash string
    pub fn fold(&self) -> Option<String> {
        let mut acc = leaf_hash(self.member);
        for p in &self.proof {
            if *p < 0 {
                return None;
            }
            acc = node_hash(acc, leaf_hash(*p as u64));
        }
        Some(hex::encode(acc))
    }
}

#[derive(Clone, Debug, Serialize, Deserialize, PartialEq, Eq, PartialOrd, Ord)]
pub struct Inst {
    pub stages: Vec<St>,
    pub members: Vec<Vec<(u64, u32)>>,
    pub limit: u32,
    pub whale: Option<u32>,
    pub roots: Vec<Root>,
    pub admins: Vec<u64>,
    pub paid: u64,
}

#[derive(Clone, Debug, Serialize, Deserialize, PartialEq, Eq, PartialOrd, Ord)]
pub enum Op {
    /// move the clock (persistent)
    Time(u64),
    AddStage { sender: u64, st: St, members: Vec<(u64, u32)> },
    RemoveStage { sender: u64, id: u32 },
    Update {
        sender: u64,
        id: u32,
        name: Option<u64>,
        start: Option<u64>,
        end: Option<u64>,
        price: Option<(u64, u64)>,
        pal: Option<u32>,
        mcl: Option<u32>,
    },
    AddMembers { sender: u64, id: u32, members: Vec<(u64, u32)> },
    RemoveMembers { sender: u64, id: u32, members: Vec<u64> },
    /// observe: static queries, then the clock-dependent queries at every boundary instant
    Sweep,
    /// one Members page exactly as asked (start_after / limit as given, None = omitted)
    Page { id: u32, start_after: Option<u64>, limit: Option<u32> },
}
impl Op {
    pub fn kind_name(&self) -> &'static str {
        match self {
            Op::Time(_) => "time",
            Op::AddStage { .. } => "add_stage",
            Op::RemoveStage { .. } => "remove_stage",
            Op::Update { .. } => "update_stage_config",
            Op::AddMembers { .. } => "add_members",
            Op::RemoveMembers { .. } => "remove_members",
            Op::Sweep => "sweep",
            Op::Page { .. } => "members_page",
        }
    }
}

fn members_json(k: Kind, ms: &[(u64, u32)]) -> Value {
    match k {
        Kind::Flex => Value::Array(ms.iter().map(|(a, c)| json!({"address": addr_str(*a), "mint_count": c})).collect()),
        _ => Value::Array(ms.iter().map(|(a, _)| json!(addr_str(*a))).collect()),
    }
}
pub fn coq_members(k: Kind, ms: &[(u64, u32)]) -> String {
    coq_list(&ms.iter().map(|(a, c)| format!("({},{})", a, if k == Kind::Flex { *c } else { 1 })).collect::<Vec<_>>())
}
fn coq_opt_u64(o: Option<u64>) -> String {
    coq_opt_n(o)
}

// ---------- observations ----------
pub type StageResp = (u64, St, u64);
#[derive(Clone, Debug, PartialEq, Eq)]
pub struct StaticObs {
    pub stages: Result<Vec<StageResp>, String>,
    pub stage_k: Vec<Result<StageResp, String>>,
    pub members_k: Vec<Result<Vec<(u64, u64)>, String>>,
    /// AllStageMemberInfo per probe: (stage_id, is_member, per_address_limit) for every stage
    pub all_info: Vec<Result<Vec<Info>, String>>,
    /// StageMemberInfo per probe and stage id 0..3
    pub stage_info: Vec<Vec<Result<Info, String>>>,
}
pub type Info = (u64, bool, u64);
fn coq_info(i: &Info) -> String {
    format!("({},{},{})", i.0, coq_bool(i.1), i.2)
}
#[derive(Clone, Debug, PartialEq, Eq)]
pub struct Cfg {
    pub num: u64,
    pub pal: u64,
    pub limit: u64,
    pub start: u64,
    pub end: u64,
    pub denom: u64,
    pub price: u64,
    pub active: bool,
    pub whale: Option<u64>,
}
#[derive(Clone, Debug, PartialEq, Eq)]
pub struct TimeObs {
    pub t: u64,
    pub active: Option<St>,
    pub active_id: u64,
    pub is_active: bool,
    pub started: bool,
    pub ended: bool,
    pub cfg: Cfg,
    pub has: Vec<Result<bool, String>>,
    pub member: Vec<Result<u64, String>>,
}
fn coq_res<T>(r: &Result<T, String>, f: impl Fn(&T) -> String) -> String {
    match r {
        Ok(v) => format!("(Ok {})", f(v)),
        Err(_) => "Err".to_string(),
    }
}
fn coq_resp(r: &StageResp) -> String {
    format!("({},{},{})", r.0, r.1.coq(), r.2)
}
impl StaticObs {
    pub fn coq(&self) -> String {
        format!(
            "SStatic {} {} {}",
            coq_res(&self.stages, |v| coq_list(&v.iter().map(coq_resp).collect::<Vec<_>>())),
            coq_list(&self.stage_k.iter().map(|r| coq_res(r, coq_resp)).collect::<Vec<_>>()),
            coq_list(
                &self
                    .members_k
                    .iter()
                    .map(|r| coq_res(r, |v| coq_list(&v.iter().map(|(a, c)| format!("({},{})", a, c)).collect::<Vec<_>>())))
                    .collect::<Vec<_>>()
            ),
        )
    }
    /// the per-address membership views (not clock dependent)
    pub fn info_coq(&self) -> String {
        format!(
            "SInfo {} {}",
            coq_list(&self.all_info.iter().map(|r| coq_res(r, |v| coq_list(&v.iter().map(coq_info).collect::<Vec<_>>()))).collect::<Vec<_>>()),
            coq_list(&self.stage_info.iter().map(|l| coq_list(&l.iter().map(|r| coq_res(r, coq_info)).collect::<Vec<_>>())).collect::<Vec<_>>()),
        )
    }
}
impl TimeObs {
    /// the observation without its instant (consecutive instants with equal answers are grouped)
    pub fn body_coq(&self) -> String {
        let c = &self.cfg;
        format!(
            "(mkT {} {} {} {} {} (mkCfg {} {} {} {} {} {} {} {} {}) {} {})",
            match &self.active {
                Some(s) => format!("(Some {})", s.coq()),
                None => "None".into(),
            },
            self.active_id,
            coq_bool(self.is_active),
            coq_bool(self.started),
            coq_bool(self.ended),
            c.num,
            c.pal,
            c.limit,
            c.start,
            c.end,
            c.denom,
            c.price,
            coq_bool(c.active),
            coq_opt_u64(c.whale),
            coq_list(&self.has.iter().map(|r| coq_res(r, |b| coq_bool(*b).to_string())).collect::<Vec<_>>()),
            coq_list(&self.member.iter().map(|r| coq_res(r, |n| n.to_string())).collect::<Vec<_>>()),
        )
    }
}

// ---------- the world ----------
pub struct World {
    pub app: App,
    pub kind: Kind,
    pub addr: Option<Addr>,
    /// Merkle hash strings <-> ids (roots and fold results share the table)
    pub hashes: Ids,
    pub queries: u64,
}

impl World {
    pub fn new(kind: Kind, now0: u64) -> World {
        let mut app = chain::new_app();
        chain::set_time(&mut app, now0);
        for who in [ADMIN, STRANGER, 3] {
            chain::mint_coins(&mut app, &addr_str(who), 1_000_000_000_000_000, "ustars");
        }
        World { app, kind, addr: None, hashes: Ids::with_fixed(&[], 1), queries: 0 }
    }
    pub fn now(&self) -> u64 {
        chain::now(&self.app)
    }
    pub fn set_time(&mut self, t: u64) {
        chain::set_time(&mut self.app, t);
    }
    pub fn inst_json(&self, i: &Inst) -> Value {
        let stages: Vec<Value> = i.stages.iter().map(|s| s.json(self.kind)).collect();
        let admins: Vec<String> = i.admins.iter().map(|a| addr_str(*a)).collect();
        match self.kind {
            Kind::Plain => json!({
                "members": i.members.iter().map(|l| members_json(self.kind, l)).collect::<Vec<_>>(),
                "stages": stages, "member_limit": i.limit, "admins": admins, "admins_mutable": true}),
            Kind::Flex => json!({
                "members": i.members.iter().map(|l| members_json(self.kind, l)).collect::<Vec<_>>(),
                "stages": stages, "member_limit": i.limit, "admins": admins, "admins_mutable": true,
                "whale_cap": i.whale}),
            Kind::Merkle => json!({
                "stages": stages,
                "merkle_roots": i.roots.iter().map(|r| r.string()).collect::<Vec<_>>(),
                "merkle_tree_uris": Value::Null, "admins": admins, "admins_mutable": true}),
        }
    }
    pub fn inst_coq(&mut self, i: &Inst) -> String {
        let k = self.kind;
        let roots: Vec<String> = i.roots.iter().map(|r| self.hashes.id(&r.string().to_lowercase()).to_string()).collect();
        format!(
            "(mkInst {} {} {} {} {} {} {} {})",
            coq_list(&i.stages.iter().map(|s| s.coq()).collect::<Vec<_>>()),
            coq_list(&i.members.iter().map(|l| coq_members(k, l)).collect::<Vec<_>>()),
            i.limit,
            coq_opt_u64(i.whale.map(|x| x as u64)),
            coq_list(&roots),
            coq_bool(i.roots.iter().all(|r| r.is_hash_string())),
            coq_list(&i.admins.iter().map(|a| a.to_string()).collect::<Vec<_>>()),
            i.paid
        )
    }
    pub fn instantiate(&mut self, i: &Inst) -> Result<(), String> {
        let code = match self.kind {
            Kind::Plain => self.app.store_code(chain::tiered_whitelist()),
            Kind::Flex => self.app.store_code(chain::tiered_whitelist_flex()),
            Kind::Merkle => self.app.store_code(chain::tiered_whitelist_merkletree()),
        };
        let msg = self.inst_json(i);
        let funds = if i.paid > 0 { coins(i.paid as u128, "ustars") } else { vec![] };
        let app = &mut self.app;
        let r = catch(|| app.instantiate_contract(code, Addr::unchecked(addr_str(ADMIN)), &msg, &funds, "tiered", None));
        match r {
            Ok(Ok(a)) => {
                self.addr = Some(a);
                Ok(())
            }
            Ok(Err(e)) => Err(format!("{:#}", e)),
            Err(p) => Err(p),
        }
    }
    pub fn op_json(&self, op: &Op) -> Option<(u64, Value)> {
        let k = self.kind;
        Some(match op {
            Op::Time(_) | Op::Sweep | Op::Page { .. } => return None,
            Op::AddStage { sender, st, members } => {
                (*sender, json!({"add_stage": {"stage": st.json(k), "members": members_json(k, members)}}))
            }
            Op::RemoveStage { sender, id } => (*sender, json!({"remove_stage": {"stage_id": id}})),
            Op::Update { sender, id, name, start, end, price, pal, mcl } => {
                let mut m = json!({
                    "stage_id": id,
                    "name": name.map(name_str),
                    "start_time": start.map(|t| t.to_string()),
                    "end_time": end.map(|t| t.to_string()),
                    "mint_price": price.map(|(d, a)| coin_json(d, a)),
                    "mint_count_limit": mcl,
                });
                // the flex message has no such field; it is sent only when the case asks for it
                if k != Kind::Flex || pal.is_some() {
                    m["per_address_limit"] = json!(pal);
                }
                (*sender, json!({ "update_stage_config": m }))
            }
            Op::AddMembers { sender, id, members } => {
                (*sender, json!({"add_members": {"to_add": members_json(k, members), "stage_id": id}}))
            }
            Op::RemoveMembers { sender, id, members } => (
                *sender,
                json!({"remove_members": {"to_remove": members.iter().map(|a| addr_str(*a)).collect::<Vec<_>>(), "stage_id": id}}),
            ),
        })
    }
    pub fn op_coq(&self, op: &Op) -> String {
        let k = self.kind;
        match op {
            Op::Time(_) | Op::Sweep | Op::Page { .. } => unreachable!(),
            Op::AddStage { sender, st, members } => format!("(AddStage {} {} {})", sender, st.coq(), coq_members(k, members)),
            Op::RemoveStage { sender, id } => format!("(RemoveStage {} {})", sender, id),
            Op::Update { sender, id, name, start, end, price, pal, mcl } => format!(
                "(UpdateStage {} {} {} {} {} {} {} {})",
                sender,
                id,
                coq_opt_u64(*name),
                coq_opt_u64(*start),
                coq_opt_u64(*end),
                match price {
                    Some((d, a)) => format!("(Some ({},{}))", d, a),
                    None => "None".into(),
                },
                coq_opt_u64(pal.map(|x| x as u64)),
                match mcl {
                    Some(n) => format!("(Some (Some {}))", n),
                    None => "None".into(),
                }
            ),
            Op::AddMembers { sender, id, members } => format!("(AddMembers {} {} {})", sender, id, coq_members(k, members)),
            Op::RemoveMembers { sender, id, members } => format!(
                "(RemoveMembers {} {} {})",
                sender,
                id,
                coq_list(&members.iter().map(|a| a.to_string()).collect::<Vec<_>>())
            ),
        }
    }
    pub fn exec(&mut self, op: &Op) -> Result<(), String> {
        let (sender, msg) = self.op_json(op).expect("exec of a non-message op");
        let addr = self.addr.clone().expect("not instantiated");
        chain::exec(&mut self.app, &addr_str(sender), &addr, &msg, &[]).map(|_| ())
    }
    pub fn digest(&self) -> String {
        chain::storage_digest(&self.app, self.addr.as_ref().unwrap())
    }
    pub fn q(&mut self, msg: Value) -> Result<Value, String> {
        self.queries += 1;
        let addr = self.addr.clone().expect("not instantiated");
        let app = &self.app;
        match catch(|| app.wrap().query_wasm_smart::<Value>(addr, &msg)) {
            Ok(Ok(v)) => Ok(v),
            Ok(Err(e)) => Err(e.to_string()),
            Err(p) => Err(p),
        }
    }
    fn parse_resp(&mut self, v: &Value) -> StageResp {
        let extra = match self.kind {
            Kind::Merkle => self.hashes.id(&v["merkle_root"].as_str().unwrap().to_lowercase()),
            _ => v["member_count"].as_u64().unwrap(),
        };
        (v["stage_id"].as_u64().unwrap(), St::parse(&v["stage"]), extra)
    }
    fn parse_members(v: &Value) -> Vec<(u64, u64)> {
        v["members"]
            .as_array()
            .unwrap()
            .iter()
            .map(|m| match m {
                Value::String(s) => (addr_id(s), 1),
                o => (addr_id(o["address"].as_str().unwrap()), o["mint_count"].as_u64().unwrap()),
            })
            .collect()
    }
    /// one Members page as asked
    pub fn members_page(&mut self, id: u32, start_after: Option<u64>, limit: Option<u32>) -> Result<Vec<(u64, u64)>, String> {
        self.q(json!({"members": {"stage_id": id, "start_after": start_after.map(addr_str), "limit": limit}})).map(|v| Self::parse_members(&v))
    }
    /// every entry stored under a stage id: pages of 100 walked until an empty page
    pub fn members_all(&mut self, id: u32) -> Result<Vec<(u64, u64)>, String> {
        let mut all: Vec<(u64, u64)> = vec![];
        let mut start: Option<u64> = None;
        loop {
            let page = self.members_page(id, start, Some(100))?;
            if page.is_empty() {
                return Ok(all);
            }
            start = Some(page.last().unwrap().0);
            all.extend(page);
            assert!(all.len() < 100_000, "Members pagination does not terminate");
        }
    }
    fn parse_info(v: &Value) -> Info {
        (v["stage_id"].as_u64().unwrap(), v["is_member"].as_bool().unwrap(), v["per_address_limit"].as_u64().unwrap())
    }
    pub fn static_obs(&mut self, probes: &[Probe]) -> StaticObs {
        let mut all_info = vec![];
        let mut stage_info = vec![];
        for p in probes {
            all_info.push(
                self.q(json!({"all_stage_member_info": {"member": addr_str(p.member)}}))
                    .map(|v| v["all_stage_member_info"].as_array().unwrap().iter().map(Self::parse_info).collect()),
            );
            stage_info.push(
                (0..4u32)
                    .map(|id| self.q(json!({"stage_member_info": {"stage_id": id, "member": addr_str(p.member)}})).map(|v| Self::parse_info(&v)))
                    .collect(),
            );
        }
        let stages = match self.q(json!({"stages": {}})) {
            Ok(v) => Ok(v["stages"].as_array().unwrap().clone().iter().map(|x| self.parse_resp(x)).collect()),
            Err(e) => Err(e),
        };
        let mut stage_k = vec![];
        let mut members_k = vec![];
        for id in 0..4u32 {
            stage_k.push(match self.q(json!({"stage": {"stage_id": id}})) {
                Ok(v) => Ok(self.parse_resp(&v)),
                Err(e) => Err(e),
            });
            members_k.push(self.members_all(id));
        }
        StaticObs { stages, stage_k, members_k, all_info, stage_info }
    }
    /// clock-dependent queries at the current block time
    pub fn time_obs(&mut self, probes: &[Probe]) -> TimeObs {
        let t = self.now();
        let must = |r: Result<Value, String>, what: &str| r.unwrap_or_else(|e| panic!("{} query failed: {}", what, e));
        let active = match must(self.q(json!({"active_stage": {}})), "active_stage") {
            Value::Null => None,
            v => Some(St::parse(&v)),
        };
        let active_id = must(self.q(json!({"active_stage_id": {}})), "active_stage_id").as_u64().unwrap();
        let is_active = must(self.q(json!({"is_active": {}})), "is_active")["is_active"].as_bool().unwrap();
        let started = must(self.q(json!({"has_started": {}})), "has_started")["has_started"].as_bool().unwrap();
        let ended = must(self.q(json!({"has_ended": {}})), "has_ended")["has_ended"].as_bool().unwrap();
        let c = must(self.q(json!({"config": {}})), "config");
        let (denom, price) = coin_parse(&c["mint_price"]);
        let cfg = Cfg {
            num: c["num_members"].as_u64().unwrap(),
            pal: c.get("per_address_limit").and_then(|x| x.as_u64()).unwrap_or(0),
            limit: c["member_limit"].as_u64().unwrap(),
            start: ts(&c["start_time"]),
            end: ts(&c["end_time"]),
            denom,
            price,
            active: c["is_active"].as_bool().unwrap(),
            whale: c.get("whale_cap").and_then(|x| x.as_u64()),
        };
        let mut has = vec![];
        let mut member = vec![];
        for p in probes {
            let msg = match self.kind {
                Kind::Merkle => json!({"has_member": {"member": addr_str(p.member), "proof_hashes": p.proof_strings()}}),
                _ => json!({"has_member": {"member": addr_str(p.member)}}),
            };
            has.push(self.q(msg).map(|v| v["has_member"].as_bool().unwrap()));
            member.push(self.q(json!({"member": {"member": addr_str(p.member)}})).map(|v| v["mint_count"].as_u64().unwrap()));
        }
        TimeObs { t, active, active_id, is_active, started, ended, cfg, has, member }
    }
    pub fn probes_coq(&mut self, probes: &[Probe]) -> String {
        let items: Vec<String> = probes
            .iter()
            .map(|p| {
                let f = p.fold().map(|s| self.hashes.id(&s));
                format!("({},{})", p.member, coq_opt_u64(f))
            })
            .collect();
        coq_list(&items)
    }
}
