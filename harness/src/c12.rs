//! C12 — whitelist schedules stay well-formed and cannot be bent once started.
//! Drives the real plain / flex / Merkle whitelists through histories of schedule
//! updates, per-address-limit updates and member removals at chosen clock values, records
//! Config / HasStarted / HasEnded / IsActive after every step as Coq terms for the model
//! comparison, and evaluates the property sentence directly on the observations.
use crate::util::*;
use crate::w_whitelist::*;
use crate::Args;
use serde::Deserialize;
use serde_json::json;
use std::collections::{BTreeMap, BTreeSet};

const KINDS: [Kind; 3] = [Kind::Plain, Kind::Flex, Kind::Merkle];
const S: u64 = 1_000_000_000;
const T0: u64 = GENESIS + 1000 * S;

#[derive(Clone, Debug, PartialEq, Eq)]
struct SObs {
    start: u64,
    end: u64,
    pal: u64,
    num: u64,
    cfg_active: bool,
    started: bool,
    ended: bool,
    active: bool,
    can: Vec<(u64, Option<bool>)>,
}
impl SObs {
    fn coq(&self) -> String {
        format!(
            "(mkSobs {} {} {} {} {} {} {} {} {})",
            self.start,
            self.end,
            self.pal,
            self.num,
            coq_bool(self.cfg_active),
            coq_bool(self.started),
            coq_bool(self.ended),
            coq_bool(self.active),
            coq_list(&self.can.iter().map(|(a, r)| format!("({}, {})", a, match r { Some(b) => format!("(Ok {})", coq_bool(*b)), None => "Err".to_string() })).collect::<Vec<_>>())
        )
    }
}

fn observe(w: &World) -> SObs {
    let c = w.query(&json!({"config": {}})).expect("config query");
    let st = w.query(&json!({"has_started": {}})).expect("has_started");
    let en = w.query(&json!({"has_ended": {}})).expect("has_ended");
    let ac = w.query(&json!({"is_active": {}})).expect("is_active");
    SObs {
        start: u64_of(&c["start_time"]),
        end: u64_of(&c["end_time"]),
        pal: c.get("per_address_limit").and_then(|v| v.as_u64()).unwrap_or(0),
        num: c["num_members"].as_u64().unwrap_or(u64::MAX),
        cfg_active: c["is_active"].as_bool().unwrap_or(false),
        started: st["has_started"].as_bool().unwrap_or(false),
        ended: en["has_ended"].as_bool().unwrap_or(false),
        active: ac["is_active"].as_bool().unwrap_or(false),
        can: [60u64, 61, 62, 50].iter().map(|a| (*a, w.can_execute(*a))).collect(),
    }
}

/// The activity clause of the property, evaluated on one observation at clock `now`.
fn flags_monitor(now: u64, o: &SObs) -> Option<(&'static str, String)> {
    if o.active != (o.start <= now && now < o.end) {
        return Some(("is-active-wrong", format!("IsActive = {} at now={} with start={} end={}", o.active, now, o.start, o.end)));
    }
    if o.started != (now >= o.start) {
        return Some(("has-started-wrong", format!("HasStarted = {} at now={} with start={}", o.started, now, o.start)));
    }
    if o.ended != (now >= o.end) {
        return Some(("has-ended-wrong", format!("HasEnded = {} at now={} with end={}", o.ended, now, o.end)));
    }
    if o.cfg_active != o.active {
        return Some(("config-active-differs", format!("Config.is_active = {} but IsActive = {} at now={}", o.cfg_active, o.active, now)));
    }
    None
}
/// CanExecute answers true exactly for the senders the AdminList query names
fn admin_monitor(w: &World, o: &SObs) -> Option<(&'static str, String)> {
    let (admins, _) = w.admin_list();
    for (a, r) in &o.can {
        if let Some(b) = r {
            if *b != admins.contains(a) {
                return Some(("can-execute-wrong", format!("CanExecute({}) = {} but AdminList = {:?}", name(*a), b, admins)));
            }
        }
    }
    None
}
fn shape_monitor(o: &SObs) -> Option<(&'static str, String)> {
    if o.start > o.end {
        return Some(("start-after-end", format!("start {} is after end {}", o.start, o.end)));
    }
    if o.start < GENESIS {
        return Some(("start-before-genesis", format!("start {} is before the genesis mint time {}", o.start, GENESIS)));
    }
    None
}

struct Outcome {
    coq: String,
    evals: u64,
    viol: Option<(String, String)>,
    hist: Vec<String>,
    nontrivial: bool,
    sample: String,
}

fn run_history(h: &History) -> Outcome {
    let kind = h.init.kind;
    let mut w = World::new(kind);
    let mut viol: Option<(String, String)> = None;
    let mut flag = |k: &str, what: String, viol: &mut Option<(String, String)>| {
        if viol.is_none() {
            *viol = Some((format!("C12:{}:{}", kind.label(), k), what));
        }
    };
    let mut hist = vec![];
    let env0 = coq_env(h.init.now, h.init.sender, &h.init.funds);
    let imsg = coq_imsg(&h.init);
    let r = w.instantiate(&h.init);
    hist.push(format!("{}:instantiate:{}", kind.label(), if r.is_ok() { "ok" } else { "err" }));
    if let Err(e) = &r {
        return Outcome {
            coq: format!("C12Fail {} {} {}", kind.coq(), env0, imsg),
            evals: 1,
            viol: None,
            hist,
            nontrivial: !(e.contains("parsing") || e.contains("Payment") || e.contains("fee")),
            sample: format!("instantiate rejected: {}", e.chars().take(100).collect::<String>()),
        };
    }
    let mut evals = 1u64;
    let o0 = observe(&w);
    // created only with a start in the future
    if !(h.init.now < o0.start) {
        flag("created-already-started", format!("instantiate at now={} accepted start={}", h.init.now, o0.start), &mut viol);
    }
    if let Some((k, what)) = shape_monitor(&o0).or_else(|| flags_monitor(h.init.now, &o0)).or_else(|| admin_monitor(&w, &o0)) {
        flag(k, format!("after instantiate: {}", what), &mut viol);
    }
    let mut prev = o0.clone();
    let mut steps_coq = vec![];
    let mut sample = String::new();
    let mut nontrivial = false;
    for s in &h.steps {
        evals += 1;
        match &s.op {
            None => {
                w.set_time(s.now);
                let o = observe(&w);
                if let Some((k, what)) = shape_monitor(&o).or_else(|| flags_monitor(s.now, &o)) {
                    flag(k, what, &mut viol);
                }
                if o.start != prev.start || o.end != prev.end {
                    flag("schedule-moved-without-call", format!("{:?} -> {:?}", prev, o), &mut viol);
                }
                steps_coq.push(format!("SLook {} {}", s.now, o.coq()));
                hist.push(format!("{}:look:ok", kind.label()));
                prev = o;
            }
            Some(op) => {
                let started_before = s.now >= prev.start;
                let members_before = if kind == Kind::Merkle { vec![] } else { w.members_all(None).unwrap_or_default() };
                let digest_before = w.digest();
                let r = w.exec(s);
                let ok = r.is_ok();
                let o = observe(&w);
                hist.push(format!("{}:{}:{}", kind.label(), op.kind_label(), if ok { "ok" } else { "err" }));
                if sample.is_empty() && ok {
                    sample = format!("{:?} at now={} -> {:?}", op, s.now, o);
                }
                if ok && matches!(op, Op::UpdStart(_) | Op::UpdEnd(_) | Op::Remove(_) | Op::UpdPal(_)) {
                    nontrivial = true;
                }
                if !ok && w.digest() != digest_before {
                    flag("rejected-call-changed-state", format!("{:?} at now={} was rejected but storage changed", op, s.now), &mut viol);
                }
                if let Some((k, what)) = shape_monitor(&o).or_else(|| flags_monitor(s.now, &o)).or_else(|| admin_monitor(&w, &o)) {
                    flag(k, format!("after {:?} at now={}: {}", op, s.now, what), &mut viol);
                }
                if started_before {
                    // once started: start fixed, end only brought forward, no removals
                    if o.start != prev.start {
                        flag("start-changed-after-start", format!("{:?} at now={} moved start {} -> {} although it had started", op, s.now, prev.start, o.start), &mut viol);
                    }
                    if o.end > prev.end {
                        flag("end-extended-after-start", format!("{:?} at now={} moved end {} -> {} although it had started", op, s.now, prev.end, o.end), &mut viol);
                    }
                    if ok && matches!(op, Op::Remove(_)) {
                        flag("removal-after-start", format!("{:?} at now={} accepted although start={}", op, s.now, prev.start), &mut viol);
                    }
                    if kind != Kind::Merkle {
                        let after: BTreeSet<u64> = w.members_all(None).unwrap_or_default().iter().map(|m| m.0).collect();
                        if let Some(gone) = members_before.iter().find(|m| !after.contains(&m.0)) {
                            flag("member-gone-after-start", format!("{:?} at now={} removed member {} after the start", op, s.now, name(gone.0)), &mut viol);
                        }
                    }
                }
                steps_coq.push(format!(
                    "SExec {} {} {} {}",
                    coq_env(s.now, s.sender, &s.funds),
                    coq_op(op),
                    coq_bool(ok),
                    o.coq()
                ));
                prev = o;
            }
        }
    }
    Outcome {
        coq: format!("C12Hist {} {} {} {} {}", kind.coq(), env0, imsg, o0.coq(), coq_list(&steps_coq)),
        evals,
        viol,
        hist,
        nontrivial,
        sample,
    }
}

// ---------------------------------------------------------------- generators

fn fee_for(kind: Kind, limit: u32) -> u128 {
    match kind {
        Kind::Merkle => 1_000_000_000,
        _ => ((limit as u128 + 999) / 1000) * 100_000_000,
    }
}
fn native(a: u128) -> Vec<(String, u128)> {
    vec![(NATIVE.to_string(), a)]
}

fn base_init(kind: Kind, now: u64, start: u64, end: u64) -> Init {
    let members: Vec<(u64, u32)> = if kind == Kind::Merkle { vec![] } else { vec![(100, 1), (101, 2), (102, 1)] };
    Init {
        kind,
        now,
        sender: 60,
        funds: native(fee_for(kind, 10)),
        members: vec![members],
        start,
        end,
        pal: 2,
        limit: 10,
        whale: None,
        admins: vec![60, 61],
        mutable: true,
        root_ok: true,
        stages: vec![],
    }
}
fn call(now: u64, sender: u64, op: Op) -> Step {
    Step { now, sender, funds: vec![], op: Some(op) }
}
fn look(now: u64) -> Step {
    Step { now, sender: 60, funds: vec![], op: None }
}
fn around(t: u64) -> Vec<u64> {
    vec![t.saturating_sub(1), t, t.saturating_add(1)]
}
/// looks at start/end +-1 ns of the given window, in clock order from `from`
fn looks_after(from: u64, start: u64, end: u64) -> Vec<Step> {
    let mut ts: BTreeSet<u64> = BTreeSet::new();
    for t in around(start).into_iter().chain(around(end)) {
        if t >= from {
            ts.insert(t);
        }
    }
    ts.into_iter().map(look).collect()
}

fn corpus(kind: Kind) -> Vec<History> {
    let mut v = vec![];
    let (st, en) = (T0 + 100 * S, T0 + 200 * S);
    // shorten the end, then move the start up to it and past it
    v.push(History {
        init: base_init(kind, T0, st, en),
        steps: vec![
            call(T0 + 1, 60, Op::UpdEnd(T0 + 150 * S)),
            call(T0 + 2, 60, Op::UpdStart(T0 + 150 * S + 1)),
            call(T0 + 3, 60, Op::UpdStart(T0 + 150 * S)),
            look(T0 + 150 * S - 1),
            look(T0 + 150 * S),
            look(T0 + 150 * S + 1),
        ],
    });
    // everything exactly at the start instant
    v.push(History {
        init: base_init(kind, T0, st, en),
        steps: vec![
            call(st, 60, Op::UpdStart(st + 5)),
            call(st, 60, Op::UpdEnd(en + 1)),
            call(st, 60, Op::Remove(vec![100])),
            call(st, 60, Op::UpdEnd(en - 1)),
            call(st, 60, Op::UpdEnd(st)),
            call(st, 60, Op::UpdEnd(st - 1)),
            call(st, 60, Op::UpdPal(5)),
            look(st),
            look(st + 1),
        ],
    });
    // one instant before the start everything is still allowed
    v.push(History {
        init: base_init(kind, T0, st, en),
        steps: vec![
            call(st - 1, 60, Op::Remove(vec![100])),
            call(st - 1, 60, Op::UpdEnd(en + 7)),
            call(st - 1, 60, Op::UpdStart(st + 5)),
            look(st),
            look(st + 5),
            call(st + 5, 60, Op::Remove(vec![101])),
            call(st + 5, 60, Op::UpdStart(st + 9)),
            look(en + 7),
        ],
    });
    // a start before genesis is clamped to genesis; created before genesis
    v.push(History {
        init: base_init(kind, GENESIS - 100 * S, GENESIS + 50, GENESIS + 90),
        steps: vec![
            call(GENESIS - 50, 60, Op::UpdStart(GENESIS - 7)),
            look(GENESIS - 1),
            look(GENESIS),
            call(GENESIS, 60, Op::UpdStart(GENESIS + 1)),
            look(GENESIS + 89),
            look(GENESIS + 90),
        ],
    });
    // clamped while the clock is already past genesis: the whitelist starts at once
    v.push(History {
        init: base_init(kind, T0, st, en),
        steps: vec![call(T0 + 5, 60, Op::UpdStart(5)), look(T0 + 5), call(T0 + 6, 60, Op::UpdStart(st)), call(T0 + 6, 60, Op::UpdEnd(T0))],
    });
    // empty window start == end
    v.push(History { init: base_init(kind, T0, st, st), steps: looks_after(T0, st, st) });
    // end shortened below "now" after the start
    v.push(History {
        init: base_init(kind, T0, st, en),
        steps: vec![call(st + 50, 61, Op::UpdEnd(st + 10)), look(st + 50), call(st + 51, 61, Op::UpdEnd(st + 11)), call(st + 52, 61, Op::UpdEnd(st))],
    });
    v
}

/// member population as a dimension: the activity answers must follow the schedule alone,
/// with no member, one, or many; created empty, emptied before the start, filled while running
fn populations(kind: Kind) -> Vec<History> {
    let mut v = vec![];
    let (st, en) = (T0 + 100 * S, T0 + 200 * S);
    let window_looks = || -> Vec<Step> {
        let mut l = vec![look(T0 + 1)];
        l.extend(looks_after(T0 + 1, st, en));
        l.push(look(en + 50));
        l
    };
    for n in [0u64, 1, 12] {
        let members: Vec<(u64, u32)> = (0..n).map(|i| (100 + i, (i % 3) as u32)).collect();
        let ids: Vec<u64> = members.iter().map(|m| m.0).collect();
        let mk = |limit: u32| {
            let mut i = base_init(kind, T0, st, en);
            i.members = vec![if kind == Kind::Merkle { vec![] } else { members.clone() }];
            i.limit = limit;
            i.funds = native(fee_for(kind, limit));
            i
        };
        // as created, through the whole window
        v.push(History { init: mk(20), steps: window_looks() });
        // every member removed before the start: empty while the window is open
        let mut steps = vec![call(T0 + 1, 60, Op::Remove(ids.clone()))];
        steps.extend(looks_after(T0 + 1, st, en));
        // members arrive while it is running, then it is shortened to end at once
        steps.insert(3, call(st, 60, Op::Add(vec![(150, 0)])));
        steps.push(look(en + 1));
        v.push(History { init: mk(20), steps });
        // window edited while (possibly) empty
        v.push(History {
            init: mk(20),
            steps: vec![
                call(T0 + 1, 60, Op::Remove(ids.clone())),
                call(T0 + 2, 60, Op::UpdStart(st - 10)),
                look(st - 11),
                look(st - 10),
                call(st - 10, 60, Op::UpdEnd(st + 10)),
                look(st + 9),
                call(st + 9, 61, Op::Add(vec![(151, 1)])),
                look(st + 9),
                look(st + 10),
                look(st + 11),
            ],
        });
    }
    v
}

fn probes(kind: Kind) -> Vec<History> {
    let mut v = vec![];
    let (st, en) = (T0 + 100 * S, T0 + 200 * S);
    // instantiate: start vs end, start vs now, start vs genesis
    for s in around(en) {
        v.push(History { init: base_init(kind, T0, s, en), steps: vec![look(T0)] });
    }
    for s in around(T0) {
        v.push(History { init: base_init(kind, T0, s, en), steps: vec![look(T0), look(T0 + 1)] });
    }
    for s in around(GENESIS) {
        v.push(History { init: base_init(kind, GENESIS - 10, s, en), steps: vec![look(GENESIS - 1), look(GENESIS), look(GENESIS + 1)] });
    }
    // update_start_time: clock vs start, new value vs end, new value vs genesis, sender
    for now in around(st) {
        for t in [st - 5, st + 5, st] {
            let mut steps = vec![call(now, 60, Op::UpdStart(t))];
            steps.extend(looks_after(now, st, en));
            v.push(History { init: base_init(kind, T0, st, en), steps });
        }
    }
    for t in around(en) {
        let mut steps = vec![call(T0 + 1, 60, Op::UpdStart(t))];
        steps.extend(looks_after(T0 + 1, t, en));
        v.push(History { init: base_init(kind, T0, st, en), steps });
    }
    for t in around(GENESIS) {
        v.push(History {
            init: base_init(kind, GENESIS - 10, GENESIS + 20, GENESIS + 40),
            steps: vec![call(GENESIS - 9, 60, Op::UpdStart(t)), look(GENESIS - 1), look(GENESIS), look(GENESIS + 1), look(GENESIS + 20)],
        });
    }
    for sender in [60, 61, 62] {
        v.push(History {
            init: base_init(kind, T0, st, en),
            steps: vec![
                call(T0 + 1, sender, Op::UpdStart(st + 1)),
                call(T0 + 2, sender, Op::UpdEnd(en - 1)),
                call(T0 + 3, sender, Op::Remove(vec![102])),
                call(T0 + 4, sender, Op::UpdPal(3)),
                look(T0 + 5),
            ],
        });
    }
    // update_end_time: (clock vs start) x (new value vs old end); new value vs start
    for now in around(st) {
        for t in around(en) {
            let mut steps = vec![call(now, 60, Op::UpdEnd(t))];
            steps.extend(looks_after(now, st, t.min(en)));
            v.push(History { init: base_init(kind, T0, st, en), steps });
        }
        for t in around(st) {
            let mut steps = vec![call(now, 60, Op::UpdEnd(t))];
            steps.extend(looks_after(now, st, st));
            v.push(History { init: base_init(kind, T0, st, en), steps });
        }
    }
    // extend twice before the start, then try again after it
    v.push(History {
        init: base_init(kind, T0, st, en),
        steps: vec![
            call(T0 + 1, 60, Op::UpdEnd(en + 10)),
            call(st + 1, 60, Op::UpdEnd(en + 11)),
            call(st + 1, 60, Op::UpdEnd(en + 10)),
            call(st + 2, 60, Op::UpdEnd(en + 9)),
            call(en + 20, 60, Op::UpdEnd(en + 9)),
            call(en + 20, 60, Op::UpdEnd(en + 10)),
            look(en + 9),
        ],
    });
    // remove_members: clock vs start
    for now in around(st) {
        v.push(History {
            init: base_init(kind, T0, st, en),
            steps: vec![call(now, 60, Op::Remove(vec![101])), call(now, 60, Op::Remove(vec![100, 102])), look(now)],
        });
    }
    // update_per_address_limit: value bound, before and after the start
    for now in [T0 + 1, st, en + 1] {
        for n in [0u32, 1, 29, 30, 31] {
            v.push(History { init: base_init(kind, T0, st, en), steps: vec![call(now, 60, Op::UpdPal(n)), look(now)] });
        }
    }
    v
}

fn random_history(kind: Kind, rng: &mut Rng, pool: &[u64]) -> History {
    let now0 = if rng.chance(1, 8) { GENESIS - rng.range(1, 100) } else { T0 + rng.below(50) };
    let st = now0 + rng.range(10, 80);
    let en = st + rng.below(60);
    let mut init = base_init(kind, now0, st, en);
    init.pal = rng.range(1, 30) as u32;
    let mut steps = vec![];
    let mut now = now0;
    let (mut cs, mut ce) = (st, en);
    let n = rng.range(12, 40);
    for _ in 0..n {
        // the clock drifts towards and across the window
        now = now.saturating_add(match rng.below(12) {
            0 | 1 => 0,
            2 | 3 => 1,
            4 => cs.saturating_sub(now.saturating_add(1)),
            5 => cs.saturating_sub(now),
            6 => ce.saturating_sub(now.saturating_add(1)),
            7 => ce.saturating_sub(now),
            _ => rng.below(5),
        });
        let near = |rng: &mut Rng, xs: &[u64]| -> u64 {
            if rng.chance(1, 12) {
                return *rng.pick(pool);
            }
            let b = *rng.pick(xs);
            match rng.below(5) {
                0 => b.saturating_sub(1),
                1 => b,
                2 => b.saturating_add(1),
                3 => b.saturating_sub(rng.below(20)),
                _ => b.saturating_add(rng.below(20)),
            }
        };
        let sender = if rng.chance(1, 10) { 62 } else { *rng.pick(&[60u64, 61]) };
        let mut roll = rng.below(10);
        if now >= cs && roll <= 2 && rng.chance(3, 4) {
            roll = rng.range(3, 9); // a started whitelist refuses every start update: try it less often
        }
        let op = match roll {
            0..=2 if rng.chance(1, 2) && now < ce.saturating_sub(1) => Some(Op::UpdStart(rng.range(now + 1, ce))),
            3..=5 if rng.chance(1, 2) => Some(Op::UpdEnd(if now >= cs { if cs <= ce { rng.range(cs, ce) } else { cs } } else { cs.saturating_add(rng.below(70)) })),
            0..=2 => Some(Op::UpdStart(near(rng, &[cs, ce, now, GENESIS]))),
            3..=5 => Some(Op::UpdEnd(near(rng, &[cs, ce, now]))),
            6 => Some(Op::Remove(vec![*rng.pick(&[100u64, 101, 102, 103])])),
            7 => Some(Op::UpdPal(*rng.pick(&[0u32, 1, 5, 30, 31]))),
            8 => Some(Op::Add(vec![(rng.range(100, 106), 1)])),
            _ => None,
        };
        // keep our idea of the window roughly current (used only to aim values)
        match &op {
            Some(Op::UpdStart(t)) if sender != 62 && now < cs && *t <= ce => cs = (*t).max(GENESIS),
            Some(Op::UpdEnd(t)) if sender != 62 && *t >= cs && !(now >= cs && *t > ce) => ce = *t,
            _ => {}
        }
        steps.push(Step { now, sender, funds: vec![], op });
    }
    History { init, steps }
}

fn malformed(kind: Kind, rng: &mut Rng) -> Vec<History> {
    let (st, en) = (T0 + 100 * S, T0 + 200 * S);
    let mut v = vec![];
    for funds in [vec![], native(fee_for(kind, 10) - 1), native(fee_for(kind, 10) + 1), vec![("uother".to_string(), fee_for(kind, 10))]] {
        let mut i = base_init(kind, T0, st, en);
        i.funds = funds;
        v.push(History { init: i, steps: vec![] });
    }
    let mut i = base_init(kind, T0, st, en);
    i.root_ok = false;
    i.admins = if kind == Kind::Merkle { vec![60] } else { vec![60, 51] };
    v.push(History { init: i, steps: vec![] });
    let mut i = base_init(kind, T0, st, en);
    i.admins = vec![];
    v.push(History { init: i, steps: vec![call(T0 + 1, 60, Op::UpdStart(st + 1)), look(T0 + 2)] });
    // huge timestamps
    let big = u64::MAX - rng.below(3);
    v.push(History {
        init: base_init(kind, T0, st, en),
        steps: vec![call(T0 + 1, 60, Op::UpdEnd(big)), call(T0 + 2, 60, Op::UpdStart(big)), look(big), call(big, 60, Op::UpdEnd(0)), call(big, 60, Op::Freeze), look(big)],
    });
    v.push(History {
        init: base_init(kind, T0, st, en),
        steps: vec![call(T0 + 1, 60, Op::Freeze), call(T0 + 2, 60, Op::UpdAdmins(vec![62])), call(T0 + 3, 60, Op::UpdStart(st + 1)), call(T0 + 4, 62, Op::UpdStart(st + 2))],
    });
    v.push(History {
        init: base_init(kind, T0, st, en),
        steps: vec![call(T0 + 2, 60, Op::UpdAdmins(vec![62])), call(T0 + 3, 60, Op::UpdStart(st + 1)), call(T0 + 4, 62, Op::UpdStart(st + 2)), call(T0 + 5, 62, Op::UpdAdmins(vec![50]))],
    });
    v
}

fn gen_histories(a: &Args) -> Vec<History> {
    let mut rng = Rng::new(a.seed);
    let mut pool: Vec<u64> = vec![0, 1, GENESIS - 1, GENESIS, GENESIS + 1, u64::MAX];
    for l in harvest_literals(&[
        "contracts/whitelists/whitelist/src/contract.rs",
        "contracts/whitelists/whitelist-flex/src/contract.rs",
        "contracts/whitelists/whitelist-merkletree/src/contract.rs",
        "packages/sg-utils/src/lib.rs",
    ]) {
        for d in [l.saturating_sub(1), l, l.saturating_add(1)] {
            if d <= u64::MAX as u128 {
                pool.push(d as u64);
            }
        }
    }
    let mut v = vec![];
    for k in KINDS {
        v.extend(corpus(k));
    }
    for k in KINDS {
        v.extend(probes(k));
    }
    for k in KINDS {
        v.extend(populations(k));
    }
    let nrand = if a.thorough() { 1500 } else { 100 };
    for k in KINDS {
        for _ in 0..nrand {
            v.push(random_history(k, &mut rng, &pool));
        }
    }
    for k in KINDS {
        v.extend(malformed(k, &mut rng));
    }
    v
}

/// drop steps one at a time while the same violation key is still produced
fn shrink(h: &History, key: &str) -> History {
    let mut cur = h.clone();
    loop {
        let mut progressed = false;
        let mut i = 0;
        while i < cur.steps.len() {
            let mut cand = cur.clone();
            cand.steps.remove(i);
            match run_history(&cand).viol {
                Some((k, _)) if k == key => {
                    cur = cand;
                    progressed = true;
                }
                _ => i += 1,
            }
        }
        if !progressed {
            return cur;
        }
    }
}

pub fn run(a: &Args) {
    let out = OutDir::new(&a.out);
    let mut rep = Report { property: "C12".into(), tier: a.tier.clone(), seed: a.seed, ..Default::default() };
    let hs: Vec<History> = if let Some(p) = &a.replay {
        #[derive(Deserialize)]
        struct ReplayFile {
            case: History,
        }
        let txt = std::fs::read_to_string(p).expect("replay file");
        let rf: ReplayFile = serde_json::from_str(&txt).expect("replay json");
        vec![rf.case]
    } else {
        gen_histories(a)
    };
    let mut coq_cases = Vec::with_capacity(hs.len());
    let mut distinct = BTreeSet::new();
    let mut seen_keys: BTreeMap<String, u32> = BTreeMap::new();
    let mut nviol = 0;
    for (i, h) in hs.iter().enumerate() {
        let o = run_history(h);
        rep.evaluations += o.evals;
        for k in &o.hist {
            rep.bump(k);
        }
        if o.nontrivial {
            distinct.insert(h.clone());
        }
        if let Some((key, what)) = &o.viol {
            nviol += 1;
            let n = seen_keys.entry(key.clone()).or_insert(0);
            *n += 1;
            if *n <= 2 && rep.violations.len() < 20 {
                let small = shrink(h, key);
                let what2 = run_history(&small).viol.map(|v| v.1).unwrap_or(what.clone());
                let body = format!(
                    "{{\n \"property\": \"C12\",\n \"key\": {},\n \"case\": {},\n \"violation\": {}\n}}\n",
                    serde_json::to_string(key).unwrap(),
                    serde_json::to_string(&small).unwrap(),
                    serde_json::to_string(&what2).unwrap()
                );
                let path = out.write_replay(&format!("C12-{}.json", rep.violations.len() + 1), &body);
                rep.violations.push(Violation { key: key.clone(), what: format!("{}: {}", h.init.kind.label(), what2), replay: path });
            }
        }
        if rep.samples.len() < 3 && (i % 97 == 3 || a.replay.is_some()) {
            rep.samples.push(json!({"history": format!("{:?} + {} steps", h.init.kind, h.steps.len()), "impl_output": o.sample}));
        }
        coq_cases.push(o.coq);
    }
    rep.distinct_nontrivial = distinct.len() as u64;
    rep.rule = "histories on the real whitelist, whitelist-flex and whitelist-merkletree contracts: curated interleavings, guard-boundary probes (every time guard at -1/0/+1 ns, every sender role, per kind), random monotone-clock histories, malformed stream; evaluations = instantiate + calls + clock looks. Non-trivial = distinct history with at least one accepted schedule / removal / per-address-limit call.".into();
    out.write_cases("C12", "From LP Require Import Wl C12Corr.", "c12_case", "c12_check", &coq_cases, 6, &mut rep);
    out.finish(&rep);
    println!("C12 harness: {} histories, {} steps, {} monitor violations", hs.len(), rep.evaluations, nviol);
}
