//! w_whitelist: the whitelist world shared by C11 and C12.
//!
//! One chain, one whitelist contract of the chosen kind, three funded accounts.  All
//! messages are built as JSON by hand so that every kind is driven by the same code and
//! an operation a kind does not have is simply a rejected call.  The id <-> string table
//! is fixed (string order == id order, so `sort_unstable` on names is a sort on ids):
//!   5          -> "contract0" (the whitelist itself)
//!   50,51,52   -> "A1", "Bob", "ab"      (rejected by addr_validate: short / uppercase)
//!   60..=69    -> "adm0" .. "adm9"       (senders; adm0 creates and pays)
//!   100..=9999 -> "u0100" .. "u9999"     (members)
#![allow(dead_code, unused_imports)]
use crate::chain::{self, App};
use crate::util::*;
use cosmwasm_std::{coin, Addr, Coin};
use cw_multi_test::{AppResponse, Executor};
use serde::{Deserialize, Serialize};
use serde_json::{json, Value};

pub const GENESIS: u64 = chain::GENESIS_NS;
pub const SELF_ID: u64 = 5;
pub const FIRST_VALID: u64 = 60;
pub const ACCOUNTS: [u64; 3] = [60, 61, 62];
pub const START_BALANCE: u128 = 1_000_000_000_000_000;
pub const ROOT_OK: &str = "0123456789abcdef0123456789abcdef0123456789abcdef0123456789abcdef";
pub const ROOT_BAD: &str = "0123456789abcdef0123456789abcdef0123456789abcdef0123456789abcd";

pub fn name(id: u64) -> String {
    match id {
        5 => "contract0".into(),
        50 => "A1".into(),
        51 => "Bob".into(),
        52 => "ab".into(),
        60..=69 => format!("adm{}", id - 60),
        100..=9999 => format!("u{:04}", id),
        _ => format!("zz{:08}", id),
    }
}
pub fn id_of(s: &str) -> u64 {
    match s {
        "contract0" => 5,
        "A1" => 50,
        "Bob" => 51,
        "ab" => 52,
        _ if s.starts_with("adm") => 60 + s[3..].parse::<u64>().unwrap_or(99),
        _ if s.starts_with('u') => s[1..].parse::<u64>().unwrap_or(0),
        _ if s.starts_with("zz") => s[2..].parse::<u64>().unwrap_or(0),
        _ => 0,
    }
}

#[derive(Clone, Copy, Debug, Serialize, Deserialize, PartialEq, Eq, PartialOrd, Ord, Hash)]
pub enum Kind {
    Plain,
    Flex,
    Merkle,
    Tiered,
    TieredFlex,
    Immutable,
}
impl Kind {
    pub fn label(&self) -> &'static str {
        match self {
            Kind::Plain => "whitelist",
            Kind::Flex => "whitelist-flex",
            Kind::Merkle => "whitelist-merkletree",
            Kind::Tiered => "tiered-whitelist",
            Kind::TieredFlex => "tiered-whitelist-flex",
            Kind::Immutable => "whitelist-immutable",
        }
    }
    pub fn coq(&self) -> &'static str {
        match self {
            Kind::Plain => "KPlain",
            Kind::Flex => "KFlex",
            Kind::Merkle => "KMerkle",
            Kind::Tiered => "false",
            Kind::TieredFlex => "true",
            Kind::Immutable => "KImm",
        }
    }
    pub fn is_flex(&self) -> bool {
        matches!(self, Kind::Flex | Kind::TieredFlex)
    }
    pub fn is_tiered(&self) -> bool {
        matches!(self, Kind::Tiered | Kind::TieredFlex)
    }
    /// documented capacity
    pub fn max_members(&self) -> u32 {
        match self {
            Kind::Plain | Kind::Flex => 5000,
            Kind::Tiered | Kind::TieredFlex => 30000,
            _ => 0,
        }
    }
}

#[derive(Clone, Debug, Serialize, Deserialize, PartialEq, Eq, PartialOrd, Ord)]
pub struct StageSpec {
    pub start: u64,
    pub end: u64,
    pub pal: u32,
    /// 0 = ustars, 1 = uother
    pub denom: u64,
}

#[derive(Clone, Debug, Serialize, Deserialize, PartialEq, Eq, PartialOrd, Ord)]
pub struct Init {
    pub kind: Kind,
    pub now: u64,
    pub sender: u64,
    pub funds: Vec<(String, u128)>,
    /// plain/flex/immutable: one list; tiered: one list per stage
    pub members: Vec<Vec<(u64, u32)>>,
    pub start: u64,
    pub end: u64,
    pub pal: u32,
    pub limit: u32,
    pub whale: Option<u32>,
    pub admins: Vec<u64>,
    pub mutable: bool,
    pub root_ok: bool,
    pub stages: Vec<StageSpec>,
}

#[derive(Clone, Debug, Serialize, Deserialize, PartialEq, Eq, PartialOrd, Ord)]
pub enum Op {
    UpdStart(u64),
    UpdEnd(u64),
    Add(Vec<(u64, u32)>),
    Remove(Vec<u64>),
    UpdPal(u32),
    Increase(u32),
    UpdAdmins(Vec<u64>),
    Freeze,
    // tiered kinds
    TAdd { stage: u32, ms: Vec<(u64, u32)> },
    TRemove { stage: u32, ms: Vec<u64> },
    AddStage { stage: StageSpec, ms: Vec<(u64, u32)> },
    RemoveStage(u32),
    UpdStage { stage: u32, start: Option<u64>, end: Option<u64>, pal: Option<u32> },
}
impl Op {
    pub fn kind_label(&self) -> &'static str {
        match self {
            Op::UpdStart(_) => "update_start_time",
            Op::UpdEnd(_) => "update_end_time",
            Op::Add(_) | Op::TAdd { .. } => "add_members",
            Op::Remove(_) | Op::TRemove { .. } => "remove_members",
            Op::UpdPal(_) => "update_per_address_limit",
            Op::Increase(_) => "increase_member_limit",
            Op::UpdAdmins(_) => "update_admins",
            Op::Freeze => "freeze",
            Op::AddStage { .. } => "add_stage",
            Op::RemoveStage(_) => "remove_stage",
            Op::UpdStage { .. } => "update_stage_config",
        }
    }
}

#[derive(Clone, Debug, Serialize, Deserialize, PartialEq, Eq, PartialOrd, Ord)]
pub struct Step {
    pub now: u64,
    pub sender: u64,
    pub funds: Vec<(String, u128)>,
    /// None: only move the clock and look
    pub op: Option<Op>,
}

#[derive(Clone, Debug, Serialize, Deserialize, PartialEq, Eq, PartialOrd, Ord)]
pub struct History {
    pub init: Init,
    pub steps: Vec<Step>,
}

pub fn ts(n: u64) -> Value {
    Value::String(n.to_string())
}
fn price() -> Value {
    json!({"denom": NATIVE, "amount": "100"})
}
fn names(ids: &[u64]) -> Vec<String> {
    ids.iter().map(|i| name(*i)).collect()
}
fn members_json(flex: bool, ms: &[(u64, u32)]) -> Value {
    if flex {
        Value::Array(ms.iter().map(|(a, c)| json!({"address": name(*a), "mint_count": c})).collect())
    } else {
        Value::Array(ms.iter().map(|(a, _)| Value::String(name(*a))).collect())
    }
}
fn stage_json(flex: bool, i: usize, s: &StageSpec) -> Value {
    let denom = if s.denom == 0 { NATIVE } else { "uother" };
    if flex {
        json!({"name": format!("stage{}", i), "start_time": ts(s.start), "end_time": ts(s.end),
               "mint_price": {"denom": denom, "amount": "100"}, "mint_count_limit": null})
    } else {
        json!({"name": format!("stage{}", i), "start_time": ts(s.start), "end_time": ts(s.end),
               "mint_price": {"denom": denom, "amount": "100"}, "per_address_limit": s.pal, "mint_count_limit": null})
    }
}

pub fn init_json(i: &Init) -> Value {
    let one = i.members.first().cloned().unwrap_or_default();
    match i.kind {
        Kind::Plain => json!({
            "members": members_json(false, &one), "start_time": ts(i.start), "end_time": ts(i.end),
            "mint_price": price(), "per_address_limit": i.pal, "member_limit": i.limit,
            "admins": names(&i.admins), "admins_mutable": i.mutable}),
        Kind::Flex => json!({
            "members": members_json(true, &one), "start_time": ts(i.start), "end_time": ts(i.end),
            "mint_price": price(), "member_limit": i.limit, "whale_cap": i.whale,
            "admins": names(&i.admins), "admins_mutable": i.mutable}),
        Kind::Merkle => json!({
            "merkle_root": if i.root_ok { ROOT_OK } else { ROOT_BAD }, "merkle_tree_uri": null,
            "start_time": ts(i.start), "end_time": ts(i.end), "mint_price": price(),
            "per_address_limit": i.pal, "admins": names(&i.admins), "admins_mutable": i.mutable}),
        Kind::Tiered => json!({
            "members": i.members.iter().map(|m| members_json(false, m)).collect::<Vec<_>>(),
            "stages": i.stages.iter().enumerate().map(|(k, s)| stage_json(false, k, s)).collect::<Vec<_>>(),
            "member_limit": i.limit, "admins": names(&i.admins), "admins_mutable": i.mutable}),
        Kind::TieredFlex => json!({
            "members": i.members.iter().map(|m| members_json(true, m)).collect::<Vec<_>>(),
            "stages": i.stages.iter().enumerate().map(|(k, s)| stage_json(true, k, s)).collect::<Vec<_>>(),
            "member_limit": i.limit, "whale_cap": i.whale, "admins": names(&i.admins), "admins_mutable": i.mutable}),
        Kind::Immutable => json!({
            "addresses": members_json(false, &one), "per_address_limit": i.pal, "mint_discount_bps": i.whale}),
    }
}

pub fn op_json(kind: Kind, op: &Op) -> Value {
    let flex = kind.is_flex();
    match op {
        Op::UpdStart(t) => json!({"update_start_time": ts(*t)}),
        Op::UpdEnd(t) => json!({"update_end_time": ts(*t)}),
        Op::Add(ms) => json!({"add_members": {"to_add": members_json(flex, ms)}}),
        Op::Remove(ms) => json!({"remove_members": {"to_remove": names(ms)}}),
        Op::UpdPal(n) => json!({"update_per_address_limit": n}),
        Op::Increase(n) => json!({"increase_member_limit": n}),
        Op::UpdAdmins(l) => json!({"update_admins": {"admins": names(l)}}),
        Op::Freeze => json!({"freeze": {}}),
        Op::TAdd { stage, ms } => json!({"add_members": {"to_add": members_json(flex, ms), "stage_id": stage}}),
        Op::TRemove { stage, ms } => json!({"remove_members": {"to_remove": names(ms), "stage_id": stage}}),
        Op::AddStage { stage, ms } => json!({"add_stage": {"stage": stage_json(flex, 9, stage), "members": members_json(flex, ms)}}),
        Op::RemoveStage(k) => json!({"remove_stage": {"stage_id": k}}),
        Op::UpdStage { stage, start, end, pal } => {
            let mut m = serde_json::Map::new();
            m.insert("stage_id".into(), json!(stage));
            if let Some(s) = start {
                m.insert("start_time".into(), ts(*s));
            }
            if let Some(e) = end {
                m.insert("end_time".into(), ts(*e));
            }
            if let (Some(p), false) = (pal, flex) {
                m.insert("per_address_limit".into(), json!(p));
            }
            json!({ "update_stage_config": Value::Object(m) })
        }
    }
}

pub fn funds_of(v: &[(String, u128)]) -> Vec<Coin> {
    v.iter().map(|(d, a)| coin(*a, d.clone())).collect()
}

#[derive(Clone, Debug, PartialEq, Eq, Default)]
pub struct Ledger {
    /// balance of the whitelist contract (ustars)
    pub held: u128,
    /// balance of the fair-burn pool account
    pub pool: u128,
    /// minted minus everything still held by the accounts, the whitelist and the pool:
    /// what left circulation (cw-multi-test 1.2 without `cosmwasm_1_1` has no supply query)
    pub burned: u128,
    /// what the three accounts have paid in total
    pub paid: u128,
}

pub struct World {
    pub app: App,
    pub kind: Kind,
    pub code: u64,
    pub addr: Option<Addr>,
    pub supply0: u128,
}

impl World {
    pub fn new(kind: Kind) -> World {
        let mut app = chain::new_app();
        let code = app.store_code(match kind {
            Kind::Plain => chain::whitelist(),
            Kind::Flex => chain::whitelist_flex(),
            Kind::Merkle => chain::whitelist_merkletree(),
            Kind::Tiered => chain::tiered_whitelist(),
            Kind::TieredFlex => chain::tiered_whitelist_flex(),
            Kind::Immutable => chain::whitelist_immutable(),
        });
        for a in ACCOUNTS {
            chain::mint_coins(&mut app, &name(a), START_BALANCE, NATIVE);
            chain::mint_coins(&mut app, &name(a), START_BALANCE, "uother");
        }
        let supply0 = START_BALANCE * ACCOUNTS.len() as u128;
        World { app, kind, code, addr: None, supply0 }
    }

    pub fn instantiate(&mut self, i: &Init) -> Result<(), String> {
        chain::set_time(&mut self.app, i.now);
        let msg = init_json(i);
        let funds = funds_of(&i.funds);
        let sender = Addr::unchecked(name(i.sender));
        let code = self.code;
        let app = &mut self.app;
        let r = catch(|| app.instantiate_contract(code, sender, &msg, &funds, "wl", None));
        match r {
            Ok(Ok(a)) => {
                self.addr = Some(a);
                Ok(())
            }
            Ok(Err(e)) => Err(format!("{:#}", e)),
            Err(p) => Err(p),
        }
    }

    pub fn set_time(&mut self, now: u64) {
        chain::set_time(&mut self.app, now);
    }

    pub fn exec(&mut self, s: &Step) -> Result<AppResponse, String> {
        self.set_time(s.now);
        let op = s.op.as_ref().expect("exec on a look step");
        let msg = op_json(self.kind, op);
        let addr = self.addr.clone().expect("no contract");
        chain::exec(&mut self.app, &name(s.sender), &addr, &msg, &funds_of(&s.funds))
    }

    pub fn query(&self, q: &Value) -> Result<Value, String> {
        let addr = self.addr.clone().expect("no contract");
        let app = &self.app;
        match catch(|| app.wrap().query_wasm_smart::<Value>(addr, q)) {
            Ok(Ok(v)) => Ok(v),
            Ok(Err(e)) => Err(e.to_string()),
            Err(p) => Err(p),
        }
    }

    /// CanExecute { sender, msg }: None when the query fails (malformed sender)
    pub fn can_execute(&self, a: u64) -> Option<bool> {
        let msg = json!({"bank": {"send": {"to_address": name(60), "amount": []}}});
        self.query(&json!({"can_execute": {"sender": name(a), "msg": msg}})).ok().and_then(|v| v["can_execute"].as_bool())
    }
    /// AdminList: (admins, mutable)
    pub fn admin_list(&self) -> (Vec<u64>, bool) {
        match self.query(&json!({"admin_list": {}})) {
            Ok(v) => (
                v["admins"].as_array().map(|a| a.iter().map(|x| id_of(x.as_str().unwrap_or(""))).collect()).unwrap_or_default(),
                v["mutable"].as_bool().unwrap_or(false),
            ),
            Err(_) => (vec![9999], false),
        }
    }

    pub fn digest(&self) -> String {
        chain::storage_digest(&self.app, self.addr.as_ref().expect("no contract"))
    }

    pub fn ledger(&self) -> Ledger {
        let held = self.addr.as_ref().map(|a| chain::balance(&self.app, a.as_str(), NATIVE)).unwrap_or(0);
        let pool = chain::balance(&self.app, chain::FAIRBURN_POOL, NATIVE);
        let have: u128 = ACCOUNTS.iter().map(|a| chain::balance(&self.app, &name(*a), NATIVE)).sum();
        let burned = self.supply0 - have - held - pool;
        Ledger { held, pool, burned, paid: START_BALANCE * ACCOUNTS.len() as u128 - have }
    }

    /// Walk the paginated Members query to its end (page size 7, so that several pages are
    /// needed); (id, mint_count) with mint_count = 1 for the non-flex kinds.
    pub fn members_all(&self, stage: Option<u32>) -> Result<Vec<(u64, u32)>, String> {
        self.members_walk(stage, Some(7)).map(|r| r.0)
    }

    /// Walk the paginated Members query to its end asking for `limit` entries per page
    /// (None: the contract's default).  Returns the concatenation and the page sizes.
    pub fn members_walk(&self, stage: Option<u32>, limit: Option<u32>) -> Result<(Vec<(u64, u32)>, Vec<usize>), String> {
        let mut out: Vec<(u64, u32)> = vec![];
        let mut pages = vec![];
        let mut after: Option<String> = None;
        loop {
            let mut q = serde_json::Map::new();
            q.insert("start_after".into(), json!(after));
            q.insert("limit".into(), json!(limit));
            if let Some(s) = stage {
                q.insert("stage_id".into(), json!(s));
            }
            let v = self.query(&json!({ "members": Value::Object(q) }))?;
            let page = v["members"].as_array().cloned().ok_or("members: no array")?;
            if page.is_empty() {
                break;
            }
            pages.push(page.len());
            let before = after.clone();
            for m in &page {
                let (n, c) = match m {
                    Value::String(s) => (s.clone(), 1u32),
                    o => (o["address"].as_str().unwrap_or("").to_string(), o["mint_count"].as_u64().unwrap_or(0) as u32),
                };
                after = Some(n.clone());
                out.push((id_of(&n), c));
            }
            // no progress (the page ends where it was asked to start after): would never end
            if after == before || out.len() > 100_000 || pages.len() > 100_000 {
                return Err(format!("members: pagination does not advance past {:?}", after));
            }
        }
        Ok((out, pages))
    }

    /// What is actually stored, read from raw storage through the crates' own public
    /// map constants: (stage id, member id, mint count); stage 0 / count 1 where the kind
    /// has none.  Ascending key order.
    pub fn raw_members(&self) -> Vec<(u32, u64, u32)> {
        use cosmwasm_std::Order;
        let Some(addr) = self.addr.as_ref() else { return vec![] };
        let st = self.app.contract_storage(addr);
        match self.kind {
            Kind::Plain => sg_whitelist::state::WHITELIST
                .range(&*st, None, None, Order::Ascending)
                .map(|r| r.unwrap())
                .map(|(a, _)| (0, id_of(a.as_str()), 1))
                .collect(),
            Kind::Flex => sg_whitelist_flex::state::WHITELIST
                .range(&*st, None, None, Order::Ascending)
                .map(|r| r.unwrap())
                .map(|(a, c)| (0, id_of(a.as_str()), c))
                .collect(),
            Kind::Tiered => sg_tiered_whitelist::state::WHITELIST_STAGES
                .range(&*st, None, None, Order::Ascending)
                .map(|r| r.unwrap())
                .map(|((k, a), _)| (k, id_of(a.as_str()), 1))
                .collect(),
            Kind::TieredFlex => sg_tiered_whitelist_flex::state::WHITELIST_STAGES
                .range(&*st, None, None, Order::Ascending)
                .map(|r| r.unwrap())
                .map(|((k, a), c)| (k, id_of(a.as_str()), c))
                .collect(),
            Kind::Immutable => whitelist_immutable::state::WHITELIST
                .keys(&*st, None, None, Order::Ascending)
                .map(|k| (0, id_of(&k.unwrap()), 1))
                .collect(),
            Kind::Merkle => vec![],
        }
    }
}

pub fn u64_of(v: &Value) -> u64 {
    match v {
        Value::String(s) => s.parse().unwrap_or(u64::MAX),
        Value::Number(n) => n.as_u64().unwrap_or(u64::MAX),
        _ => u64::MAX,
    }
}

// ---------- Coq printing shared by C11 / C12 ----------
pub fn coq_funds(fs: &[(String, u128)]) -> String {
    let mut d = denom_ids();
    let _ = d.id("uother");
    coq_list(&fs.iter().map(|(dn, a)| format!("mkCoin {} {}", d.id(dn), a)).collect::<Vec<_>>())
}
pub fn coq_pairs(ms: &[(u64, u32)]) -> String {
    coq_list(&ms.iter().map(|(a, c)| format!("({}, {})", a, c)).collect::<Vec<_>>())
}
pub fn coq_ns(ms: &[u64]) -> String {
    coq_list(&ms.iter().map(|a| a.to_string()).collect::<Vec<_>>())
}
pub fn coq_opt32(o: Option<u32>) -> String {
    coq_opt_n(o.map(|x| x as u64))
}
pub fn coq_env(now: u64, sender: u64, funds: &[(String, u128)]) -> String {
    format!("(mkEnv {} {} {})", now, sender, coq_funds(funds))
}
/// imsg of coq/model/Wl.v (plain, flex, merkle)
pub fn coq_imsg(i: &Init) -> String {
    let one = i.members.first().cloned().unwrap_or_default();
    format!(
        "(mkImsg {} {} {} {} {} {} {} {} {})",
        coq_pairs(&one),
        i.start,
        i.end,
        i.pal,
        i.limit,
        coq_opt32(i.whale),
        coq_ns(&i.admins),
        coq_bool(i.mutable),
        coq_bool(i.root_ok)
    )
}
/// op of coq/model/Wl.v; the tiered ops have no counterpart there
pub fn coq_op(op: &Op) -> String {
    match op {
        Op::UpdStart(t) => format!("(OUpdStart {})", t),
        Op::UpdEnd(t) => format!("(OUpdEnd {})", t),
        Op::Add(ms) => format!("(OAdd {})", coq_pairs(ms)),
        Op::Remove(ms) => format!("(ORemove {})", coq_ns(ms)),
        Op::UpdPal(n) => format!("(OUpdPal {})", n),
        Op::Increase(n) => format!("(OIncrease {})", n),
        Op::UpdAdmins(l) => format!("(OUpdAdmins {})", coq_ns(l)),
        Op::Freeze => "OFreeze".to_string(),
        _ => panic!("tiered op in a plain history"),
    }
}
